"""Structural pattern matching on syntax trees with metavariables.

A pattern is Python source in which ``$name`` stands for any expression
(bound consistently: two occurrences must be structurally equal), ``$_`` for
any expression without binding, and ``$*name`` inside a call's argument list
or a tuple for "the remaining positional elements".  Keyword arguments of a
call given in the pattern must be present; additional ones in the subject
are accepted only if the pattern contains ``**$kw``-less... (no: calls must
have exactly the keywords of the pattern unless the pattern says ``$**``).
"""
import ast
import re

_MV = "__mv_"
_MVS = "__mvs_"
_LIT = "__lit_"     # @name in a pattern: this very local name
_cache = {}


def _compile(pattern, mode):
    key = (pattern, mode)
    if key not in _cache:
        src = pattern.replace("$**", "**__mvk_any")
        src = re.sub(r"\$\*(\w+)", r"*" + _MVS + r"\1", src)
        src = re.sub(r"\$(\w+)", _MV + r"\1", src)
        src = re.sub(r"@(\w+)", _LIT + r"\1", src)
        tree = ast.parse(src, mode="exec")
        from .normalize import fold_constants
        tree = fold_constants(tree)
        if mode == "expr":
            if len(tree.body) != 1 or not isinstance(tree.body[0], ast.Expr):
                raise ValueError(f"not an expression pattern: {pattern}")
            _cache[key] = tree.body[0].value
        else:
            if len(tree.body) != 1:
                raise ValueError(f"not a single statement: {pattern}")
            _cache[key] = tree.body[0]
    return _cache[key]


def same(a, b):
    """structural equality of two trees (positions ignored)"""
    if isinstance(a, ast.AST) and isinstance(b, ast.AST):
        return ast.dump(a) == ast.dump(b)
    return a == b


import builtins as _builtins

# Names that denote something fixed (builtins, module-level symbols and
# imports of the analysed package, self/cls/super).  Every *other* plain name
# in a pattern is taken to be a local variable or parameter of the code under
# analysis: it matches any name, consistently within one match, so that
# renaming a local does not change what a rule sees.
LITERAL_NAMES = set(dir(_builtins)) | {"self", "cls", "super"}


def set_literal_names(names):
    LITERAL_NAMES.update(names)


_BUILTIN_NAMES = set(dir(_builtins)) | {"self", "cls", "super"}


def _is_local_name(name, node=None):
    """is `name` a local variable / parameter in the module `node` is from?
    (module-level symbols and imports of *that* module are not)"""
    mod = getattr(node, "_module", None)
    if mod is not None:
        return name not in _BUILTIN_NAMES and name not in mod.symbols \
            and name not in mod.imports
    return name not in LITERAL_NAMES and not name[:1].isupper()


import os as _os
# Plain names in a pattern used to match any local (consistently); since the
# tree is alpha-normalised to the reference spelling before any rule runs
# (sa/normalize.py) names are matched literally, which keeps patterns that
# interpolate one particular variable exact.  SA_LOCAL_INSENSITIVE=1 brings
# the old behaviour back for experiments.
LOCAL_INSENSITIVE = _os.environ.get("SA_LOCAL_INSENSITIVE") == "1"
# set by the repository index: folds a name / attribute chain that denotes
# a class or module constant to its value (raises if it cannot)
FOLD = None

_COMMUTATIVE = (ast.Add, ast.Mult, ast.BitOr, ast.BitAnd, ast.BitXor)
# `a < b` is `b > a`, `a == b` is `b == a` (for the DSL's expression objects
# too: Python falls back to the reflected method, which the DSL defines as
# the mirrored comparison)
_FLIP = {ast.Lt: ast.Gt, ast.Gt: ast.Lt, ast.LtE: ast.GtE, ast.GtE: ast.LtE,
         ast.Eq: ast.Eq, ast.NotEq: ast.NotEq}


def _flatten_or(e):
    if isinstance(e, ast.BinOp) and isinstance(e.op, ast.BitOr):
        return _flatten_or(e.left) + _flatten_or(e.right)
    return [e]


def _is_int_const(n):
    return isinstance(n, ast.Constant) and isinstance(n.value, int) \
        and not isinstance(n.value, bool)


def _m(p, s, b):
    if isinstance(p, ast.Name) and p.id.startswith(_LIT):
        return isinstance(s, ast.Name) and s.id == p.id[len(_LIT):]
    if LOCAL_INSENSITIVE and isinstance(p, ast.Name) \
            and not p.id.startswith((_MV, _MVS)) \
            and isinstance(s, ast.Name) and _is_local_name(p.id, s) \
            and _is_local_name(s.id, s):
        key = "~" + p.id
        if key in b:
            return b[key] == s.id
        if s.id in [v for k, v in b.items() if k.startswith("~")]:
            return False    # two pattern locals never share one name
        b[key] = s.id
        return True
    if isinstance(p, ast.Name) and p.id.startswith(_MV):
        name = p.id[len(_MV):]
        if not isinstance(s, ast.AST):
            return False
        if name == "_":
            return True
        if name in b:
            return same(b[name], s)
        b[name] = s
        return True
    if _is_int_const(p) and isinstance(s, (ast.Attribute, ast.Name)) \
            and FOLD is not None:
        # a literal in the pattern also matches a named constant of the
        # same value (self.DATAGRAM_TAIL for 2)
        try:
            return FOLD(s) == p.value
        except Exception:
            return False
    if isinstance(p, ast.AST):
        if type(p) is not type(s):
            return False
        if isinstance(p, ast.BinOp) and isinstance(p.op, ast.BitOr) \
                and isinstance(s, ast.BinOp) and isinstance(s.op, ast.BitOr):
            # a set of flags: `A | B | C` in any order and grouping
            po, so = _flatten_or(p), _flatten_or(s)
            if len(po) == len(so) and len(po) > 2:
                saved = dict(b)
                rest = list(so)
                okall = True
                for x in sorted(po, key=lambda e: isinstance(
                        e, ast.Name) and e.id.startswith((_MV, _MVS))):
                    hit = None
                    for y in rest:
                        trial = dict(b)
                        if _m(x, y, trial):
                            hit = (y, trial)
                            break
                    if hit is None:
                        okall = False
                        break
                    rest.remove(hit[0])
                    b.clear()
                    b.update(hit[1])
                if okall:
                    return True
                b.clear()
                b.update(saved)
                return False
        if isinstance(p, ast.BinOp) and isinstance(p.op, _COMMUTATIVE) \
                and type(p.op) is type(s.op) and (
                    _is_int_const(p.left) or _is_int_const(p.right)):
            # integer arithmetic (one operand of the pattern is an integer
            # literal): `a + 7` and `7 + a` are the same expression
            saved = dict(b)
            if _m(p.left, s.left, b) and _m(p.right, s.right, b):
                return True
            b.clear()
            b.update(saved)
            if _m(p.left, s.right, b) and _m(p.right, s.left, b):
                return True
            b.clear()
            b.update(saved)
            return False
        if isinstance(p, ast.Compare) and len(p.ops) == 1 and len(
                s.ops) == 1 and type(p.ops[0]) in _FLIP:
            saved = dict(b)
            if type(p.ops[0]) is type(s.ops[0]) and _m(
                    p.left, s.left, b) and _m(
                        p.comparators[0], s.comparators[0], b):
                return True
            b.clear()
            b.update(saved)
            if _FLIP[type(p.ops[0])] is type(s.ops[0]) and _m(
                    p.left, s.comparators[0], b) and _m(
                        p.comparators[0], s.left, b):
                return True
            b.clear()
            b.update(saved)
            return False
        if isinstance(p, ast.Call):
            return _m(p.func, s.func, b) and _mseq(p.args, s.args, b) \
                and _mkw(p.keywords, s.keywords, b)
        for f in p._fields:
            if f in ("ctx", "type_comment", "kind"):
                continue
            if not _m(getattr(p, f, None), getattr(s, f, None), b):
                return False
        return True
    if isinstance(p, list):
        if not isinstance(s, list):
            return False
        return _mseq(p, s, b)
    return p == s


def _mseq(ps, ss, b):
    for i, p in enumerate(ps):
        if isinstance(p, ast.Starred) and isinstance(p.value, ast.Name) \
                and p.value.id.startswith(_MVS):
            if i != len(ps) - 1:
                raise ValueError("$*rest must be last")
            name = p.value.id[len(_MVS):]
            if name != "_":
                b[name] = list(ss[i:])
            return True
        if i >= len(ss) or not _m(p, ss[i], b):
            return False
    return len(ps) == len(ss)


def _mkw(pk, sk, b):
    anykw = any(k.arg is None and isinstance(k.value, ast.Name)
                and k.value.id == "__mvk_any" for k in pk)
    pk = [k for k in pk if not (k.arg is None and isinstance(k.value, ast.Name)
                                and k.value.id == "__mvk_any")]
    sd = {k.arg: k.value for k in sk}
    for k in pk:
        if k.arg not in sd or not _m(k.value, sd[k.arg], b):
            return False
    if not anykw and len(sd) != len(pk):
        return False
    return True


def match(pattern, node, mode="expr"):
    """match `node` against `pattern`; return the bindings or None"""
    p = _compile(pattern, mode) if isinstance(pattern, str) else pattern
    b = {}
    if isinstance(node, ast.Expr) and mode == "expr":
        node = node.value
    return b if _m(p, node, b) else None


def match_stmt(pattern, node):
    return match(pattern, node, mode="stmt")


def find(pattern, root, mode="expr"):
    """all (node, bindings) below root (inclusive) that match"""
    p = _compile(pattern, mode)
    out = []
    roots = root if isinstance(root, list) else [root]
    for r in roots:
        for n in ast.walk(r):
            b = {}
            if _m(p, n, b):
                out.append((n, b))
    return out


def find_stmt(pattern, root):
    return find(pattern, root, mode="stmt")


def walk_no_nested(root, include_lambda=False):
    """walk a function body in source order without descending into nested
    defs/classes (the root itself may be a def)"""
    roots = list(root) if isinstance(root, list) else [root]

    def rec(n):
        yield n
        for c in ast.iter_child_nodes(n):
            if isinstance(c, (ast.FunctionDef, ast.AsyncFunctionDef,
                              ast.ClassDef)):
                continue
            if isinstance(c, ast.Lambda) and not include_lambda:
                continue
            yield from rec(c)
    for r in roots:
        yield from rec(r)


def clone(node):
    """copy of a syntax tree (fields only: parent/module links are not
    followed, unlike copy.deepcopy)"""
    if isinstance(node, list):
        return [clone(n) for n in node]
    if not isinstance(node, ast.AST):
        return node
    new = type(node)()
    for f in node._fields:
        if hasattr(node, f):
            setattr(new, f, clone(getattr(node, f)))
    for a in ("lineno", "col_offset", "end_lineno", "end_col_offset"):
        if hasattr(node, a):
            setattr(new, a, getattr(node, a))
    if hasattr(node, "_module"):
        new._module = node._module
    return new


def names_in(node):
    return {n.id for n in ast.walk(node) if isinstance(n, ast.Name)}


def attr_chain(node):
    """``a.b.c`` -> ["a", "b", "c"]; None if not a pure chain"""
    parts = []
    while isinstance(node, ast.Attribute):
        parts.append(node.attr)
        node = node.value
    if isinstance(node, ast.Name):
        parts.append(node.id)
        return list(reversed(parts))
    return None


def dotted(node):
    c = attr_chain(node)
    return ".".join(c) if c else None
