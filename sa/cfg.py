"""E3 - statement-level control-flow graph with exceptional edges.

One node per simple statement, per test of an if/while, per iteration step
of a for, per enter/exit of a with item, per except clause.  ``finally``
bodies (and the implicit exit of ``with``) are duplicated per continuation
(normal, exceptional, return, break, continue), so that a path through the
graph is a path of the program.

Which nodes get an exceptional edge is a policy:

* ``raises="await"``: every ``await`` / ``async with`` / ``async for`` /
  ``yield`` (a cancellation, or an exception thrown into a context
  manager at its yield) and every ``raise`` / ``assert``;
* ``raises="call"``: additionally every node that contains a call,
  a subscript or an attribute access on something other than ``self``
  (anything that can raise in Python, conservatively).

Which handlers catch is a model: ``exc="any"`` (an unknown exception: may
be caught by every handler, escapes unless there is a catch-all) or
``exc="cancel"`` (asyncio.CancelledError: caught by ``CancelledError``,
``BaseException`` and bare handlers only).
"""
import ast

from .index import AnalysisError, FUNC, unparse

CATCH_ALL = {"BaseException"}
CATCH_ALL_ANY = {"BaseException", "Exception"}


class Node:
    __slots__ = ("id", "kind", "stmt", "expr", "succ", "pred", "tag")

    def __init__(self, id, kind, stmt=None, expr=None, tag=None):
        self.id = id
        self.kind = kind
        self.stmt = stmt
        self.expr = expr if expr is not None else stmt
        self.succ = []   # (node, label)
        self.pred = []
        self.tag = tag

    @property
    def lineno(self):
        for x in (self.expr, self.stmt):
            if x is not None and hasattr(x, "lineno"):
                return x.lineno
        return 0

    def __repr__(self):
        s = unparse(self.expr).split("\n")[0][:60] if self.expr is not None \
            else ""
        return f"<{self.id}:{self.kind}@{self.lineno} {s}>"


class Ctx:
    def __init__(self, exc, ret, brk=None, cont=None, intry=False):
        self.exc, self.ret, self.brk, self.cont = exc, ret, brk, cont
        self.intry = intry  # inside the body of a try with handlers


def _handler_names(h):
    if h.type is None:
        return None
    t = h.type
    elts = t.elts if isinstance(t, ast.Tuple) else [t]
    out = []
    for e in elts:
        if isinstance(e, ast.Name):
            out.append(e.id)
        elif isinstance(e, ast.Attribute):
            out.append(e.attr)
        else:
            out.append(unparse(e))
    return out


class CFG:
    def __init__(self, func, raises="await", exc="any", extra_raises=None):
        if not isinstance(func, FUNC):
            raise AnalysisError("CFG needs a function definition")
        self.func = func
        self.raises = raises
        self.exc_model = exc
        self.extra_raises = extra_raises
        self.nodes = []
        self.entry = self._new("entry")
        self.exit = self._new("exit")
        self.raise_exit = self._new("raise_exit")
        ctx = Ctx(lambda: self.raise_exit, lambda: self.exit)
        last = self._block(func.body, [(self.entry, "next")], ctx)
        self._link(last, self.exit)
        self._dom = None

    # ------------------------------------------------------------ build
    def _new(self, kind, stmt=None, expr=None, tag=None):
        n = Node(len(self.nodes), kind, stmt, expr, tag)
        self.nodes.append(n)
        return n

    def _edge(self, a, b, label="next"):
        if (b, label) not in a.succ:
            a.succ.append((b, label))
            b.pred.append((a, label))

    def _link(self, frontier, node):
        for a, label in frontier:
            self._edge(a, node, label)

    def _may_raise(self, node_ast, kind, ctx=None):
        if kind in ("raise", "assert"):
            return True
        if node_ast is None:
            return False
        has_await = False
        has_call = False
        for n in _walk_expr(node_ast):
            if isinstance(n, (ast.Await, ast.Yield, ast.YieldFrom)):
                has_await = True
            elif isinstance(n, (ast.Call, ast.Subscript)):
                has_call = True
        if has_await:
            return True
        if self.extra_raises is not None and self.extra_raises(node_ast):
            return True
        if self.raises == "call":
            return has_call
        if ctx is not None and ctx.intry and self.exc_model == "any":
            # the author expects exceptions here: calls may raise
            return has_call
        return False

    def _stmt_node(self, kind, stmt, expr, frontier, ctx, force_raise=False):
        n = self._new(kind, stmt, expr)
        self._link(frontier, n)
        if force_raise or self._may_raise(expr, kind, ctx):
            self._edge(n, ctx.exc(), "exc")
        return n

    def _block(self, stmts, frontier, ctx):
        for s in stmts:
            frontier = self._stmt(s, frontier, ctx)
        return frontier

    def _stmt(self, s, frontier, ctx):
        if isinstance(s, (ast.FunctionDef, ast.AsyncFunctionDef,
                          ast.ClassDef)):
            n = self._new("def", s, None)
            n.expr = None
            self._link(frontier, n)
            return [(n, "next")]
        if isinstance(s, ast.If):
            t = self._stmt_node("test", s, s.test, frontier, ctx)
            a = self._block(s.body, [(t, "true")], ctx)
            b = self._block(s.orelse, [(t, "false")], ctx)
            return a + b
        if isinstance(s, ast.While):
            t = self._stmt_node("test", s, s.test, frontier, ctx)
            after = []
            inner = Ctx(ctx.exc, ctx.ret,
                        brk=lambda: after, cont=lambda: t, intry=ctx.intry)
            body_end = self._block(s.body, [(t, "true")], inner)
            for a, label in body_end:
                self._edge(a, t, "loop")
            const_true = isinstance(s.test, ast.Constant) and bool(
                s.test.value)
            out = list(after)
            if not const_true:
                out += self._block(s.orelse, [(t, "false")], ctx)
            return out
        if isinstance(s, (ast.For, ast.AsyncFor)):
            it = self._stmt_node("iter", s, s.iter, frontier, ctx,
                                 force_raise=isinstance(s, ast.AsyncFor))
            after = []
            inner = Ctx(ctx.exc, ctx.ret,
                        brk=lambda: after, cont=lambda: it, intry=ctx.intry)
            body_end = self._block(s.body, [(it, "true")], inner)
            for a, label in body_end:
                self._edge(a, it, "loop")
            return after + self._block(s.orelse, [(it, "false")], ctx)
        if isinstance(s, ast.Break):
            n = self._new("break", s)
            self._link(frontier, n)
            if ctx.brk is None:
                raise AnalysisError("break outside loop")
            tgt = ctx.brk()
            if isinstance(tgt, list):
                tgt.append((n, "break"))
            else:
                self._edge(n, tgt, "break")
            return []
        if isinstance(s, ast.Continue):
            n = self._new("continue", s)
            self._link(frontier, n)
            tgt = ctx.cont()
            if isinstance(tgt, list):
                tgt.append((n, "continue"))
            else:
                self._edge(n, tgt, "continue")
            return []
        if isinstance(s, ast.Return):
            n = self._stmt_node("return", s, s, frontier, ctx)
            self._edge(n, ctx.ret(), "return")
            return []
        if isinstance(s, ast.Raise):
            n = self._new("raise", s)
            self._link(frontier, n)
            self._edge(n, ctx.exc(), "exc")
            return []
        if isinstance(s, ast.Assert):
            n = self._stmt_node("assert", s, s, frontier, ctx)
            return [(n, "next")]
        if isinstance(s, (ast.With, ast.AsyncWith)):
            return self._with(s, 0, frontier, ctx)
        if isinstance(s, ast.Try):
            return self._try(s, frontier, ctx)
        if hasattr(ast, "TryStar") and isinstance(s, ast.TryStar):
            raise AnalysisError("try* is not modelled")
        if hasattr(ast, "Match") and isinstance(s, ast.Match):
            # (what the normaliser could not lower to if/elif) the subject,
            # then one test per case: kind "case", tag = the match_case,
            # expr = its guard; the captures are definitions (dataflow)
            subj = self._stmt_node("stmt", ast.copy_location(
                ast.Expr(value=s.subject), s), s.subject, frontier, ctx)
            frontier = [(subj, "next")]
            out = []
            for c in s.cases:
                t = self._new("case", s, c.guard, tag=c)
                self._link(frontier, t)
                if c.guard is not None and self._may_raise(
                        c.guard, "test", ctx):
                    self._edge(t, ctx.exc(), "exc")
                out += self._block(c.body, [(t, "true")], ctx)
                frontier = [(t, "false")]
                p_ = c.pattern
                if c.guard is None and isinstance(p_, ast.MatchAs) and \
                        p_.pattern is None:
                    frontier = []       # irrefutable: nothing falls through
                    break
            return out + frontier
        if isinstance(s, (ast.Global,)):
            raise AnalysisError("global is not modelled")
        n = self._stmt_node("stmt", s, s, frontier, ctx)
        return [(n, "next")]

    def _with(self, s, i, frontier, ctx):
        is_async = isinstance(s, ast.AsyncWith)
        item = s.items[i]
        enter = self._stmt_node("with_enter", s, item.context_expr, frontier,
                                ctx, force_raise=is_async)
        enter.tag = i
        copies = {}

        def through_exit(cont_fn, label):
            def f():
                tgt = cont_fn()
                key = (id(tgt) if not isinstance(tgt, list) else id(tgt),
                       label)
                if key not in copies:
                    x = self._new("with_exit", s, item.context_expr,
                                  tag=(i, label))
                    if is_async and label != "exc":
                        # __aexit__ may itself be cancelled
                        self._edge(x, ctx.exc(), "exc")
                    if isinstance(tgt, list):
                        tgt.append((x, label))
                    else:
                        self._edge(x, tgt, label)
                    copies[key] = x
                return copies[key]
            return f

        inner = Ctx(through_exit(ctx.exc, "exc"),
                    through_exit(ctx.ret, "return"),
                    through_exit(ctx.brk, "break") if ctx.brk else None,
                    through_exit(ctx.cont, "continue") if ctx.cont else None,
                    intry=ctx.intry)
        if i + 1 < len(s.items):
            end = self._with(s, i + 1, [(enter, "next")], inner)
        else:
            end = self._block(s.body, [(enter, "next")], inner)
        if not end:
            return []
        x = self._new("with_exit", s, item.context_expr, tag=(i, "next"))
        self._link(end, x)
        if is_async:
            self._edge(x, ctx.exc(), "exc")
        return [(x, "next")]

    def _catches(self, names):
        """does a handler with these class names catch the modelled
        exception?  returns "yes" | "maybe" | "no" """
        if names is None:
            return "yes"
        if self.exc_model == "cancel":
            if any(n in ("CancelledError", "BaseException") for n in names):
                return "yes"
            return "no"
        if any(n in CATCH_ALL_ANY for n in names):
            # `except Exception` catches everything but cancellation
            return "yes" if any(n in CATCH_ALL for n in names) else "mostly"
        return "maybe"

    def _try(self, s, frontier, ctx):
        fin_copies = {}

        def through_finally(cont_fn, label):
            if not s.finalbody:
                return cont_fn
            if cont_fn is None:
                return None

            def f():
                tgt = cont_fn()
                key = (id(tgt), label)
                if key not in fin_copies:
                    head = self._new("finally", s, None, tag=label)
                    head.expr = None
                    fin_copies[key] = head
                    end = self._block(s.finalbody, [(head, "next")], ctx)
                    for a, lab in end:
                        if isinstance(tgt, list):
                            tgt.append((a, label))
                        else:
                            self._edge(a, tgt, label)
                return fin_copies[key]
            return f

        outer = Ctx(through_finally(ctx.exc, "exc"),
                    through_finally(ctx.ret, "return"),
                    through_finally(ctx.brk, "break"),
                    through_finally(ctx.cont, "continue"), intry=ctx.intry)

        dispatch_box = []

        def to_dispatch():
            if not dispatch_box:
                d = self._new("dispatch", s, None)
                d.expr = None
                dispatch_box.append(d)
            return dispatch_box[0]

        body_ctx = Ctx(to_dispatch if s.handlers else outer.exc,
                       outer.ret, outer.brk, outer.cont,
                       intry=bool(s.handlers) or ctx.intry)
        end = self._block(s.body, frontier, body_ctx)
        end = self._block(s.orelse, end, outer)
        if dispatch_box:
            d = dispatch_box[0]
            escaped = True
            for h in s.handlers:
                c = self._catches(_handler_names(h))
                if c == "no":
                    continue
                hn = self._new("except", s, h.type, tag=h)
                hn.stmt = h
                self._edge(d, hn, "except")
                end += self._block(h.body, [(hn, "next")], outer)
                if c == "yes":
                    escaped = False
                    break
            if escaped:
                self._edge(d, outer.exc(), "exc")
        if s.finalbody:
            if not end:
                return []
            head = self._new("finally", s, None, tag="next")
            head.expr = None
            self._link(end, head)
            return self._block(s.finalbody, [(head, "next")], ctx)
        return end

    # --------------------------------------------------------- queries
    def find(self, pred):
        return [n for n in self.nodes if pred(n)]

    def nodes_of(self, astnode):
        """all CFG nodes (copies included) whose stmt or expr is astnode"""
        return [n for n in self.nodes
                if n.stmt is astnode or n.expr is astnode]

    def nodes_containing(self, astnode):
        """CFG nodes whose expression contains astnode"""
        out = []
        for n in self.nodes:
            if n.expr is None:
                continue
            for x in _walk_expr(n.expr):
                if x is astnode:
                    out.append(n)
                    break
        return out

    def reachable(self, start, avoid=None, labels=None):
        """set of nodes reachable from `start` (a node or list), not
        passing through nodes for which avoid(n) is true (start nodes are
        never avoided), following only edges whose label is allowed"""
        starts = start if isinstance(start, (list, set, tuple)) else [start]
        seen = set()
        stack = list(starts)
        first = set(id(s) for s in starts)
        while stack:
            n = stack.pop()
            if n.id in seen:
                continue
            seen.add(n.id)
            for m, label in n.succ:
                if labels is not None and label not in labels:
                    continue
                if avoid is not None and avoid(m):
                    continue
                if m.id not in seen:
                    stack.append(m)
        return {self.nodes[i] for i in seen}

    def reach_edges(self, start, edge_ok):
        """nodes reachable from start following edges (a, b, label) for
        which edge_ok(a, b, label) is true"""
        starts = start if isinstance(start, (list, set, tuple)) else [start]
        seen = set()
        stack = list(starts)
        while stack:
            n = stack.pop()
            if n.id in seen:
                continue
            seen.add(n.id)
            for m, label in n.succ:
                if m.id not in seen and edge_ok(n, m, label):
                    stack.append(m)
        return {self.nodes[i] for i in seen}

    def coreachable(self, end, avoid=None):
        """nodes from which `end` can be reached"""
        seen = set()
        stack = [end]
        while stack:
            n = stack.pop()
            if n.id in seen:
                continue
            seen.add(n.id)
            for m, label in n.pred:
                if avoid is not None and avoid(m):
                    continue
                if m.id not in seen:
                    stack.append(m)
        return {self.nodes[i] for i in seen}

    def between(self, a, b):
        """nodes on some path from a to b that does not come back to a
        (a and b included)"""
        fwd = self.reachable(a, avoid=lambda m: m is a)
        back = self.coreachable(b, avoid=lambda m: m is a)
        return (fwd & back) | {a, b}

    def reachable_from_entry(self):
        return self.reachable(self.entry)

    def must_pass(self, start, through, targets=None, first_edge=None):
        """True iff every path from `start` to a target node passes a node
        satisfying `through` (start itself excluded).  `targets` defaults to
        both exits.  `first_edge` restricts the first step to edges with
        that label (e.g. "exc")."""
        targets = targets or [self.exit, self.raise_exit]
        tids = {t.id for t in targets}
        seen = set()
        stack = []
        for m, label in start.succ:
            if first_edge is not None and label != first_edge:
                continue
            stack.append(m)
        while stack:
            n = stack.pop()
            if n.id in seen:
                continue
            seen.add(n.id)
            if through(n):
                continue
            if n.id in tids:
                return False
            for m, label in n.succ:
                stack.append(m)
        return True

    def witness_path(self, start, through, targets=None, first_edge=None):
        """a path from start to a target that avoids `through`, or None"""
        targets = targets or [self.exit, self.raise_exit]
        tids = {t.id for t in targets}
        prev = {}
        stack = []
        for m, label in start.succ:
            if first_edge is not None and label != first_edge:
                continue
            if m.id not in prev:
                prev[m.id] = start
                stack.append(m)
        while stack:
            n = stack.pop()
            if through(n):
                continue
            if n.id in tids:
                path = [n]
                while path[-1] is not start:
                    path.append(prev[path[-1].id])
                    if len(path) > len(self.nodes) + 2:
                        break
                return list(reversed(path))
            for m, label in n.succ:
                if m.id not in prev:
                    prev[m.id] = n
                    stack.append(m)
        return None

    def dominators(self):
        if self._dom is not None:
            return self._dom
        reach = self.reachable_from_entry()
        order = []
        seen = set()

        def dfs(n):
            stack = [(n, iter(n.succ))]
            seen.add(n.id)
            while stack:
                node, it = stack[-1]
                for m, _ in it:
                    if m.id not in seen:
                        seen.add(m.id)
                        stack.append((m, iter(m.succ)))
                        break
                else:
                    order.append(node)
                    stack.pop()
        dfs(self.entry)
        rpo = list(reversed(order))
        idx = {n.id: i for i, n in enumerate(rpo)}
        idom = {self.entry.id: self.entry.id}
        changed = True
        while changed:
            changed = False
            for n in rpo[1:]:
                preds = [p for p, _ in n.pred if p.id in idom]
                if not preds:
                    continue
                new = preds[0].id
                for p in preds[1:]:
                    a, b = p.id, new
                    while a != b:
                        while idx[a] > idx[b]:
                            a = idom[a]
                        while idx[b] > idx[a]:
                            b = idom[b]
                    new = a
                if idom.get(n.id) != new:
                    idom[n.id] = new
                    changed = True
        self._dom = idom
        return idom

    def dominates(self, a, b):
        """does node a dominate node b (every path entry->b passes a)?"""
        idom = self.dominators()
        if b.id not in idom:
            return True  # unreachable
        x = b.id
        while True:
            if x == a.id:
                return True
            if x == self.entry.id:
                return False
            x = idom[x]

    def paths(self, start, end, limit=2000, maxlen=200):
        """explicit enumeration of simple paths (loops taken at most once)"""
        out = []
        stack = [(start, [start], {start.id})]
        while stack and len(out) < limit:
            n, path, seen = stack.pop()
            if n is end:
                out.append(path)
                continue
            if len(path) > maxlen:
                continue
            for m, _ in n.succ:
                if m.id in seen:
                    continue
                stack.append((m, path + [m], seen | {m.id}))
        return out

    def describe_path(self, path):
        return " -> ".join(f"{n.kind}@{n.lineno}" for n in path)


def _walk_expr(node):
    """walk an expression/simple statement without entering nested
    functions or lambdas"""
    stack = [node]
    while stack:
        n = stack.pop()
        yield n
        for c in ast.iter_child_nodes(n):
            if isinstance(c, (ast.FunctionDef, ast.AsyncFunctionDef,
                              ast.ClassDef, ast.Lambda)):
                continue
            stack.append(c)


def contains_await(node):
    return any(isinstance(n, ast.Await) for n in _walk_expr(node))
