"""E1 - repository index: modules, classes, MRO, attribute resolution.

Everything downstream refers to code by qualified symbol, e.g.
``ebpfcat.ethercat.Terminal.map_fmmu``.
"""
import ast
import os

PKG = "ebpfcat"


class AnalysisError(Exception):
    """the analysis cannot be carried out (anchor vanished, unknown idiom)

    This is never a verdict on the property: the check exits with status 2.
    """


FUNC = (ast.FunctionDef, ast.AsyncFunctionDef)


def unparse(node):
    if node is None:
        return "None"
    if isinstance(node, list):
        return "; ".join(unparse(n) for n in node)
    return ast.unparse(node)


_CACHE_KEY = None


def _cache_key():
    """digest of everything the normalised tree depends on besides the
    module's own source"""
    global _CACHE_KEY
    if _CACHE_KEY is None:
        import hashlib
        h = hashlib.sha1()
        here = os.path.dirname(os.path.abspath(__file__))
        for fn in ("normalize.py", "inline.py", "refnames.json"):
            try:
                with open(os.path.join(here, fn), "rb") as fin:
                    h.update(fin.read())
            except OSError:
                pass
        import sys
        h.update(repr(sys.version_info[:2]).encode())
        h.update(os.environ.get("SA_CANON_FLOW", "1").encode())
        _CACHE_KEY = h.hexdigest()
    return _CACHE_KEY


def _normalized_tree(source, path, name, ext=()):
    """parse + normalise, memoised on disk by content (the cache is an
    optimisation only: a miss recomputes)"""
    import hashlib
    import pickle
    import tempfile
    from . import normalize
    if os.environ.get("SA_NO_CACHE") == "1":
        tree = ast.parse(source, path)
        return tree, normalize.normalize(tree, name)
    key = hashlib.sha1((_cache_key() + name + "\0" + source + "\0"
                        + ",".join(ext)).encode()).hexdigest()
    cdir = os.path.join(tempfile.gettempdir(), f"sa-cache-{os.getuid()}")
    cpath = os.path.join(cdir, key + ".pickle")
    try:
        with open(cpath, "rb") as fin:
            tree, info = pickle.load(fin)
        return tree, info
    except Exception:
        pass
    tree = ast.parse(source, path)
    info = normalize.normalize(tree, name)
    try:
        os.makedirs(cdir, exist_ok=True)
        tmp = cpath + f".{os.getpid()}.tmp"
        with open(tmp, "wb") as fout:
            pickle.dump((tree, info), fout, protocol=pickle.HIGHEST_PROTOCOL)
        os.replace(tmp, cpath)
    except Exception:
        pass
    return tree, info


class Module:
    def __init__(self, name, path, source, ext=()):
        self.name = name
        self.path = path
        self.source = source
        self.tree, self.normalized = _normalized_tree(source, path, name,
                                                      ext)
        for parent in ast.walk(self.tree):
            for child in ast.iter_child_nodes(parent):
                child._parent = parent
        self.tree._parent = None
        for node in ast.walk(self.tree):
            node._module = self
        self.imports = {}   # local name -> (module qualname, symbol or None)
        self.symbols = {}   # top-level name -> defining node (last wins)
        self._scan()

    def _scan(self):
        for stmt in self.tree.body:
            self._scan_stmt(stmt)

    def _scan_stmt(self, stmt):
        if isinstance(stmt, ast.ImportFrom):
            if stmt.level:
                base = self.name.rsplit(".", stmt.level)[0]
                mod = base + ("." + stmt.module if stmt.module else "")
            else:
                mod = stmt.module
            for a in stmt.names:
                self.imports[a.asname or a.name] = (mod, a.name)
        elif isinstance(stmt, ast.Import):
            for a in stmt.names:
                self.imports[a.asname or a.name.split(".")[0]] = (
                    a.name if a.asname else a.name.split(".")[0], None)
        elif isinstance(stmt, FUNC + (ast.ClassDef,)):
            self.symbols[stmt.name] = stmt
        elif isinstance(stmt, ast.Assign):
            for t in stmt.targets:
                for n in _target_names(t):
                    self.symbols[n] = stmt
        elif isinstance(stmt, (ast.AnnAssign, ast.AugAssign)):
            for n in _target_names(stmt.target):
                self.symbols[n] = stmt
        elif isinstance(stmt, ast.Try):
            for s in stmt.body + stmt.orelse + stmt.finalbody:
                self._scan_stmt(s)
            for h in stmt.handlers:
                for s in h.body:
                    self._scan_stmt(s)
        elif isinstance(stmt, ast.If):
            for s in stmt.body + stmt.orelse:
                self._scan_stmt(s)


def _target_names(t):
    if isinstance(t, ast.Name):
        yield t.id
    elif isinstance(t, (ast.Tuple, ast.List)):
        for e in t.elts:
            yield from _target_names(e)


class _Members(dict):
    """a rule that indexes a member that is gone gets an analysis error
    (anchor vanished), not a KeyError traceback"""
    def __init__(self, owner):
        super().__init__()
        self.owner = owner

    def __missing__(self, key):
        raise AnalysisError(f"{self.owner}.{key} vanished")


class ClassInfo:
    def __init__(self, repo, module, node, qualname):
        self.repo = repo
        self.module = module
        self.node = node
        self.qualname = qualname
        self.name = node.name
        self.attrs = {}      # name -> value expr (last assignment wins)
        self.attr_stmts = {}  # name -> statement
        self.methods = _Members(qualname)  # name -> (Async)FunctionDef
        self.inner = {}      # name -> ClassInfo
        self.order = []      # attribute names in definition order
        for stmt in node.body:
            if isinstance(stmt, FUNC):
                self.methods[stmt.name] = stmt
                self._note(stmt.name)
            elif isinstance(stmt, ast.ClassDef):
                ci = ClassInfo(repo, module, stmt, qualname + "." + stmt.name)
                self.inner[stmt.name] = ci
                repo.classes[ci.qualname] = ci
                self._note(stmt.name)
            elif isinstance(stmt, ast.Assign):
                for t in stmt.targets:
                    if isinstance(t, ast.Name):
                        self.attrs[t.id] = stmt.value
                        self.attr_stmts[t.id] = stmt
                        self._note(t.id)
                    elif isinstance(t, ast.Tuple) and isinstance(
                            stmt.value, ast.Tuple) and len(t.elts) == len(
                                stmt.value.elts):
                        for tt, vv in zip(t.elts, stmt.value.elts):
                            if isinstance(tt, ast.Name):
                                self.attrs[tt.id] = vv
                                self.attr_stmts[tt.id] = stmt
                                self._note(tt.id)
            elif isinstance(stmt, ast.AnnAssign) and isinstance(
                    stmt.target, ast.Name) and stmt.value is not None:
                self.attrs[stmt.target.id] = stmt.value
                self.attr_stmts[stmt.target.id] = stmt
                self._note(stmt.target.id)

    def _note(self, name):
        if name in self.order:
            self.order.remove(name)
        self.order.append(name)

    @property
    def base_exprs(self):
        return self.node.bases

    def __repr__(self):
        return f"<class {self.qualname}>"


class Repo:
    def __init__(self, root=None):
        self.root = root or os.environ.get("EBPFCAT_REPO", "/repo")
        self.modules = {}
        self.classes = {}
        pkgdir = os.path.join(self.root, PKG)
        if not os.path.isdir(pkgdir):
            raise AnalysisError(f"package directory {pkgdir} not found")
        sources = []
        for dirpath, dirnames, filenames in sorted(os.walk(pkgdir)):
            dirnames[:] = sorted(d for d in dirnames
                                 if not d.startswith((".", "__pycache__")))
            for fn in sorted(filenames):
                if not fn.endswith(".py"):
                    continue
                if fn.endswith("_test.py") or fn == "testdata.py":
                    continue   # tests and test data are never rule targets
                path = os.path.join(dirpath, fn)
                rel = os.path.relpath(path, self.root)[:-3].replace(os.sep, ".")
                if rel.endswith(".__init__"):
                    rel = rel[:-9]
                with open(path, encoding="utf8") as fin:
                    src = fin.read()
                sources.append((rel, path, src))
        # the names every module refers to (attributes, plain names, string
        # constants): a helper that another module still calls is not dead
        # when its own module's calls have been inlined
        from . import normalize as _nz
        refs = {}
        for rel, path, src in sources:
            try:
                t_ = ast.parse(src, path)
            except SyntaxError as e:
                raise AnalysisError(f"cannot parse {path}: {e}")
            refs[rel] = {x.attr for x in ast.walk(t_) if isinstance(
                x, ast.Attribute)} | {x.id for x in ast.walk(t_)
                                      if isinstance(x, ast.Name)}
        for rel, path, src in sources:
            ext = set()
            for other, names_ in refs.items():
                if other != rel:
                    ext |= names_
            _nz.EXTERNAL_REFS = ext
            try:
                self.modules[rel] = Module(rel, path, src, sorted(
                    n for n in ext if ("def " + n + "(") in src))
            except SyntaxError as e:
                raise AnalysisError(f"cannot parse {path}: {e}")
        _nz.EXTERNAL_REFS = set()
        for m in self.modules.values():
            for stmt in m.symbols.values():
                if isinstance(stmt, ast.ClassDef):
                    q = m.name + "." + stmt.name
                    self.classes[q] = ClassInfo(self, m, stmt, q)
        self._mro_cache = {}
        from .match import set_literal_names
        names = set()
        for m in self.modules.values():
            names.update(m.symbols)
            names.update(m.imports)
        set_literal_names(names)
        for m in self.modules.values():
            m.repo = self
        from . import match as _match
        _match.FOLD = _fold_via_module

    def _fold_constant(self, node):
        """value of `self.X` / `Cls.X` / module-level `X` when it is an int
        constant (used by the matcher for literal-vs-named-constant)"""
        from .evalx import Evaluator, Obj
        mod = getattr(node, "_module", None)
        if mod is None:
            raise ValueError("no module")
        ci = self.enclosing_class(node)
        cands = [ci] if ci is not None else [
            c for c in self.classes.values() if c.module is mod]
        if not (isinstance(node, ast.Attribute) and isinstance(
                node.value, ast.Name) and node.value.id in ("self", "cls")):
            cands = cands[:1] or [None]
        vals = set()
        for c in cands:
            ev = Evaluator(self, mod, c)
            env = {}
            if c is not None:
                env["self"] = Obj(c)
                env["cls"] = Obj(c)
            try:
                v = ev.eval(node, env)
            except Exception:
                continue
            if isinstance(v, bool) or not isinstance(v, int):
                continue
            vals.add(v)
        if len(vals) != 1:
            raise ValueError("not a unique int constant")
        return vals.pop()

    # ---------------------------------------------------------- lookup
    def module(self, name):
        try:
            return self.modules[name]
        except KeyError:
            raise AnalysisError(f"module {name} not found")

    def rel(self, node_or_module):
        m = getattr(node_or_module, "_module", node_or_module)
        return os.path.relpath(m.path, self.root)

    def where(self, node):
        line = getattr(node, "_orig_lineno", getattr(node, "lineno", 0))
        return f"{self.rel(node)}:{line}"

    def cls(self, qualname):
        try:
            return self.classes[qualname]
        except KeyError:
            raise AnalysisError(f"class {qualname} not found")

    def has(self, qualname):
        try:
            self.get(qualname)
            return True
        except AnalysisError:
            return False

    def get(self, qualname):
        """resolve a dotted qualified name to an AST node

        modules, classes, methods, class attributes (their value
        expression), and functions nested in functions are understood."""
        parts = qualname.split(".")
        for i in range(len(parts), 0, -1):
            mod = ".".join(parts[:i])
            if mod in self.modules:
                break
        else:
            raise AnalysisError(f"no module for {qualname}")
        m = self.modules[mod]
        rest = parts[i:]
        if not rest:
            return m.tree
        cur = m.symbols.get(rest[0])
        curq = mod + "." + rest[0]
        if cur is None:
            raise AnalysisError(f"symbol {curq} not found")
        for p in rest[1:]:
            if isinstance(cur, ast.ClassDef):
                ci = self.classes[curq]
                if p in ci.methods:
                    cur = ci.methods[p]
                elif p in ci.inner:
                    cur = ci.inner[p].node
                elif p in ci.attrs:
                    cur = ci.attrs[p]
                else:
                    raise AnalysisError(f"{curq} has no member {p}")
            elif isinstance(cur, FUNC):
                for n in ast.walk(cur):
                    if isinstance(n, FUNC + (ast.ClassDef,)) and n is not cur \
                            and n.name == p:
                        cur = n
                        break
                else:
                    raise AnalysisError(f"{curq} has no nested {p}")
            else:
                raise AnalysisError(f"cannot descend into {curq}")
            curq += "." + p
        return cur

    def func(self, qualname):
        node = self.get(qualname)
        if isinstance(node, ast.Lambda) or isinstance(node, FUNC):
            return node
        raise AnalysisError(f"{qualname} is not a function")

    # ---------------------------------------------------- class hierarchy
    def resolve_name(self, module, name):
        """what does the top-level name `name` in `module` denote?

        returns ("class", ClassInfo) | ("node", ast node) | ("ext", str)
        | None"""
        if isinstance(module, str):
            module = self.modules[module]
        seen = set()
        while True:
            if (module.name, name) in seen:
                return None
            seen.add((module.name, name))
            if name in module.symbols:
                node = module.symbols[name]
                if isinstance(node, ast.ClassDef):
                    return ("class", self.classes[module.name + "." + name])
                return ("node", node)
            if name in module.imports:
                mod, sym = module.imports[name]
                if sym is None:
                    if mod in self.modules:
                        return ("module", self.modules[mod])
                    return ("ext", mod)
                if mod in self.modules:
                    module, name = self.modules[mod], sym
                    continue
                if mod + "." + sym in self.modules:
                    return ("module", self.modules[mod + "." + sym])
                return ("ext", f"{mod}.{sym}")
            return None

    def resolve_class_expr(self, module, expr, scope_cls=None):
        """resolve an expression that denotes a class (a base, say)"""
        if isinstance(expr, ast.Name):
            if scope_cls is not None and expr.id in scope_cls.inner:
                return scope_cls.inner[expr.id]
            r = self.resolve_name(module, expr.id)
            if r and r[0] == "class":
                return r[1]
            return None
        if isinstance(expr, ast.Attribute):
            base = self.resolve_class_expr(module, expr.value, scope_cls)
            if base is not None and expr.attr in base.inner:
                return base.inner[expr.attr]
            if isinstance(expr.value, ast.Name):
                r = self.resolve_name(module, expr.value.id)
                if r and r[0] == "module":
                    rr = self.resolve_name(r[1], expr.attr)
                    if rr and rr[0] == "class":
                        return rr[1]
        return None

    def bases(self, ci):
        out = []
        outer = None
        if "." in ci.qualname[len(ci.module.name) + 1:]:
            outer = self.classes.get(ci.qualname.rsplit(".", 1)[0])
        for b in ci.base_exprs:
            r = self.resolve_class_expr(ci.module, b, outer)
            out.append(r if r is not None else unparse(b))
        return out

    def mro(self, ci):
        """C3 linearisation over the classes known to the index; external
        bases (strings) are appended in order of appearance."""
        if ci.qualname in self._mro_cache:
            return self._mro_cache[ci.qualname]
        bases = self.bases(ci)
        seqs = []
        for b in bases:
            if isinstance(b, ClassInfo):
                seqs.append(list(self.mro(b)))
            else:
                seqs.append([b])
        seqs.append(list(bases))
        res = [ci]
        while True:
            seqs = [s for s in seqs if s]
            if not seqs:
                break
            for s in seqs:
                cand = s[0]
                if not any(cand in t[1:] for t in seqs):
                    break
            else:
                raise AnalysisError(f"inconsistent MRO for {ci.qualname}")
            res.append(cand)
            for s in seqs:
                if s[0] is cand or s[0] == cand:
                    del s[0]
        self._mro_cache[ci.qualname] = res
        return res

    def lookup(self, ci, name):
        """attribute lookup along the MRO: (defining ClassInfo, node)"""
        for c in self.mro(ci):
            if isinstance(c, ClassInfo):
                if name in c.methods:
                    return c, c.methods[name]
                if name in c.attrs:
                    return c, c.attrs[name]
                if name in c.inner:
                    return c, c.inner[name].node
        return None, None

    def is_subclass(self, ci, base_qual):
        return any(isinstance(c, ClassInfo) and c.qualname == base_qual
                   or c == base_qual for c in self.mro(ci))

    def subclasses(self, base_qual):
        return [c for c in self.classes.values()
                if self.is_subclass(c, base_qual)]

    def enclosing_class(self, node):
        n = getattr(node, "_parent", None)
        while n is not None:
            if isinstance(n, ast.ClassDef):
                m = n._module
                # build the qualified name
                names = [n.name]
                p = getattr(n, "_parent", None)
                while p is not None:
                    if isinstance(p, ast.ClassDef):
                        names.append(p.name)
                    elif isinstance(p, FUNC):
                        return None
                    p = getattr(p, "_parent", None)
                return self.classes.get(m.name + "." + ".".join(reversed(names)))
            n = getattr(n, "_parent", None)
        return None

    def enclosing_function(self, node):
        n = getattr(node, "_parent", None)
        while n is not None:
            if isinstance(n, FUNC + (ast.Lambda,)):
                return n
            n = getattr(n, "_parent", None)
        return None

    def qualname_of(self, node):
        names = []
        n = node
        while n is not None:
            if isinstance(n, FUNC + (ast.ClassDef,)):
                names.append(n.name)
            elif isinstance(n, ast.Lambda):
                names.append("<lambda>")
            n = getattr(n, "_parent", None)
        return node._module.name + "." + ".".join(reversed(names))

    def production_modules(self):
        """modules that are rule targets (tests and test data are not)"""
        return [m for n, m in sorted(self.modules.items())
                if not n.endswith("_test") and not n.endswith("testdata")]

    def all_functions(self, modules=None):
        for m in modules or self.production_modules():
            for n in ast.walk(m.tree):
                if isinstance(n, FUNC):
                    yield n


def _fold_via_module(node):
    """the matcher's constant folder: uses the repository the node's module
    belongs to (several Repo objects may exist in one process)"""
    mod = getattr(node, "_module", None)
    repo = getattr(mod, "repo", None)
    if repo is None:
        raise ValueError("node without repository")
    return repo._fold_constant(node)


def parents(node):
    n = getattr(node, "_parent", None)
    while n is not None:
        yield n
        n = getattr(n, "_parent", None)


def stmt_of(node):
    """the statement that contains the expression node"""
    n = node
    while n is not None and not isinstance(n, ast.stmt):
        n = getattr(n, "_parent", None)
    return n
