"""C11 - assembled EtherCAT frames are well-formed with exact datagram
positions."""
import ast
import struct as _struct

from .common import *
from ..linear import lin, same_lin, show, NonLinear

EXPLANATION = (
    "Re-based during the build (DESIGN.md 4.31): whole frames are assembled by abstract execution of Packet.append/assemble on a stated finite family of datagram lists and decoded independently; overfull packets are evaluated for rejection without trace (bounded). "
    "Decided: (R11.1) the layout constants of Packet equal struct.calcsize "
    "of the formats assemble() packs with (frame header, both datagram "
    "header formats, working counter), PACKET_INDEX is the offset of the "
    "identification field, all formats are little endian, MAXSIZE <= 1500; "
    "(R11.2) accounting in Packet.append, compared as linear forms: the new "
    "size is size + len(data) + header + tail, the size rejected is that "
    "whole new size, the returned pair is (old size + header, new size - "
    "tail), and both rejections come before any state change (check before "
    "commit); (R11.3) the per-datagram length word, folded for boundary "
    "lengths and for distinct and identical datagrams, is len | more<<15 "
    "with more = 'not the last datagram' by position; the frame header word "
    "is (size-2)|0x1000 and padding brings short frames to 46 bytes; "
    "(R11.4) the sterile copy: a writer is recorded only after its append "
    "succeeded, with the offset of its command byte; sterile() writes only "
    "NOP and only at recorded positions; working counter presets are "
    "recorded at size - tail. Declined: byte-exactness of whole frames "
    "against an independent parser.")
ASSUMPTIONS = [
    "EtherCAT frame layout per ETG.1000.4: 2-byte frame header (11 bit "
    "length, type 1), 10-byte datagram header, 11-bit length + 'more' bit "
    "15, 2-byte working counter",
    "struct.calcsize / struct.pack semantics",
]

P = "ebpfcat.ethercat.Packet"


def run(chk, repo):
    chk.doc("R11.5", "per-packet state is per packet")
    per_instance_rule(chk, repo, "R11.5", ["ebpfcat.ethercat.Packet", "ebpfcat.ebpfcat.SterilePacket"], "datagrams and "
                      "recorded positions of one frame show up in another")
    chk.doc("R11.1", "layout constants equal the packed formats")
    chk.doc("R11.2", "size accounting and check-before-commit in append")
    chk.doc("R11.3", "length words, 'more' flag, frame header, padding")
    chk.doc("R11.4", "sterile copy bookkeeping")
    constants(chk, repo)
    accounting(chk, repo, "R11.2")
    assemble_rules(chk, repo, "R11.3")
    sterile(chk, repo)
    writers_registered(chk, repo)
    # the positions append() hands back are what the terminals' allocate()
    # methods report as the place of their process data: decided on
    # allocated groups (shared with C18)
    from . import c18
    chk.doc("R18.6", "reported positions are the datagrams' (shared with "
                     "C18)")
    c18.allocation_semantic(chk, repo)


def consts(repo):
    ci = repo.cls(P)
    ev = Evaluator(repo, ci.module, ci)
    out = {}
    for n in ("MAXSIZE", "ETHERNET_HEADER", "PACKET_HEADER", "PACKET_INDEX",
              "DATAGRAM_HEADER", "DATAGRAM_TAIL"):
        try:
            out[n] = ev.class_attr(ci, n)
        except Unknown:
            raise AnalysisError(f"{P}.{n} not found")
        need(isinstance(out[n], int), f"{P}.{n} is not an integer")
    return ci, ev, out


def constants(chk, repo):
    ci, ev, K = consts(repo)
    # the layout constants are class constants: nothing in the package
    # assigns one of them on an instance or a subclass (a per-instance
    # MAXSIZE takes the frames of one code path out of the limits
    # established here)
    names = ("MAXSIZE", "ETHERNET_HEADER", "PACKET_HEADER", "PACKET_INDEX",
             "DATAGRAM_HEADER", "DATAGRAM_TAIL")
    stores = []
    for m in repo.production_modules():
        for x in ast.walk(m.tree):
            if isinstance(x, ast.Attribute) and x.attr in names and \
                    isinstance(x.ctx, (ast.Store, ast.Del)):
                stores.append(x)
            elif isinstance(x, ast.Call) and (dotted(x.func) or "") == \
                    "setattr" and len(x.args) >= 2 and str_const(
                        x.args[1]) in names:
                stores.append(x)
    for sub in repo.subclasses(ci.qualname):
        if sub is not ci:
            stores += [sub.attr_stmts[n_] for n_ in names
                       if n_ in sub.attrs]
    chk.ob("R11.1", P, "the layout constants are defined once, on Packet",
           not stores, stores[0] if stores else ci.node,
           f"`{unparse(stores[0])[:60]}` redefines one of them" if stores
           else "no instance or subclass re-binds them")
    asm = repo.func(P + ".assemble")
    chk.analysed(P + ".assemble")
    packs = [c for c in calls_in(asm) if dotted(c.func) == "pack"]
    # and in the methods of Packet that assemble() delegates to
    for c in calls_in(asm):
        if isinstance(c.func, ast.Attribute) and isinstance(
                c.func.value, ast.Name) and c.func.value.id in (
                    "self", "Packet", "cls") and c.func.attr in ci.methods:
            packs += [c2 for c2 in calls_in(ci.methods[c.func.attr])
                      if dotted(c2.func) == "pack"]
    fmts = []
    for c in packs:
        a = c.args[0]
        alts = [a.body, a.orelse] if isinstance(a, ast.IfExp) else [a]
        for x in alts:
            s = str_const(x)
            need(s is not None, f"{P}.assemble: non-literal pack format")
            fmts.append((s, c))
    chk.floor("R11.1", "pack formats in assemble", len(fmts), 4)
    for s, c in fmts:
        chk.ob("R11.1", P + ".assemble", f"format {s!r} is little endian "
               f"without padding", s.startswith("<"), c,
               "'<' prefix: standard sizes, no alignment")
    hdr = [s for s, c in fmts if calcsize(s) > 10]
    need(len(hdr) == 1, f"{P}.assemble: frame header format not identified")
    chk.ob("R11.1", P, f"PACKET_HEADER == calcsize({hdr[0]!r})",
           K["PACKET_HEADER"] == calcsize(hdr[0]), ci.attr_stmts[
               "PACKET_HEADER"], f"{K['PACKET_HEADER']} vs "
           f"{calcsize(hdr[0])}: frame header plus identification datagram")
    dg = [s for s, c in fmts if 6 < calcsize(s) <= 10 and s != hdr[0]]
    chk.floor("R11.1", "datagram header formats", len(dg), 2)
    for s in dg:
        chk.ob("R11.1", P, f"DATAGRAM_HEADER == calcsize({s!r})",
               K["DATAGRAM_HEADER"] == calcsize(s),
               ci.attr_stmts["DATAGRAM_HEADER"],
               f"{K['DATAGRAM_HEADER']} vs {calcsize(s)}")
    tl = [s for s, c in fmts if calcsize(s) == 2]
    chk.ob("R11.1", P, "DATAGRAM_TAIL == calcsize of the working counter "
           "format", len(tl) >= 1 and all(
               K["DATAGRAM_TAIL"] == calcsize(s) for s in tl),
           ci.attr_stmts["DATAGRAM_TAIL"], f"{K['DATAGRAM_TAIL']} vs 2")
    # PACKET_INDEX: offset of the first 4-byte field of the header
    h = hdr[0]
    letters = h[1:]
    off = None
    for i, ch in enumerate(letters):
        if ch in "iI":
            off = calcsize("<" + letters[:i])
            break
    chk.ob("R11.1", P, "PACKET_INDEX is the offset of the identification "
           "field", off is not None and K["PACKET_INDEX"] == off,
           ci.attr_stmts["PACKET_INDEX"], f"{K['PACKET_INDEX']} vs {off}")
    chk.ob("R11.1", P, "ETHERNET_HEADER == 14", K["ETHERNET_HEADER"] == 14,
           ci.attr_stmts["ETHERNET_HEADER"], "6+6+2 bytes")
    chk.ob("R11.1", P, "MAXSIZE <= 1500", 0 < K["MAXSIZE"] <= 1500,
           ci.attr_stmts["MAXSIZE"], "Ethernet payload limit")
    # __init__: an empty packet has the size of the header
    init = repo.func(P + ".__init__")
    v = assigned_values(init, "self.size")
    ok = len(v) == 1 and match("self.PACKET_HEADER", v[0][1]) is not None
    chk.ob("R11.1", P + ".__init__", "empty packet size is PACKET_HEADER", ok,
           init, "size counts from the start of the EtherCAT frame")


class _NullChk:
    """runs a rule for its by-products only"""
    def __init__(self):
        import collections
        self.stats = collections.defaultdict(int)

    def __getattr__(self, name):
        return lambda *a, **k: None


def counter_key(repo, K=None):
    """is the key under which SterilePacket.append records the expected
    count the position of the datagram's working counter, i.e. (packet size
    after the append) - DATAGRAM_TAIL?  The key may be spelt with the new
    self.size or with the (start, stop) pair the base append returns; both
    are reduced to a linear form over size-after-append and len(data)."""
    S_ = "ebpfcat.ebpfcat.SterilePacket"
    if K is None:
        K = consts(repo)[2]
    ap = repo.func(S_ + ".append")
    if not hasattr(repo, "_c11_forms"):
        accounting(_NullChk(), repo, "R11.2")
    forms = repo._c11_forms
    cn = [s for s in walk_no_nested(ap) if isinstance(s, ast.Assign)
          and match("self.counters[$k]", s.targets[0]) is not None]
    sup = [s for s in walk_no_nested(ap) if isinstance(
        s, (ast.Assign, ast.Expr)) and match(
            "super().append($*a, $**)", s.value) is not None]
    if len(cn) != 1 or len(sup) != 1:
        return False, f"{len(cn)} counters stores, {len(sup)} base appends"
    if cn[0].lineno <= sup[0].lineno:
        return False, "recorded before the base append has succeeded"
    if unparse(cn[0].value) != "counter":
        return False, f"records {unparse(cn[0].value)}, not the count"
    k = match("self.counters[$k]", cn[0].targets[0])["k"]
    # names bound to the pair the base append returns
    pair = {}
    if isinstance(sup[0], ast.Assign) and len(sup[0].targets) == 1:
        t = sup[0].targets[0]
        if isinstance(t, ast.Tuple) and len(t.elts) == 2 and \
                forms["ret"] is not None:
            for e, lf in zip(t.elts, forms["ret"]):
                if isinstance(e, ast.Name):
                    pair[e.id] = lf
    new = forms["new"]          # size after, in terms of size0, len(data)

    def rel(lf):
        # rewrite size0 -> S1 - (new - size0)
        out = {x: c for x, c in lf.items() if x != "size0"}
        c0 = lf.get("size0", 0)
        out["S1"] = out.get("S1", 0) + c0
        for x, c in new.items():
            if x != "size0":
                out[x] = out.get(x, 0) - c0 * c
        return {x: c for x, c in out.items() if c}

    def kl(e):
        if isinstance(e, ast.BinOp) and isinstance(e.op, (ast.Add, ast.Sub)):
            a, b = kl(e.left), kl(e.right)
            sg = 1 if isinstance(e.op, ast.Add) else -1
            out = dict(a)
            for x, c in b.items():
                out[x] = out.get(x, 0) + sg * c
            return {x: c for x, c in out.items() if c}
        if isinstance(e, ast.Name) and e.id in pair:
            return rel(pair[e.id])
        if unparse(e) == "self.size":
            return {"S1": 1}
        v = lin(e, Evaluator(repo, ap._module, repo.cls(S_)),
                {"self": Obj(repo.cls(S_))})
        if set(v) - {""}:
            raise NonLinear(unparse(e))
        return {x: c for x, c in v.items() if c}
    try:
        lf = kl(k)
    except NonLinear as e:
        return False, f"key `{unparse(k)}` is not linear: {e}"
    want = {"S1": 1, "": -K["DATAGRAM_TAIL"]}
    if lf != want:
        return False, (f"key `{unparse(k)}` is {show(lf)}, the working "
                       f"counter is at {show(want)}")
    return True, ""


def accounting(chk, repo, rule):
    """also used by C12 and C18 (a rejected datagram leaves no trace)"""
    ci, ev, K = consts(repo)
    sym = P + ".append"
    f = repo.func(sym)
    chk.analysed(sym)
    cfg = CFG(f)
    rd = ReachingDefs(cfg)
    env = {"self": Obj(ci)}
    H, T = K["DATAGRAM_HEADER"], K["DATAGRAM_TAIL"]

    def L(expr, node, depth=0):
        """linear form of expr evaluated at cfg node `node`, in terms of
        the packet size on entry (size0) and len(data): every local and
        every read of self.size is resolved through its reaching
        definition *at the point where it is read*"""
        if depth > 12:
            raise NonLinear("definition chain too deep")
        if isinstance(expr, ast.BinOp) and isinstance(
                expr.op, (ast.Add, ast.Sub)):
            a, b = L(expr.left, node, depth), L(expr.right, node, depth)
            sg = 1 if isinstance(expr.op, ast.Add) else -1
            out = dict(a)
            for k, c in b.items():
                out[k] = out.get(k, 0) + sg * c
            return out
        var = None
        if isinstance(expr, ast.Name):
            var = expr.id
        elif unparse(expr) == "self.size":
            var = "self.size"
        if var is not None:
            ds = rd.reaching(node, var)
            if not ds and var == "self.size":
                return {"size0": 1}
            if len(ds) == 1:
                d = next(iter(ds))
                if d.kind == "assign" and isinstance(d.value, ast.AST):
                    return L(d.value, d.node, depth + 1)
                if d.kind == "aug" and isinstance(d.value, ast.AugAssign) \
                        and isinstance(d.value.op, (ast.Add, ast.Sub)):
                    return L(ast.BinOp(left=d.value.target, op=d.value.op,
                                       right=d.value.value), d.node,
                             depth + 1)
                if d.kind == "param":
                    return {var: 1}
            if var == "self.size":
                raise NonLinear("self.size has several definitions")
        return lin(expr, ev, env)
    # the commit: self.size = <new size>
    commits = [n for n in cfg.nodes if n.kind == "stmt" and isinstance(
        n.stmt, (ast.Assign, ast.AugAssign)) and unparse(
            n.stmt.targets[0] if isinstance(n.stmt, ast.Assign)
            else n.stmt.target) == "self.size"]
    need(len(commits) == 1, f"{sym}: expected one update of self.size")
    cm = commits[0]
    try:
        if isinstance(cm.stmt, ast.AugAssign):
            new = L(ast.BinOp(left=cm.stmt.target, op=cm.stmt.op,
                              right=cm.stmt.value), cm)
        else:
            new = L(cm.stmt.value, cm)
    except NonLinear as e:
        raise AnalysisError(f"{sym}: size update not linear: {e}")
    want = {"size0": 1, "len(data)": 1, "": H + T}
    chk.ob(rule, sym, "new size = size + len(data) + header + tail",
           same_lin(new, want), cm.stmt, f"new size is {show(new)}, "
           f"expected {show(want)}")
    # returned positions
    rets = [n for n in cfg.nodes if n.kind == "return"]
    need(len(rets) == 1 and rets[0].stmt.value is not None,
         f"{sym}: expected one return")
    rv = rets[0].stmt.value
    rdef = rets[0]
    if isinstance(rv, ast.Name):
        # the pair was computed where the name was defined
        ds = rd.reaching(rets[0], rv.id)
        if len(ds) == 1 and isinstance(next(iter(ds)).value, ast.AST):
            rdef = next(iter(ds)).node
            rv = next(iter(ds)).value
    ok = isinstance(rv, ast.Tuple) and len(rv.elts) == 2
    if ok:
        try:
            a = L(rv.elts[0], rdef)
            b = L(rv.elts[1], rdef)
            ok = same_lin(a, {"size0": 1, "": H}) and same_lin(
                b, {"size0": 1, "len(data)": 1, "": H})
            why = f"returns ({show(a)}, {show(b)})"
        except NonLinear as e:
            ok, why = False, f"not linear: {e}"
    else:
        why = f"returns {unparse(rv)}"
    chk.ob(rule, sym, "returns (old size + header, old size + header + "
           "len(data))", ok, rets[0].stmt, why + "; the slice of the frame "
           "that holds this datagram's data, its working counter follows")
    try:
        repo._c11_forms = {"new": new, "ret": (a, b) if isinstance(
            rv, ast.Tuple) and len(rv.elts) == 2 else None}
    except NameError:
        repo._c11_forms = {"new": new, "ret": None}
    # the guards
    raises = [n for n in cfg.nodes if n.kind == "raise"]
    chk.floor(rule, "rejections in append", len(raises), 1)
    size_guard = False
    count_guard = False
    for r in raises:
        facts = path_facts(r.stmt)
        for e, t in facts:
            if not t or not isinstance(e, ast.Compare) or len(e.ops) != 1:
                continue
            tn = cfg.nodes_containing(e)
            if not tn:
                continue
            lhs, rhs = e.left, e.comparators[0]
            try:
                if isinstance(e.ops[0], ast.Gt) and same_lin(
                        lin(rhs, ev, env), {"": K["MAXSIZE"]}):
                    lf = L(lhs, tn[0])
                    okg = same_lin(lf, want)
                    chk.ob(rule, sym, "rejects when the whole new size "
                           "exceeds MAXSIZE", okg, e,
                           f"compares {show(lf)} > MAXSIZE; the frame "
                           f"grows to {show(want)}")
                    size_guard = True
                elif isinstance(e.ops[0], ast.Gt) and match(
                        "len(self.data)", lhs) is not None:
                    v = int_const(rhs)
                    chk.ob(rule, sym, "at most 15 datagrams per frame",
                           v == 14, e, f"rejects when len(data) > {v}")
                    count_guard = True
            except NonLinear:
                pass
    if size_guard and count_guard:
        chk.ob(rule, sym, "oversize and too-many guards present", True, f,
               "both OverflowError rejections")
    # however the guards are spelt: overfull packets are evaluated
    rejection(chk, repo, rule)
    # check before commit: no state change on any path to a rejection
    def mutates(n):
        if n.kind != "stmt":
            return False
        s = n.stmt
        if isinstance(s, (ast.Assign, ast.AugAssign)):
            tg = s.targets if isinstance(s, ast.Assign) else [s.target]
            if any(unparse(t).startswith("self.") for t in tg):
                return True
        return bool(find("self.data.append($x)", s))
    for r in raises:
        before = [n for n in cfg.coreachable(r) if mutates(n)]
        chk.ob(rule, sym, f"no state change before `{unparse(r.stmt)[:40]}`",
               not before, r.stmt,
               f"`{unparse(before[0].stmt)[:50]}` runs on a path to this "
               f"rejection: a rejected datagram still changes the packet "
               f"(and the sender reuses the packet object)" if before else
               "the packet is untouched when a datagram is rejected")
    # the datagram tuple
    apps = find("self.data.append($t)", f)
    need(len(apps) == 1, f"{sym}: data.append not found")
    t = apps[0][1]["t"]
    ok = match("(cmd, data, wkc, idx) + address", t) is not None
    chk.ob(rule, sym, "datagram stored as (cmd, data, wkc, idx, *address)",
           ok, apps[0][0], "the shape assemble() unpacks")


def frames(chk, repo, rule):
    """whole frames, by abstract execution (sa/evalx.py) of Packet's own
    __init__ / append / assemble on lists of datagrams and an independent
    decoder of the result: sizes, length words, 'more' bits, positions
    returned by append, working counters, padding, and that a rejected
    datagram leaves the packet as it was"""
    import struct as _struct
    ci, ev0, K = consts(repo)
    H, T_ = K["DATAGRAM_HEADER"], K["DATAGRAM_TAIL"]
    ecc = repo.cls("ebpfcat.ethercat.ECCmd")
    cmds = Evaluator(repo, ci.module, ci).enum_members(ecc)
    names = sorted(cmds)
    init, app, asm = (ci.methods.get(m) for m in ("__init__", "append",
                                                    "assemble"))
    need(init is not None and app is not None and asm is not None,
         "Packet.__init__/append/assemble vanished")
    scen = []
    for lens in ([0], [1], [7, 0, 300], [2, 2], [30] * 5, [1] * 15,
                 [1472], [700, 700]):
        dg = []
        for k, L in enumerate(lens):
            addr = (k + 1, 0x100 + k) if k % 2 == 0 else (0x10000 + k,)
            dg.append((cmds[names[k % len(names)]],
                       bytes((k * 7 + j) % 251 for j in range(L)), k, addr,
                       k % 4))
        scen.append(dg)
    # equal datagrams (same command, data, index, address, counter) at
    # several places of one frame, the last one among them
    same = (cmds[names[0]], b"\x05\x06", 3, (2, 0x130), 1)
    other = (cmds[names[1]], b"\x07", 4, (0x20000,), 0)
    scen += [[same, same, same], [same, other, same],
             [other, same, same, other, same]]
    bad = []
    rows = 0
    for dg in scen:
        me = Obj(ci, {})
        ev = Evaluator(repo, ci.module, ci)
        try:
            ev.call_function(init, [me], cls=ci)
            spans = []
            for cmd, data, idx, addr, wkc in dg:
                spans.append(ev.call_function(
                    app, [me, cmd, data, idx] + list(addr), {"wkc": wkc},
                    cls=ci))
            frame = ev.call_function(asm, [me, 0x12345678], cls=ci)
        except (Unknown, Raised) as e:
            raise AnalysisError(f"{P}: cannot evaluate append/assemble: {e}")
        rows += 1
        tag = f"datagrams of {[len(d[1]) for d in dg]} bytes"
        total = 16 + sum(H + len(d[1]) + T_ for d in dg)
        if me.fields.get("size") != total:
            bad.append(f"{tag}: size {me.fields.get('size')}, frame has "
                       f"{total}")
        if not isinstance(frame, (bytes, bytearray)) or len(frame) != max(
                total, 46):
            bad.append(f"{tag}: assembled {len(frame) if hasattr(frame, '__len__') else frame!r} bytes, expected {max(total, 46)}")
            continue
        hw, = _struct.unpack_from("<H", frame, 0)
        if hw != ((total - 2) | 0x1000):
            bad.append(f"{tag}: frame header {hw:#x}, expected "
                       f"{(total - 2) | 0x1000:#x}")
        if _struct.unpack_from("<i", frame, K["PACKET_INDEX"])[0] != \
                0x12345678:
            bad.append(f"{tag}: packet index not at PACKET_INDEX")
        pos = 16
        for k, (cmd, data, idx, addr, wkc) in enumerate(dg):
            c, i2 = frame[pos], frame[pos + 1]
            lw, = _struct.unpack_from("<H", frame, pos + 6)
            more = k < len(dg) - 1
            if c != cmd.value or i2 != idx:
                bad.append(f"{tag}: datagram {k} command/index bytes "
                           f"{c},{i2}")
            want_addr = _struct.pack("<hH", *addr) if len(addr) == 2 \
                else _struct.pack("<i", *addr)
            if frame[pos + 2:pos + 6] != want_addr:
                bad.append(f"{tag}: datagram {k} address bytes")
            if lw != (len(data) | (more << 15)):
                bad.append(f"{tag}: datagram {k} length word {lw:#x}, "
                           f"expected {len(data) | (more << 15):#x}")
            st, sp = spans[k] if isinstance(spans[k], tuple) and len(
                spans[k]) == 2 else (None, None)
            if (st, sp) != (pos + H, pos + H + len(data)) or frame[
                    pos + H:pos + H + len(data)] != data:
                bad.append(f"{tag}: datagram {k} data at "
                           f"{pos + H}, append returned {spans[k]}")
            if _struct.unpack_from("<H", frame, pos + H + len(data))[0] \
                    != wkc:
                bad.append(f"{tag}: datagram {k} working counter")
            pos += H + len(data) + T_
    chk.floor(rule, "frames assembled and decoded", rows, 8)
    chk.ob(rule, P + ".assemble", "assembled frames decode to the datagrams "
           "that were appended, at the positions append returned", not bad,
           asm, "; ".join(bad[:3]) or f"{rows} frames: header word, index, "
           f"length words with 'more' bit, addresses, data, working "
           f"counters, padding to 46")
    rejection(chk, repo, rule)


def rejection(chk, repo, rule):
    """a datagram that does not fit is refused and leaves no trace (by
    abstract execution of append on overfull packets)"""
    ci, ev0, K = consts(repo)
    ecc = repo.cls("ebpfcat.ethercat.ECCmd")
    cmds = Evaluator(repo, ci.module, ci).enum_members(ecc)
    names = sorted(cmds)
    init, app = ci.methods.get("__init__"), ci.methods.get("append")
    need(init is not None and app is not None, "Packet.append vanished")
    bad = []
    for fill, extra in (([1400], 200), ([1] * 15, 1), ([1472], 0),
                        ([700, 700], 100)):
        me = Obj(ci, {})
        ev = Evaluator(repo, ci.module, ci)
        try:
            ev.call_function(init, [me], cls=ci)
            for k, L in enumerate(fill):
                ev.call_function(app, [me, cmds[names[0]], bytes(L), k, 1,
                                       2], cls=ci)
            before = (me.fields.get("size"), list(me.fields.get("data")))
            try:
                ev.call_function(app, [me, cmds[names[0]], bytes(extra), 9,
                                       1, 2], cls=ci)
                bad.append(f"after {fill}: a datagram of {extra} bytes is "
                           f"accepted")
            except Raised as e:
                if not e.what.startswith("OverflowError"):
                    bad.append(f"after {fill}: raises {e.what[:40]}")
            after = (me.fields.get("size"), list(me.fields.get("data")))
            if before != after:
                bad.append(f"after {fill}: the rejected datagram changed "
                           f"the packet")
        except Unknown as e:
            raise AnalysisError(f"{P}.append: cannot evaluate: {e}")
    chk.ob(rule, P + ".append", "a datagram that does not fit (size or "
           "count) is refused with OverflowError and leaves the packet "
           "untouched", not bad, app, "; ".join(bad[:3]) or "4 overfull "
           "packets")


def assemble_rules(chk, repo, rule):
    frames(chk, repo, rule)
    ci, ev, K = consts(repo)
    sym = P + ".assemble"
    f = repo.func(sym)
    loops = [s for s in walk_no_nested(f) if isinstance(s, ast.For)]
    if len(loops) != 1:
        return          # another spelling: the decoded frames decide
    lp = loops[0]
    start = None
    b = match("enumerate(self.data, start=$k)", lp.iter) or match(
        "enumerate(self.data, $k)", lp.iter)
    if b is not None:
        start = int_const(b["k"])
    elif match("enumerate(self.data)", lp.iter) is not None:
        start = 0
    elif match("self.data", lp.iter) is not None:
        start = "plain"
    need(start is not None, f"{sym}: loop does not iterate over self.data")
    packs = [c for c in calls_in(lp) if dotted(c.func) == "pack"]
    hp = [c for c in packs if len(c.args) > 3]
    need(len(hp) == 1, f"{sym}: datagram header pack not found")
    # local definitions in the loop body that precede the header
    pre = []
    for s in lp.body:
        if any(x is hp[0] for x in ast.walk(s)):
            break
        if isinstance(s, ast.Assign):
            pre.append(s)
    nop = Obj(None, {"value": 7})

    def dgram(length, addr3, wkc=0, tag=0):
        d = (nop, bytes(length), wkc, tag)
        return d + ((5, 6) if addr3 else (0x10000,))
    fails = []
    rows = 0
    cases = []
    for length in (0, 1, 2, 1023, 1024, 1400, 1486):
        cases.append([dgram(length, True), dgram(3, False, tag=1)])
    cases.append([dgram(4, True), dgram(4, True)])          # identical
    cases.append([dgram(4, False), dgram(5, True), dgram(4, False)])
    cases.append([dgram(7, True)])
    for data in cases:
        slf = Obj(ci, {"data": list(data), "size": 100})
        for pos, item in enumerate(data):
            rows += 1
            env = {"self": slf}
            try:
                if start == "plain":
                    ev.bind(lp.target, item, env)
                else:
                    ev.bind(lp.target, (pos + start, item), env)
                for s in pre:
                    ev.run_stmt(s, env)
                raw = ev.eval(hp[0], env)
            except (Raised, Unknown) as e:
                fails.append(f"cannot fold header of datagram {pos}: {e}")
                continue
            if not isinstance(raw, bytes) or len(raw) != K["DATAGRAM_HEADER"]:
                fails.append(f"header of datagram {pos} is {raw!r}")
                continue
            cmd, idx = raw[0], raw[1]
            lw, irq = _struct.unpack("<HH", raw[6:10])
            more = pos < len(data) - 1
            ln = len(item[1])
            if lw & 0x7ff != ln:
                fails.append(f"datagram of {ln} bytes announces "
                             f"{lw & 0x7ff}")
            elif bool(lw & 0x8000) != more:
                fails.append(f"datagram {pos + 1} of {len(data)}"
                             f"{' (identical ones)' if data[0] == data[-1] and len(data) > 1 else ''}"
                             f": more flag {bool(lw & 0x8000)}, expected "
                             f"{more}")
            elif lw & 0x7800:
                fails.append(f"reserved bits set in length word {lw:#x}")
            elif cmd != 7 or idx != item[3] or irq != 0:
                fails.append(f"datagram {pos}: cmd/idx/irq = "
                             f"{cmd}/{idx}/{irq}")
            else:
                want = _struct.pack("<hH", 5, 6) if len(item) == 6 else \
                    _struct.pack("<i", 0x10000)
                if raw[2:6] != want:
                    fails.append(f"datagram {pos}: address bytes "
                                 f"{raw[2:6].hex()}")
    chk.ob(rule, sym, f"datagram headers ({rows} rows: boundary lengths, "
           f"identical datagrams, 1-3 datagrams)", not fails, hp[0],
           "; ".join(fails[:3]) or "length word = len | more<<15 with "
           "more decided by position; command, index and address in place")
    # order inside the loop: header, data, working counter
    apps = [c for c in calls_in(lp) if match("ret.append($x)", c) is not None]
    kinds = []
    for c in apps:
        x = c.args[0]
        if x is hp[0]:
            kinds.append("header")
        elif isinstance(x, ast.Name):
            kinds.append("data")
        elif match("pack('<H', wkc)", x) is not None:
            kinds.append("wkc")
        else:
            kinds.append("?")
    if apps:
        # (another spelling - extend() with a helper's triple - is decided
        # by the decoded frames above)
        chk.ob(rule, sym, "each datagram is header, data, working counter",
               kinds == ["header", "data", "wkc"], lp, f"appends {kinds}")
    # frame header
    fh = [c for c in calls_in(f) if dotted(c.func) == "pack"
          and c not in packs]
    need(len(fh) == 1, f"{sym}: frame header pack not found")
    fails = []
    for size in (16, 28, 46, 47, 1500):
        env = {"self": Obj(ci, {"size": size, "data": []}), "index": 0x1234567,
               "ethertype": 0x88A4}
        try:
            raw = ev.eval(fh[0], env)
        except (Raised, Unknown) as e:
            fails.append(str(e))
            continue
        if len(raw) != K["PACKET_HEADER"]:
            fails.append(f"frame header has {len(raw)} bytes")
            continue
        w, cmd, idx, ident, lw, irq, et, wkc = _struct.unpack("<HBBiHHHH",
                                                              raw)
        if w != ((size - 2) | 0x1000):
            fails.append(f"size {size}: frame word {w:#x}, expected "
                         f"{(size - 2) | 0x1000:#x}")
        if cmd != 0 or ident != 0x1234567 or lw != 0x8002 or et != 0x88A4 \
                or wkc != 0 or irq != 0:
            fails.append(f"identification datagram: cmd {cmd} id {ident:#x} "
                         f"len {lw:#x} data {et:#x}")
    chk.ob(rule, sym, "frame header and identification datagram (5 sizes)",
           not fails, fh[0], "; ".join(fails[:3]) or "length = size - 2 "
           "with type 1; a NOP datagram carrying the index as address and "
           "the ethertype as data, more flag set")
    # padding
    pads = [s for s in walk_no_nested(f) if isinstance(s, ast.If)
            and "46" in unparse(s.test)]
    ok = len(pads) == 1
    fails = []
    if ok:
        padx = [c.args[0] for c in calls_in(pads[0]) if match(
            "ret.append($x)", c) is not None]
        ok = len(padx) == 1
        if ok:
            for size in (16, 30, 45, 46, 47, 100):
                env = {"self": Obj(ci, {"size": size})}
                try:
                    cond = bool(ev.eval(pads[0].test, env))
                    n = len(ev.eval(padx[0], env)) if cond else 0
                except (Raised, Unknown) as e:
                    fails.append(str(e))
                    continue
                if size + n != max(size, 46):
                    fails.append(f"size {size}: {n} padding bytes")
    chk.ob(rule, sym, "frames shorter than 46 bytes are padded to 46",
           ok and not fails, pads[0] if pads else f, "; ".join(fails) or
           "6 sizes around the limit")


WRITES = {"APWR", "APRW", "FPWR", "FPRW", "BWR", "BRW", "LWR", "LRW",
          "ARMW", "FRMW"}


def writers_registered(chk, repo, rule="R11.4"):
    """every datagram with a writing command that is put into a sync
    group's packet is put there through append_writer (which records it for
    sterile() and activate()); a plain append of a write command leaves it
    enabled in the passive frame.  Looked at: every `<packet>.append(cmd,
    ...)` / `.append_writer(cmd, ...)` in the code that fills sync-group
    packets (ebpfcat.py, terminals.py), the command being an ECCmd member
    or a parameter whose arguments are ECCmd members at every call."""
    mods = [repo.module("ebpfcat.ebpfcat"), repo.module("ebpfcat.terminals")]
    funcs = list(repo.all_functions(mods))
    n = 0

    def members(expr, fn, depth=0):
        """the ECCmd members expr may stand for (None: not a command)"""
        dn = dotted(expr) or ""
        if dn.startswith("ECCmd."):
            return {dn.split(".")[1]}
        if isinstance(expr, ast.Name) and fn is not None and depth < 2 \
                and expr.id in param_names(fn):
            idx = param_names(fn).index(expr.id)
            out = set()
            for g in funcs:
                for c in walk_no_nested(g):
                    if isinstance(c, ast.Call) and (dotted(c.func) or ""
                                                    ).split(".")[-1] == \
                            fn.name and g is not fn:
                        off = 1 if param_names(fn)[:1] == ["self"] and \
                            isinstance(c.func, ast.Attribute) else 0
                        a = None
                        if idx - off < len(c.args) and idx - off >= 0:
                            a = c.args[idx - off]
                        for k in c.keywords:
                            if k.arg == expr.id:
                                a = k.value
                        if a is not None:
                            m_ = members(a, g, depth + 1)
                            if m_:
                                out |= m_
            return out or None
        return None
    for fn in funcs:
        q = func_qual(repo, fn.body[0])
        if q.endswith(("SterilePacket.append_writer",
                       "SterilePacket.append")):
            continue        # the registration itself and what it wraps
        for c in walk_no_nested(fn):
            if not (isinstance(c, ast.Call) and isinstance(
                    c.func, ast.Attribute) and c.func.attr in (
                        "append", "append_writer") and c.args):
                continue
            ms = members(c.args[0], fn)
            if not ms:
                continue
            n += 1
            wr = sorted(ms & WRITES)
            ok = not wr or c.func.attr == "append_writer"
            chk.ob(rule, q, f"datagram {'/'.join(sorted(ms))} is "
                   f"{'registered as a writer' if wr else 'a reader'}", ok,
                   c, f"`{unparse(c)[:70]}`: a write command appended "
                   f"without append_writer stays enabled in the sterile "
                   f"frame and is neither re-enabled, checked nor cleared "
                   f"by activate()" if not ok else
                   f"{c.func.attr}({', '.join(sorted(ms))}, ...)")
    chk.floor(rule, "datagrams put into sync-group packets", n, 6)


def sterile(chk, repo):
    S = "ebpfcat.ebpfcat.SterilePacket"
    ci, ev, K = consts(repo)
    aw = repo.func(S + ".append_writer")
    chk.analysed(S + ".append_writer")
    cfg = CFG(aw, raises="call")
    rd = ReachingDefs(cfg)
    rec = [n for n in cfg.nodes if n.expr is not None and find(
        "self.on_the_fly.append($t)", n.expr)]
    app = [n for n in cfg.nodes if n.expr is not None and find(
        "self.append($*a, $**)", n.expr)]
    need(len(rec) == 1 and len(app) == 1, f"{S}.append_writer: shape")
    ok = cfg.dominates(app[0], rec[0]) and app[0] is not rec[0]
    chk.ob("R11.4", S + ".append_writer", "a writer is recorded only after "
           "its append succeeded", ok, rec[0].stmt,
           "if the append raises OverflowError nothing may stay in "
           "on_the_fly: sterile() would later overwrite the command byte of "
           "whichever datagram lands at that offset")
    t = find("self.on_the_fly.append($t)", rec[0].expr)[0][1]["t"]
    ok = isinstance(t, ast.Tuple) and len(t.elts) == 3
    if ok:
        first = t.elts[0]
        if isinstance(first, ast.Name):
            ds = rd.reaching(rec[0], first.id)
            ok = len(ds) == 1 and next(iter(ds)).node is not None and \
                match("self.size", next(iter(ds)).value) is not None and \
                cfg.dominates(next(iter(ds)).node, app[0])
        else:
            ok = False
    chk.ob("R11.4", S + ".append_writer", "recorded position is the packet "
           "size before the append", ok, rec[0].stmt,
           "the offset of the datagram's command byte")
    st = repo.func(S + ".sterile")
    chk.analysed(S + ".sterile")
    # sterile(), by abstract execution on packets built through append /
    # append_writer (a writer that does not fit included): the frame is the
    # assembled one with the command byte of every writer - and nothing
    # else - replaced by NOP, and the packet itself stays as it was
    sp = repo.cls(S)
    ecc = repo.cls("ebpfcat.ethercat.ECCmd")
    cmds = Evaluator(repo, sp.module, sp).enum_members(ecc)
    nop = cmds["NOP"].value
    plans = [
        [("r", "FPRD", 4), ("w", "FPWR", 3), ("r", "LRD", 8),
         ("w", "LWR", 2)],
        [("w", "FPWR", 1)],
        [("r", "FPRD", 2), ("r", "BRD", 2)],
        [("w", "LWR", 700), ("w", "FPWR", 900), ("r", "FPRD", 6),
         ("w", "FPWR", 5)],
        [],
    ]
    bad = []
    for plan in plans:
        ev_ = Evaluator(repo, sp.module, sp)
        try:
            me = ev_.construct(sp, [], {})
            pos = K["PACKET_HEADER"]
            writers = []
            for kind, cn, ln in plan:
                addr = (0x10000,) if cn.startswith("L") else (3, 0x1000)
                meth = "append_writer" if kind == "w" else "append"
                try:
                    ev_.call(ev_.getattr(me, meth), [
                        cmds[cn], bytes((7 * i + 1) % 251
                                        for i in range(ln)), 0] + list(addr))
                except Raised as e:
                    if "OverflowError" not in e.what:
                        raise
                    continue        # did not fit: nothing may be recorded
                if kind == "w":
                    writers.append(pos)
                pos += K["DATAGRAM_HEADER"] + ln + K["DATAGRAM_TAIL"]
            before = [tuple(d) for d in me.fields["data"]]
            plain = bytes(ev_.call(ev_.getattr(me, "assemble"), [77]))
            got = ev_.call(ev_.getattr(me, "sterile"), [77])
            plain2 = bytes(ev_.call(ev_.getattr(me, "assemble"),
                                    [5, 0x88b5]))
            got2 = ev_.call(ev_.getattr(me, "sterile"), [5, 0x88b5])
            got3 = ev_.call(ev_.getattr(me, "sterile"), [5],
                            {"ethertype": 0x88b5})
            # ... and the frame assembled afterwards is the live one again
            again = bytes(ev_.call(ev_.getattr(me, "assemble"), [77]))
            again2 = bytes(ev_.call(ev_.getattr(me, "assemble"),
                                    [5, 0x88b5]))
        except (Unknown, Raised) as e:
            raise AnalysisError(f"{S}.sterile: cannot be evaluated: {e}")
        want = bytearray(plain)
        want2 = bytearray(plain2)
        for w_ in writers:
            want[w_] = nop
            want2[w_] = nop
        tag = "datagrams " + ", ".join(f"{c}{'*' if k == 'w' else ''}"
                                       for k, c, _ in plan)
        if bytes(got2) != bytes(want2) or bytes(got3) != bytes(want2):
            bad.append(f"{tag}: with another ethertype the sterile frame "
                       f"is not the assembled one")
        elif bytes(got) != bytes(want):
            diff = [i for i in range(min(len(got), len(want)))
                    if got[i] != want[i]]
            bad.append(f"{tag}: bytes {diff[:4]} differ from the assembled "
                       f"frame with the writers' command bytes "
                       f"{writers} set to NOP")
        elif [tuple(d) for d in me.fields["data"]] != before:
            bad.append(f"{tag}: the packet itself was changed")
        elif again != plain or again2 != plain2:
            bad.append(f"{tag}: assemble() after sterile() no longer gives "
                       f"the frame it gave before: the sterile frame was "
                       f"made in place of a frame that assemble() keeps, "
                       f"and the live frame goes out with NOPs for its "
                       f"write commands")
    chk.ob("R11.4", S + ".sterile", "writes only NOP, only at recorded "
           "positions, on a copy of assemble()'s output", not bad, st,
           "; ".join(bad[:2]) or f"{len(plans)} packets by abstract "
           f"execution (readers, writers, a writer that does not fit)")
    ap = repo.func(S + ".append")
    chk.analysed(S + ".append")
    sup = find("super().append(cmd, *args, wkc=counter)", ap)
    chk.ob("R11.4", S + ".append", "the expected count is the working "
           "counter preset", len(sup) == 1, ap, "wkc=counter")
    ok, why = counter_key(repo, K)
    chk.ob("R11.4", S + ".append", "counter position recorded at size - "
           "tail after the append", ok, ap,
           why or "the working counter is the last two bytes of the "
           "datagram")

# added rules (appended to the explanation the evidence file carries)
EXPLANATION += (" " + 'Added during the build (DESIGN.md 4.31, second table): sterile() by abstract execution on packets built through append / append_writer (two ethertypes, a writer that does not fit); who-may-append rule: write commands enter sync-group packets through append_writer only; frames with equal datagrams.')
EXPLANATION += (' Added after wave 10: assemble() after sterile() still gives the live frame; R18.6 (allocation decoded independently) is shared.')
