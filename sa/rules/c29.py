"""C29 - process-based sync groups share device variables correctly."""
import ast

from .common import *
from . import c08
from .c02 import rounding, reads

EXPLANATION = (
    "Decided: (R29.1) map identity: DeviceVar binds itself to one specific "
    "ArrayMap object; every sync-group class that is also an EBPFBase (so "
    "that DeviceVar takes the map route) lays out that same object - the "
    "`properties` attribute of each such class resolves, through aliases, "
    "to the one ArrayMap() call DeviceVar names; (R29.2) "
    "SimulatedEBPF.__init__ stores the array returned by get_array(size) "
    "under the map's attribute name, the name through which descriptors "
    "find the buffer; ProcessSyncGroup.get_array allocates from the spawn "
    "context's shared memory; (R29.3) the layout rules of collect() shared "
    "with C08 (one slot per visible variable, walk from the most derived "
    "class, reservation = access size) and the fixed-point rounding shared "
    "with C02; (R29.4) every device of a group - with or without linked "
    "terminals - is bound to the group (sync_group = self on every "
    "iteration of the device loop), which is what switches DeviceVar to "
    "the shared array. Declined: values observed in two processes.")
ASSUMPTIONS = ["multiprocessing spawn-context Array is shared between parent "
               "and child"]

C = "ebpfcat.ebpfcat."


def resolve_map_expr(repo, ci, name, depth=0):
    """the expression that creates the object `ci.name` denotes"""
    owner, node = repo.lookup(ci, name)
    if node is None or depth > 5:
        return None, None
    if isinstance(node, ast.Call):
        return owner, node
    d = dotted(node)
    if d and "." in d:
        cls_name, attr = d.rsplit(".", 1)
        other = repo.resolve_class_expr(owner.module, node.value)
        if other is not None:
            return resolve_map_expr(repo, other, attr, depth + 1)
    return owner, node


MEMO = {"cache", "lru_cache", "cached_property", "memoize"}


def no_memo(chk, repo):
    """R29.6: where a variable lives is decided per program object and per
    layout run (collect() stores the offsets in the object's __dict__;
    SimulatedEBPF lays out afresh for every group).  A memoised lookup
    keyed on the descriptor answers for *another* object - or for the
    layout before the last one."""
    chk.doc("R29.6", "layout lookups are not memoised")
    bad = []
    n = 0
    for q in ("ebpfcat.arraymap.ArrayGlobalVarDesc",
              "ebpfcat.ebpfcat.DeviceVar", "ebpfcat.ebpf.MemoryDesc"):
        base = repo.cls(q)
        for ci in repo.subclasses(q):
            if ci.module.name.endswith("_test"):
                continue
            for name, f in ci.methods.items():
                if not isinstance(f, FUNC):
                    continue
                n += 1
                for d in f.decorator_list:
                    nm = (dotted(d.func if isinstance(d, ast.Call) else d)
                          or "").split(".")[-1]
                    if nm in MEMO:
                        bad.append((f, f"{ci.qualname}.{name} is @{nm}"))
    # ... nor kept by hand: an array-map descriptor is shared by every
    # instance of its class and by every layout run, so nothing it learns
    # from one access may be kept in it (or in a cache keyed by instance)
    for ci in repo.subclasses("ebpfcat.arraymap.ArrayGlobalVarDesc"):
        if ci.module.name.endswith("_test"):
            continue
        for name, f in ci.methods.items():
            if not isinstance(f, FUNC) or name in ("__init__",
                                                   "__set_name__"):
                continue
            for x in walk_no_nested(f):
                t = None
                if isinstance(x, ast.Attribute) and isinstance(
                        x.ctx, (ast.Store, ast.Del)):
                    t = x
                elif isinstance(x, ast.Subscript) and isinstance(
                        x.ctx, (ast.Store, ast.Del)):
                    t = x.value
                root = t
                while isinstance(root, (ast.Attribute, ast.Subscript)):
                    root = root.value
                if t is not None and isinstance(root, ast.Name) and \
                        root.id == "self":
                    bad.append((x, f"{ci.qualname}.{name} stores into "
                                   f"`{unparse(x)[:40]}`"))
    chk.floor("R29.6", "descriptor methods looked at", n, 10)
    chk.ob("R29.6", "ebpfcat.arraymap.ArrayGlobalVarDesc", "no descriptor "
           "method is memoised", not bad, bad[0][0] if bad else None,
           (bad[0][1] + ": the offset of one group's variable is handed out "
            "for the same device variable in another group or after a new "
            "layout") if bad else f"{n} methods")


def every_write_stored(chk, repo):
    """R29.7: an assignment to a device variable is a store: every way
    through DeviceVar.__set__ / ArrayGlobalVarDesc.__set__ that ends
    normally passes the store (the buffer slice, super().__set__, the
    instance dictionary of a group-less device).  A path that returns
    without it - "the value is in the map already" - leaves what the other
    process wrote in the meantime in place."""
    chk.doc("R29.7", "every assignment to a device variable is stored")
    n = 0
    for q in ("ebpfcat.ebpfcat.DeviceVar",
              "ebpfcat.arraymap.ArrayGlobalVarDesc"):
        ci = repo.cls(q)
        f = ci.methods.get("__set__")
        if f is None:
            continue
        n += 1
        chk.analysed(q + ".__set__")
        cfg = CFG(f)

        def stores(nd):
            e = nd.stmt if nd.kind == "stmt" else nd.expr
            if e is None:
                return False
            if isinstance(e, ast.Assign) and any(isinstance(
                    t, ast.Subscript) for t in e.targets):
                return True
            for c in ast.walk(e):
                if isinstance(c, ast.Call) and isinstance(
                        c.func, ast.Attribute) and c.func.attr in (
                            "__set__", "pack_into", "update_elem",
                            "__setitem__"):
                    return True
            return False
        ok = cfg.must_pass(cfg.entry, stores, targets=[cfg.exit])
        wit = None if ok else cfg.witness_path(cfg.entry, stores,
                                               targets=[cfg.exit])
        last = None
        for nd in (wit or []):
            if getattr(nd, "stmt", None) is not None:
                last = nd.stmt
        chk.ob("R29.7", q + ".__set__", "every normal way out has stored "
               "the value", ok, last or f,
               (f"a path ends at `{unparse(last)[:50] if last else '?'}` "
                f"without a store: the assignment is dropped and the other "
                f"process keeps what it read or wrote before") if not ok
               else "buffer slice / super().__set__ / instance dictionary "
               "on every path")
    chk.floor("R29.7", "__set__ implementations", n, 2)


def map_route(chk, repo, rule="R29.8"):
    """which sync groups keep their devices' variables in a map: the ones
    that *are* programs (EBPFBase: the fast group and the process group,
    whose constructor lays the variables out in the shared array).
    DeviceVar.__get__ / __set__ go to the map for exactly those groups -
    decided by folding the conditions under which they call the map
    descriptor, for every sync group class of the package."""
    chk.doc(rule, "device variables of a program-like sync group live in "
                  "its map")
    dv = repo.cls("ebpfcat.ebpfcat.DeviceVar")
    base = "ebpfcat.ebpfcat.SyncGroupBase"
    groups = [c for c in repo.subclasses(base)
              if not c.module.name.endswith("_test")]
    n = 0
    for meth in ("__get__", "__set__"):
        f = dv.methods.get(meth)
        need(f is not None, f"DeviceVar.{meth} vanished")
        sites = [c for c in walk_no_nested(f) if isinstance(c, ast.Call)
                 and isinstance(c.func, ast.Attribute) and c.func.attr
                 == meth and unparse(c.func.value).startswith("super(")]
        need(sites, f"DeviceVar.{meth}: call of the map descriptor not "
                    f"found")
        bad = []
        for g in groups:
            want = repo.is_subclass(g, "ebpfcat.ebpf.EBPFBase")
            inst = Obj(None, {"sync_group": Obj(g, {})})
            env = {"self": Obj(dv, {"name": "v"}), "instance": inst,
                   "owner": None, "value": 5}
            taken = False
            try:
                for c in sites:
                    facts = path_facts(stmt_of(c))
                    ev = Evaluator(repo, f._module, dv)
                    # (locals bound from the instance before the test)
                    for st in walk_no_nested(f):
                        if isinstance(st, ast.Assign) and len(
                                st.targets) == 1 and isinstance(
                                    st.targets[0], ast.Name) and st.lineno \
                                < c.lineno and not any(isinstance(
                                    y, ast.Call) for y in ast.walk(st.value)):
                            try:
                                env[st.targets[0].id] = ev.eval(st.value,
                                                                env)
                            except (Unknown, Raised):
                                pass
                    if all(bool(ev.truth(ev.eval(e_, env))) == t_
                           for e_, t_ in facts):
                        taken = True
            except (Unknown, Raised) as e:
                # conditions that look at more than the group: left to the
                # other rules
                chk.notes.append(f"{rule}: DeviceVar.{meth}: the route for "
                                 f"{g.name} was not folded ({e})")
                continue
            n += 1
            if taken != want:
                bad.append(f"{g.name}: {'map' if taken else 'instance'} "
                           f"route, but the group "
                           f"{'is' if want else 'is not'} a program with "
                           f"a map")
        chk.ob(rule, dv.qualname + "." + meth, f"the map is used for "
               f"exactly the program-like sync groups "
               f"({', '.join(g.name for g in groups)})", not bad, f,
               "; ".join(bad) + (": what one process writes never reaches "
                                 "the shared array" if bad else "") or
               "isinstance(sync_group, EBPFBase)")
    if n:
        chk.floor(rule, "(accessor, sync group class) pairs", n, 4)


def run(chk, repo):
    map_route(chk, repo)
    no_memo(chk, repo)
    every_write_stored(chk, repo)
    chk.doc("R29.5", "the process group runs the cycle of SyncGroup on the "
                     "shared array itself")
    override_rule(chk, repo, "R29.5", "ebpfcat.ebpfcat.SyncGroup",
                  ["update_devices"], "devices must read and write the "
                  "shared array directly; a private copy that is written "
                  "back later overwrites what the other process stored in "
                  "the meantime")
    from . import c08
    chk.doc("R08.1", "array map: single source of layout (shared with C08)")
    chk.doc("R08.2", "array map: reservation = access size (shared with C08)")
    chk.doc("R08.3", "array map: one slot per visible variable (shared)")
    c08.layout(chk, repo)
    c08.dedup(chk, repo)
    chk.doc("R29.1", "map identity across sync-group classes")
    chk.doc("R29.2", "simulated buffer stored under the map's name; shared "
                     "memory")
    chk.doc("R29.3", "layout (shared with C08) and rounding (shared with "
                     "C02)")
    chk.doc("R29.4", "every device is bound to its group")
    dv = repo.cls(C + "DeviceVar")
    init = dv.methods.get("__init__")
    need(init is not None, "DeviceVar.__init__ vanished")
    sup = find("super().__init__($m, size)", init)
    need(len(sup) == 1, "DeviceVar.__init__: map argument not found")
    marg = sup[0][1]["m"]
    mcls = repo.resolve_class_expr(dv.module, marg.value) if isinstance(
        marg, ast.Attribute) else None
    need(mcls is not None, f"DeviceVar binds to {unparse(marg)}: class not "
                           f"resolved")
    _, target = resolve_map_expr(repo, mcls, marg.attr)
    ok = isinstance(target, ast.Call) and dotted(target.func) == "ArrayMap"
    chk.ob("R29.1", dv.qualname + ".__init__", f"device variables are "
           f"declared in the map `{unparse(marg)}`", ok, init,
           f"resolves to `{unparse(target) if target is not None else '?'}` "
           f"at {repo.where(target) if target is not None else '?'}")
    groups = [ci for ci in repo.classes.values()
              if repo.is_subclass(ci, C + "SyncGroupBase")
              and repo.is_subclass(ci, "ebpfcat.ebpf.EBPFBase")
              and ci.module.name == "ebpfcat.ebpfcat"]
    chk.floor("R29.1", "sync-group classes that keep variables in a map",
              len(groups), 2)
    for ci in groups:
        _, m = resolve_map_expr(repo, ci, "properties")
        ok = m is not None and m is target
        chk.ob("R29.1", ci.qualname, "lays out the map DeviceVar is bound "
               "to", ok, ci.attr_stmts.get("properties", ci.node),
               f"`properties` is `{unparse(m) if m is not None else '?'}` "
               f"at {repo.where(m) if m is not None else '?'}: collect() "
               f"selects descriptors with `v.map is self`, so with another "
               f"ArrayMap object no device variable is laid out and every "
               f"access raises KeyError" if not ok else
               "the same ArrayMap() call expression")
    # that collect() selects the descriptors of *this* map (by identity) is
    # decided on computed layouts: c08.layout_semantic, "variables of other
    # maps and plain attributes are left alone" / "every visible variable
    # of this map has a slot" (run as part of c08.layout below)
    ok = any(isinstance(b, ClassInfo) and b.qualname ==
             "ebpfcat.arraymap.ArrayGlobalVarDesc" for b in repo.bases(dv))
    chk.ob("R29.1", dv.qualname, "DeviceVar is an array-map variable", ok,
           dv.node, "subclass of ArrayGlobalVarDesc")
    for meth in ("__get__", "__set__"):
        f = dv.methods[meth]
        ok = bool(find("isinstance(instance.sync_group, EBPFBase)", f)) and \
            bool(find(f"super().{meth}($*a)", f))
        chk.ob("R29.1", dv.qualname + "." + meth, "takes the map route when "
               "the group keeps its variables in a map", ok, f,
               "isinstance(sync_group, EBPFBase) -> ArrayGlobalVarDesc")
    # ------------------------------------------------------------ R29.2
    se = repo.func("ebpfcat.ebpf.SimulatedEBPF.__init__")
    ok = bool(find("size = v.collect(self)", se, mode="stmt")) and bool(find(
        "setattr(self, k, self.get_array(size))", se))
    chk.ob("R29.2", "ebpfcat.ebpf.SimulatedEBPF.__init__", "the buffer of "
           "collect()'s size is stored under the map's attribute name", ok,
           se, "descriptors read instance.__dict__[map.name]")
    ok = bool(find("isinstance(v, Map)", se))
    chk.ob("R29.2", "ebpfcat.ebpf.SimulatedEBPF.__init__", "every map of "
           "the class hierarchy gets a buffer", ok, se, "MRO walk")
    am = repo.func("ebpfcat.arraymap.ArrayMap.__set_name__")
    ok = bool(find("self.name = name", am, mode="stmt"))
    chk.ob("R29.2", "ebpfcat.arraymap.ArrayMap.__set_name__", "the map "
           "knows the attribute name it is stored under", ok, am,
           "self.name = name")
    ga = repo.func(C + "ProcessSyncGroup.get_array")
    ok = bool(find("self.ctx.Array('B', size).get_obj()", ga))
    chk.ob("R29.2", C + "ProcessSyncGroup.get_array", "the buffer is shared "
           "memory of the spawn context", ok, ga, "ctx.Array('B', size)")
    pi = repo.func(C + "ProcessSyncGroup.__init__")
    ok = bool(find("self.ctx = get_context('spawn')", pi, mode="stmt")) and \
        bool(find("super().__init__(ec, devices, subprograms=devices, "
                  "**kwargs)", pi))
    chk.ob("R29.2", C + "ProcessSyncGroup.__init__", "the context exists "
           "before the buffers are allocated; devices are the subprograms "
           "whose variables are collected", ok, pi,
           "ctx first, then SimulatedEBPF.__init__ via super()")
    if ok:
        l1 = [s.lineno for s in walk_no_nested(pi) if match_stmt(
            "self.ctx = get_context('spawn')", s) is not None]
        l2 = [c.lineno for c, b in find("super().__init__($*a, $**)", pi)]
        chk.ob("R29.2", C + "ProcessSyncGroup.__init__", "order: context, "
               "then base initialisation", l1[0] < l2[0], pi,
               "get_array needs self.ctx")
    # ------------------------------------------------------------ R29.3
    c08.dedup(chk, repo)
    from ..dsl import Ctx as Dsl
    dd = Dsl(repo)
    chk.doc("R08.3", "see R29.3")
    chk.doc("R02.2", "see R29.3")
    chk.doc("R02.3", "see R29.3")
    rounding(chk, repo, dd)
    reads(chk, repo, dd)
    # ------------------------------------------------------------ R29.4
    sym = C + "SyncGroupBase.__init__"
    f = repo.func(sym)
    chk.analysed(sym)
    cfg = CFG(f)
    its = [n for n in cfg.nodes if n.kind == "iter" and match(
        "self.devices", n.stmt.iter) is not None]
    need(len(its) == 1, f"{sym}: device loop not found")
    it = its[0]
    dev = unparse(it.stmt.target)
    binds = [n for n in cfg.nodes if n.kind == "stmt" and match_stmt(
        f"{dev}.sync_group = self", n.stmt) is not None]
    first = [m for m, lab in it.succ if lab == "true"]

    class Start:
        succ = [(first[0], "next")] if first else []
    ok = bool(binds) and cfg.must_pass(Start, lambda n: n in binds,
                                       targets=[it, cfg.exit]) or (
        bool(binds) and first and first[0] in binds)
    chk.ob("R29.4", sym, "every device is bound to the group", ok, it.stmt,
           "`dev.sync_group = self` must run on every iteration of the "
           "device loop: nested in the loop over the device's terminals it "
           "is skipped for a device without terminals, whose variables then "
           "stay private to each process")
EXPLANATION += (' Added after wave 8: (R29.7) every normal way through DeviceVar.__set__ / ArrayGlobalVarDesc.__set__ passes a store.')
EXPLANATION += (' Added after wave 9: (R29.8) the map route of DeviceVar is taken for exactly the program-like sync group classes.')
