"""C19 - process variables access their own bits and bytes on both paths."""
import ast

from .common import *

EXPLANATION = (
    "Decided: (R19.1) one start: PacketVar.get, .set and .fmt_addr all "
    "derive the position from _start(device) = pdo_assign[terminal][sm] + "
    "position; the program path adds exactly the Ethernet header; (R19.2) "
    "same width, same bit: the Python path packs/unpacks '<' + size resp. "
    "masks 1 << size in one byte, the program path uses format size resp. "
    "bit field (size, 1) with base register 9; the program-side bit "
    "extraction masks ((1 << bits) - 1) << pos unconditionally and shifts "
    "only when pos > 0 (mask folded over field shapes); bit reads yield a "
    "bool; (R19.3) offset resolution: ProcessDesc takes (sm, offset, size) "
    "from the terminal's PDO table at index + position_offset[None] and "
    "overrides only the size; PacketDesc adds position_offset[sm]; "
    "StructDesc.__init__, folded over offset combinations (explicit zeros "
    "included), hands out OUT -> sm2, IN -> sm3, None -> coe with the "
    "documented defaults; (R19.4) the specialised accessors cached on the "
    "PacketVar instance read the sync group's current frame on every call "
    "(nothing but the position is captured) and assert their device. "
    "Declined: frame-byte equality of the two paths.")
ASSUMPTIONS = ["current_data holds the frame without the Ethernet header, "
               "the XDP program sees it with the header"]

C = "ebpfcat.ebpfcat."
E = "ebpfcat.ebpf."


def run(chk, repo):
    chk.doc("R19.1", "one start for both paths")
    chk.doc("R19.2", "same width, same bit")
    chk.doc("R19.3", "offset resolution of the descriptors")
    chk.doc("R19.4", "cached accessors capture only the position")
    start(chk, repo)
    widths(chk, repo)
    descs(chk, repo)
    closures(chk, repo)
    # a constant assigned by the program reaches the frame as the Python
    # path writes it (shared with C01)
    from ..dsl import Ctx as _Dsl
    from .c01 import store_immediate
    chk.doc("R01.7", "immediate stores only for signed 32-bit constants "
                     "(shared with C01)")
    store_immediate(chk, repo, _Dsl(repo))
    # where a terminal's bytes are: the allocation (shared with C18) and
    # the bit positions of its PDO entries (shared with C17)
    from . import c18, c17
    chk.doc("R18.6", "allocation decoded independently (shared with C18)")
    c18.allocation_semantic(chk, repo)
    chk.doc("R17.4", "PDO entries and their bit positions (shared with "
                     "C17)")
    c17.pdos(chk, repo)


def start(chk, repo):
    pv = repo.cls(C + "PacketVar")
    st = pv.methods.get("_start")
    need(st is not None, "PacketVar._start vanished")
    ok = bool(find("device.sync_group.pdo_assign[self.terminal][self.sm] + "
                   "self.position", st))
    chk.ob("R19.1", pv.qualname + "._start", "position = pdo_assign"
           "[terminal][sync manager] + position", ok, st,
           "the allocation of the device's sync group")
    def root(x):
        while isinstance(x, (ast.Attribute, ast.Subscript)):
            x = x.value
        return x.id if isinstance(x, ast.Name) else None
    stores = [x for x in walk_no_nested(st) if isinstance(
        x, (ast.Attribute, ast.Subscript)) and isinstance(
            x.ctx, (ast.Store, ast.Del)) and root(x) == "self"]
    stores += [c.func for c in walk_no_nested(st) if isinstance(
        c, ast.Call) and isinstance(c.func, ast.Attribute) and isinstance(
            c.func.value, ast.Attribute) and root(c.func) == "self"
        and c.func.attr in ("setdefault", "update", "append", "add",
                            "__setitem__", "insert", "extend")]
    stores += [d for d in st.decorator_list if unparse(d).split("(")[
        0].split(".")[-1] in ("cache", "lru_cache", "cached_property")]
    chk.ob("R19.1", pv.qualname + "._start", "the position is looked up in "
           "the device's sync group on every call", not stores,
           stores[0] if stores else st,
           f"`{unparse(stores[0])[:40]}` is written: a position remembered in "
           f"the variable outlives the allocation it came from - the same "
           f"device in a new or re-allocated sync group is addressed at the "
           f"old offset" if stores else "no state is kept in the PacketVar")
    for meth in ("get", "set"):
        f = pv.methods[meth]
        ok = bool(find("start = self._start(device)", f, mode="stmt"))
        chk.ob("R19.1", pv.qualname + "." + meth, "Python path starts at "
               "_start(device)", ok, f, "start = self._start(device)")
    fa = pv.methods["fmt_addr"]
    # by abstract execution: bit numbers and formats, two frame positions
    ok = True
    try:
        hdr = Evaluator(repo, pv.module).class_attr(repo.cls(
            "ebpfcat.ethercat.Packet"), "ETHERNET_HEADER")
        for size in (0, 3, 7, "H", "i", "B", "8s", "<I"):
            for st_ in (26, 1003):
                dev = Obj(None, {})
                me = Obj(pv, {"size": size, "_start": (
                    "hook", lambda d, _s=st_, _d=dev: _s if d is _d
                    else -1)})
                got = Evaluator(repo, pv.module, pv).call_function(
                    fa, [me, dev], cls=pv)
                want = ((size, 1) if isinstance(size, int) else size,
                        st_ + hdr)
                if got != want:
                    ok = False
    except (Unknown, Raised):
        rets = [r for r in walk_no_nested(fa) if isinstance(r, ast.Return)]
        ok = len(rets) == 1 and match(
            "((self.size, 1) if isinstance(self.size, int) else self.size, "
            "self._start(device) + Packet.ETHERNET_HEADER)", rets[0].value) \
            is not None
    chk.ob("R19.1", pv.qualname + ".fmt_addr", "program path: same start "
           "plus the Ethernet header; a bit is the field (bit, 1)", ok, fa,
           "the XDP program sees the frame with its 14-byte header")
    try:
        br = Evaluator(repo, pv.module, pv).class_attr(pv, "base_register")
    except Unknown:
        br = None
    chk.ob("R19.1", pv.qualname, "base register is the packet register 9",
           br == 9, pv.node, "r9 = ctx.data")
    ok = any((isinstance(b, ClassInfo) and b.qualname == E + "MemoryDesc")
             for b in repo.bases(pv))
    chk.ob("R19.1", pv.qualname, "program-side access goes through "
           "MemoryDesc", ok, pv.node, "Memory(fmt, r9 + addr)")


def widths(chk, repo):
    pv = repo.cls(C + "PacketVar")
    g, s = pv.methods["get"], pv.methods["set"]
    for meth, f in (("get", g), ("set", s)):
        ok = bool(find("mask = 1 << self.size", f, mode="stmt"))
        chk.ob("R19.2", pv.qualname + "." + meth, "a bit variable is bit "
               "`size` of one byte", ok, f, "mask = 1 << size")
        ok = bool(find("mystruct = struct.Struct('<' + self.size)", f,
                       mode="stmt"))
        chk.ob("R19.2", pv.qualname + "." + meth, "a byte variable is '<' + "
               "its format", ok, f, "little endian, the declared width")
    ok = bool(find("bool(data[start] & mask)", g))
    chk.ob("R19.2", pv.qualname + ".get", "a bit reads as a bool", ok, g,
           "bool(data[start] & mask): comparing two bit variables compares "
           "truth values, not mask values")
    ok = bool(find("mystruct.unpack_from(data, start)[0]", g))
    chk.ob("R19.2", pv.qualname + ".get", "byte variables are unpacked at "
           "start", ok, g, "unpack_from(data, start)")
    ok = bool(find("data[start] |= mask", s, mode="stmt")) and bool(find(
        "data[start] &= ~mask", s, mode="stmt"))
    chk.ob("R19.2", pv.qualname + ".set", "setting a bit touches only that "
           "bit", ok, s, "|= mask / &= ~mask")
    ok = bool(find("s = slice(start, start + mystruct.size)", s,
                   mode="stmt")) and bool(find(
        "data[s] = mystruct.pack(value)", s, mode="stmt"))
    chk.ob("R19.2", pv.qualname + ".set", "byte variables are packed into "
           "exactly their bytes", ok, s, "data[start:start+size]")
    # the program side's bit extraction
    cal = repo.func(E + "Memory.calculate")
    tb = [x for x in walk_no_nested(cal) if isinstance(x, ast.If)
          and match("isinstance(self.fmt, tuple)", x.test) is not None]
    need(len(tb) == 1, "Memory.calculate: bit-field branch not found")
    body = tb[0].body
    masks = [x for x in body if isinstance(x, ast.AugAssign)
             and isinstance(x.op, ast.BitAnd)]
    ok = len(masks) == 1
    fails = []
    if ok:
        ev = Evaluator(repo, cal._module)
        for pos, bits in ((0, 1), (3, 1), (7, 1), (0, 8), (2, 3), (4, 4)):
            try:
                m = ev.eval(masks[0].value, {"self": Obj(None, {
                    "fmt": (pos, bits)})})
            except (Unknown, Raised) as e:
                fails.append(str(e))
                continue
            if m != ((1 << bits) - 1) << pos:
                fails.append(f"field ({pos},{bits}): mask {m:#x}")
    chk.ob("R19.2", E + "Memory.calculate", "a bit field is masked "
           "unconditionally with ((1 << bits) - 1) << pos", ok and not fails,
           masks[0] if masks else tb[0], "; ".join(fails) or
           "the mask statement is at the top level of the bit-field branch: "
           "a field at bit 0 is masked as well, otherwise it reads its "
           "neighbours")
    sh = [x for x in ast.walk(tb[0]) if isinstance(x, ast.AugAssign)
          and isinstance(x.op, ast.RShift)]
    ok = len(sh) == 1 and any(t and match("self.fmt[0] > 0", e) is not None
                              for e, t in path_facts(sh[0])) and match(
        "self.fmt[0]", sh[0].value) is not None
    chk.ob("R19.2", E + "Memory.calculate", "then shifted down by its "
           "position", ok, sh[0] if sh else tb[0], ">>= pos (skipped for "
           "pos 0)")
    st = repo.func(E + "Memory._set")
    ok = bool(find("(pos, bits) = self.fmt", st, mode="stmt"))
    chk.ob("R19.2", E + "Memory._set", "a bit-field format is (position, "
           "bits) on the store side as well", ok, st,
           "same order as PacketVar.fmt_addr's (size, 1)")
    ok = bool(find("value = self | 1 << pos", st, mode="stmt")) and bool(
        find("value = self & ~(1 << pos)", st, mode="stmt"))
    chk.ob("R19.2", E + "Memory._set", "storing a bit is a read-modify-"
           "write of its byte", ok, st, "self | (1 << pos) / self & ~(1 << "
           "pos)")


def descs(chk, repo):
    """R19.3: which (terminal, sync manager, byte, size) a descriptor
    resolves to, by abstract execution of PacketDesc.__get__ and
    ProcessDesc.__get__ on an abstract terminal and on an abstract Struct
    channel (with and without a linked device); PacketVar's constructor is
    a recording stand-in"""
    pd = repo.cls(C + "ProcessDesc")
    kd = repo.cls(C + "PacketDesc")
    st = repo.cls(C + "Struct")
    et = repo.cls(C + "EBPFTerminal")
    smc = repo.cls("ebpfcat.ethercat.SyncManager")
    sm = Evaluator(repo, smc.module, smc).enum_members(smc)
    IN, OUT = sm["IN"], sm["OUT"]
    made = []

    def ctor(ev_, ci_, args, kwargs):
        o = Obj(None, {"args": tuple(args)})
        o.fields["get"] = ("hook", lambda dev, _o=o: ("read by", dev, _o))
        made.append(o)
        return o

    made_desc = {}

    def run_(ci_, fields, inst):
        # one descriptor object per declaration, as in a class body: what
        # it keeps from one access is there at the next, for whichever
        # terminal or channel that is
        key = (ci_.qualname,) + tuple(sorted(fields.items(), key=str))
        ev_ = Evaluator(repo, ci_.module, ci_)
        ev_.ctor_hooks[C + "PacketVar"] = ctor
        me = made_desc.get(key)
        if me is None:
            try:
                me = ev_.construct(ci_, [], dict(fields))
            except (Unknown, Raised):
                me = Obj(ci_, dict(fields))
            for k_, v_ in fields.items():
                me.fields.setdefault(k_, v_)
            made_desc[key] = me
        try:
            return me, ev_.call_function(ci_.methods["__get__"],
                                         [me, inst, Opaque("owner")], cls=ci_)
        except (Unknown, Raised) as e:
            raise AnalysisError(f"R19.3: {ci_.qualname}.__get__ cannot be "
                                f"evaluated: {e}")

    def var_of(r, linked):
        """the PacketVar behind what __get__ returned"""
        if linked is not None and isinstance(r, tuple) and len(r) == 3 \
                and r[0] == "read by" and r[1] is linked:
            return r[2]
        return r if linked is None and isinstance(r, Obj) else None
    bad = {pd.qualname: [], kd.qualname: []}
    pdos = {}
    for b_ in (0, 0x10, 0x20):
        pdos[0x6000 + b_, 1] = (IN, 4 + b_, "H")
        pdos[0x6010 + b_, 1] = (IN, 9 + b_, "H")
        pdos[0x7000 + b_, 2] = (OUT, 2 + b_, 3)
    term = Obj(et, {"position_offset": {OUT: 0, IN: 0, None: 0},
                    "pdos": pdos})
    term2 = Obj(et, {"position_offset": {OUT: 0, IN: 0, None: 0},
                     "pdos": {k_: (v_[0], v_[1] + 100, v_[2])
                              for k_, v_ in pdos.items()}})
    dev = Obj(None, {"_": "device"})
    dev2 = Obj(None, {"_": "device 2"})
    offA = {OUT: 24, IN: 22, None: 0x10}
    offB = {OUT: 48, IN: 44, None: 0x20}
    zero = {OUT: 0, IN: 0, None: 0}
    chanA = Obj(st, {"terminal": term, "device": None,
                     "position_offset": offA})
    chanB = Obj(st, {"terminal": term, "device": None,
                     "position_offset": offB})
    chanAd = Obj(st, {"terminal": term, "device": dev,
                      "position_offset": offA})
    chanBd = Obj(st, {"terminal": term, "device": dev2,
                      "position_offset": offB})
    chanA2 = Obj(st, {"terminal": term2, "device": dev,
                      "position_offset": offA})
    # every declaration is read through every instance, twice, in this
    # order: the second channel after the first, another terminal last
    insts = [(term, zero, term, None, "terminal"),
             (chanA, offA, term, None, "Struct channel 1"),
             (chanB, offB, term, None, "Struct channel 2"),
             (chanAd, offA, term, dev, "linked Struct channel 1"),
             (chanBd, offB, term, dev2, "linked Struct channel 2"),
             (chanA, offA, term, None, "Struct channel 1 again"),
             (term2, zero, term2, None, "another terminal"),
             (chanA2, offA, term2, dev, "linked Struct channel 1 of "
                                        "another terminal")]
    for rnd in (1, 2):
        for inst, off, tm, linked, what in insts:
            for smv, pos, size in ((IN, 1, "23p"), (OUT, 0, 2)):
                me, r = run_(kd, {"sm": smv, "position": pos, "size": size},
                             inst)
                v = var_of(r, linked)
                want = (tm, smv, pos + off[smv], size)
                got = v.fields.get("args") if isinstance(v, Obj) else None
                if got is None or got[0] is not want[0] or tuple(
                        got[1:]) != want[1:]:
                    bad[kd.qualname].append(
                        f"PacketDesc({smv.name}, {pos}, {size!r}) read "
                        f"through {what} (access {rnd}) -> "
                        f"{tuple(got[1:]) if got else r!r}, expected "
                        f"{want[1:]}")
            base = off[None]
            for index, sub, size in ((0x6000, 1, None), (0x6010, 1, "h"),
                                     (0x6010, 1, 0), (0x7000, 2, None)):
                me, r = run_(pd, {"index": index, "subindex": sub,
                                  "size": size}, inst)
                e_sm, e_off, e_size = tm.fields["pdos"][index + base, sub]
                want = (tm, e_sm, e_off, size if size is not None
                        else e_size)
                v = var_of(r, linked)
                got = v.fields.get("args") if isinstance(v, Obj) else None
                if got is None or got[0] is not want[0] or tuple(
                        got[1:]) != want[1:]:
                    bad[pd.qualname].append(
                        f"ProcessDesc({index:#x}, {sub}, {size!r}) read "
                        f"through {what} (access {rnd}) -> "
                        f"{tuple(got[1:]) if got else r!r}, expected "
                        f"{want[1:]}")
    chk.ob("R19.3", pd.qualname + ".__get__", "(sm, offset, size) come from "
           "the PDO table at index + CoE offset, subindex; a declared size "
           "overrides only the size; inside a linked Struct the value is "
           "read for the struct's device", not bad[pd.qualname],
           pd.methods["__get__"], "; ".join(bad[pd.qualname][:2]) or
           "terminal and Struct channel, linked and unlinked (abstract "
           "execution)")
    chk.ob("R19.3", kd.qualname + ".__get__", "position + the channel's "
           "offset for that sync manager, on the struct's terminal; inside "
           "a linked Struct the value is read for the struct's device",
           not bad[kd.qualname], kd.methods["__get__"],
           "; ".join(bad[kd.qualname][:2]) or "terminal and Struct channel, "
           "linked and unlinked (abstract execution)")
    sd = repo.cls(C + "StructDesc")
    init = sd.methods["__init__"]
    chk.analysed(sd.qualname + ".__init__")
    ev = Evaluator(repo, sd.module, sd)
    sm = ev.enum_members(repo.cls("ebpfcat.ethercat.SyncManager"))
    fails = []
    for sm3, sm2, coe in ((0, None, None), (2, None, None), (2, 0, 0),
                          (2, 0, None), (0, 5, 7), (24, 24, 0x10),
                          (3, None, 0)):
        me = Obj(sd)
        try:
            ev.call_function(init, [me, "S", sm3, sm2, coe], cls=sd)
        except (Unknown, Raised) as e:
            raise AnalysisError(f"R19.3: cannot fold StructDesc.__init__: "
                                f"{e}")
        po = me.fields.get("position_offset")
        want = {sm["OUT"]: sm3 if sm2 is None else sm2, sm["IN"]: sm3,
                None: sm3 if coe is None else coe}
        if po != want:
            fails.append(f"Struct({sm3}, {sm2}, {coe}): "
                         f"{ {getattr(k, 'name', k): v for k, v in (po or {}).items()} }")
    chk.ob("R19.3", sd.qualname + ".__init__", "offsets: OUT -> sm2 (default "
           "sm3), IN -> sm3, CoE -> coe (default sm3), explicit zeros kept "
           "(7 rows)", not fails, init, "; ".join(fails[:3]) or
           "`None` means 'not given', 0 is a valid offset")
    g = sd.methods["__get__"]
    ok = bool(find("ret.position_offset = self.position_offset", g,
                   mode="stmt")) and bool(find("ret.terminal = instance", g,
                                               mode="stmt"))
    chk.ob("R19.3", sd.qualname + ".__get__", "a channel struct carries its "
           "offsets and its terminal", ok, g, "one struct object per "
           "terminal instance")
    et = repo.cls(C + "EBPFTerminal")
    try:
        po = ev.class_attr(et, "position_offset")
    except Unknown:
        po = None
    ok = isinstance(po, dict) and set(po.values()) == {0} and len(po) == 3
    chk.ob("R19.3", et.qualname, "variables declared directly on a terminal "
           "have offset 0", ok, et.attr_stmts.get("position_offset", et.node),
           "position_offset = {OUT: 0, IN: 0, None: 0}")


def descriptor_state(chk, repo):
    """R19.4: a PacketVar is one object for every device and every program
    it is used in.  What it keeps beyond its declaration are the two
    accessor closures of the Python path (`set` / `get`, analysed below:
    they capture the position only, for the device they were made for).
    Anything else remembered on it - a Memory object of the program path,
    say, whose format a bit store rewrites - is shared by all later
    uses."""
    pv = repo.cls(C + "PacketVar")
    bad = []
    n = 0
    for name, f in pv.methods.items():
        if not isinstance(f, FUNC) or name in ("__init__", "__set_name__"):
            continue
        n += 1
        for x in walk_no_nested(f):
            t = None
            if isinstance(x, ast.Attribute) and isinstance(
                    x.ctx, (ast.Store, ast.Del)):
                t = x
            elif isinstance(x, ast.Subscript) and isinstance(
                    x.ctx, (ast.Store, ast.Del)):
                t = x.value
            root = t
            while isinstance(root, (ast.Attribute, ast.Subscript)):
                root = root.value
            if t is None or not (isinstance(root, ast.Name)
                                 and root.id == "self"):
                continue
            first = t
            while isinstance(first, (ast.Attribute, ast.Subscript)) and not (
                    isinstance(first, ast.Attribute) and isinstance(
                        first.value, ast.Name)):
                first = first.value
            attr = first.attr if isinstance(first, ast.Attribute) else "?"
            if (name, attr) not in (("set", "set"), ("get", "get")):
                bad.append((x, f"PacketVar.{name} stores `{unparse(x)[:40]}`"))
    chk.ob("R19.4", pv.qualname, "the descriptor keeps nothing but its two "
           "accessor closures", not bad, bad[0][0] if bad else pv.node,
           (bad[0][1] + ": state remembered on the descriptor is shared by "
            "every device and every later access") if bad else
           f"{n} methods")


def closures(chk, repo):
    descriptor_state(chk, repo)
    """R19.4: the slow-path accessors of PacketVar, by abstract execution of
    get() and set() on an abstract device and sync group whose frame is a
    real bytearray: first access, access through the accessor cached on the
    PacketVar, access after the group was restarted (start() installs a
    new frame buffer), access with another device"""
    import struct as _struct
    pv = repo.cls(C + "PacketVar")
    chk.analysed(pv.qualname + ".get", pv.qualname + ".set")
    smc = repo.cls("ebpfcat.ethercat.SyncManager")
    OUT = Evaluator(repo, smc.module, smc).enum_members(smc)["OUT"]
    term = Obj(None, {"_": "terminal"})
    bad = {"value": [], "stale": [], "device": []}
    rows = 0

    def group(base, size=64, fill=0):
        return Obj(None, {"current_data": bytearray([fill]) * size,
                          "pdo_assign": {term: {OUT: base}}})

    def call(me, name, *args):
        ev_ = Evaluator(repo, pv.module, pv)
        f_ = ev_.getattr(me, name)
        return ev_.call(f_, list(args))
    for size, values in (("H", (0x1234, 0xfedc)), ("i", (-5, 70000)),
                         ("B", (7, 200)), ("Q", (1 << 40, 3)),
                         (0, (True, False)), (5, (True, False)),
                         ("f", (2.5, -0.75)), ("d", (1234.0625, 0.5)),
                         ("4s", (b"abcd", b"wx\x00\x00")),
                         ("6p", (b"ab\x00", b"xyz"))):
        for base, pos in ((20, 3), (8, 0)):
            rows += 1
            tag = f"size {size!r} at {base}+{pos}"
            try:
                me = Obj(pv, {"terminal": term, "sm": OUT, "position": pos,
                              "size": size})
                sg = group(base)
                dev = Obj(None, {"sync_group": sg})
                at = base + pos

                def expect(buf, v, before):
                    want = bytearray(before)
                    if isinstance(size, int):
                        if v:
                            want[at] |= 1 << size
                        else:
                            want[at] &= ~(1 << size) & 0xff
                    else:
                        _struct.pack_into("<" + size, want, at, v)
                    return want
                # first write and read
                before = bytes(sg.fields["current_data"])
                call(me, "set", dev, values[0])
                if sg.fields["current_data"] != expect(None, values[0],
                                                       before):
                    bad["value"].append(f"{tag}: first write of "
                                        f"{values[0]!r} gives "
                                        f"{bytes(sg.fields['current_data'])[at-1:at+9].hex()}")
                r = call(me, "get", dev)
                if r != values[0] or type(r) is not type(values[0]):
                    bad["value"].append(f"{tag}: reads back {r!r}")
                # second write through whatever was cached
                before = bytes(sg.fields["current_data"])
                call(me, "set", dev, values[1])
                if sg.fields["current_data"] != expect(None, values[1],
                                                       before):
                    bad["value"].append(f"{tag}: second write of "
                                        f"{values[1]!r}")
                # the group is restarted: a new frame buffer
                old = sg.fields["current_data"]
                sg.fields["current_data"] = bytearray(b"\xaa" * 64) \
                    if not isinstance(size, int) else bytearray(64)
                before = bytes(sg.fields["current_data"])
                old_before = bytes(old)
                call(me, "set", dev, values[0])
                if sg.fields["current_data"] != expect(None, values[0],
                                                       before) or \
                        bytes(old) != old_before:
                    bad["stale"].append(f"{tag}: a write after the restart "
                                        f"does not reach the new frame")
                r = call(me, "get", dev)
                if r != values[0]:
                    bad["stale"].append(f"{tag}: a read after the restart "
                                        f"gives {r!r}")
                # another device (another group, another layout) through
                # the same PacketVar: refused, or served from its own frame
                sg2 = group(base + 7)
                dev2 = Obj(None, {"sync_group": sg2})
                before2 = bytes(sg2.fields["current_data"])
                mine = bytes(sg.fields["current_data"])
                try:
                    call(me, "set", dev2, values[1])
                    at2 = at + 7
                    want2 = bytearray(before2)
                    if isinstance(size, int):
                        if values[1]:
                            want2[at2] |= 1 << size
                        else:
                            want2[at2] &= ~(1 << size) & 0xff
                    else:
                        _struct.pack_into("<" + size, want2, at2, values[1])
                    if sg2.fields["current_data"] != want2 or bytes(
                            sg.fields["current_data"]) != mine:
                        bad["device"].append(
                            f"{tag}: a second device is served with the "
                            f"first device's frame or offset")
                except Raised as e:
                    if not e.what.startswith("AssertionError"):
                        raise
            except (Unknown, Raised) as e:
                raise AnalysisError(f"R19.4: PacketVar accessors cannot be "
                                    f"evaluated ({tag}): {e}")
    chk.floor("R19.4", "accessor scenarios", rows, 16)
    chk.ob("R19.4", pv.qualname + ".set", "slow-path accessors transfer the "
           "declared bytes / bit at pdo_assign[terminal][sm] + position",
           not bad["value"], pv.methods["set"], "; ".join(bad["value"][:2])
           or f"{rows} scenarios: first access and the cached accessor, "
           f"bytes, bits and strings")
    chk.ob("R19.4", pv.qualname + ".set", "the accessors use the sync "
           "group's current frame on every call", not bad["stale"],
           pv.methods["set"], "; ".join(bad["stale"][:2]) + ": a frame "
           "captured when the accessor was built goes stale when the group "
           "is restarted (start() makes a new current_data)"
           if bad["stale"] else "also after a restart of the group")
    chk.ob("R19.4", pv.qualname + ".get", "a cached accessor is specific to "
           "its device", not bad["device"], pv.methods["get"],
           "; ".join(bad["device"][:2]) or "another device is refused (or "
           "served from its own group)")
    tv = repo.cls(C + "TerminalVar")
    why = terminalvar_delegation(repo)
    chk.ob("R19.4", tv.qualname, "device variables delegate to the linked "
           "PacketVar of that device instance", not why, tv.node,
           "; ".join(why[:3]) or "abstract execution of __get__/__set__: a "
           "plain value goes to the linked variable's set(instance, value), "
           "a read comes from its get(instance), linking stores the "
           "variable under the descriptor's name")


def terminalvar_delegation(repo):
    """TerminalVar.__get__/__set__ evaluated (sa/evalx.py) on an abstract
    device instance, for every kind of value: returns the list of
    deviations"""
    tv = repo.cls(C + "TerminalVar")
    pv = repo.cls(C + "PacketVar")
    st = repo.cls(C + "Struct")
    bad = []

    def world():
        calls = []

        def rec(tag):
            def f(*a, **k):
                calls.append((tag, a))
                return Opaque("result of " + tag)
            return ("hook", f)
        var = Obj(pv, {"get": rec("get"), "set": rec("set")})
        return calls, var
    ev = Evaluator(repo, tv.module, tv)
    g, s_ = tv.methods["__get__"], tv.methods["__set__"]
    me = Obj(tv, {"name": "x"})
    try:
        # read through a linked variable
        calls, var = world()
        inst = Obj(None, {"__dict__": {"x": var, "y": Obj(pv, {})}})
        r = ev.call_function(g, [me, inst, Opaque("owner")], cls=tv)
        if [c for c in calls if c[0] == "get"] != [("get", (inst,))] or \
                not isinstance(r, Opaque) or r.label != "result of get" or \
                len(calls) != 1:
            bad.append(f"__get__ of a linked variable: calls {calls}, "
                       f"returns {r!r}")
        # write a plain value through a linked variable
        for value in (5, 0, True, 2.5):
            calls, var = world()
            inst = Obj(None, {"__dict__": {"x": var, "y": Obj(pv, {})}})
            ev.call_function(s_, [me, inst, value], cls=tv)
            if calls != [("set", (inst, value))] or \
                    inst.fields["__dict__"]["x"] is not var:
                bad.append(f"__set__ of the plain value {value!r}: calls "
                           f"{calls}")
        # unlinked: reads as None
        inst = Obj(None, {"__dict__": {}})
        r = ev.call_function(g, [me, inst, Opaque("owner")], cls=tv)
        if r is not None:
            bad.append(f"__get__ of an unlinked variable returns {r!r}")
        # class access
        r = ev.call_function(g, [me, None, Opaque("owner")], cls=tv)
        if r is not me:
            bad.append("__get__ on the class does not return the descriptor")
        # linking
        calls, var = world()
        inst = Obj(None, {"__dict__": {}})
        ev.call_function(s_, [me, inst, var], cls=tv)
        if inst.fields["__dict__"].get("x") is not var or calls:
            bad.append("__set__ of a PacketVar does not link it under the "
                       "descriptor's name")
        sv = Obj(st, {})
        inst = Obj(None, {"__dict__": {}})
        ev.call_function(s_, [me, inst, sv], cls=tv)
        if inst.fields["__dict__"].get("x") is not sv or \
                sv.fields.get("device") is not inst:
            bad.append("__set__ of a Struct does not link it to the device")
        r = ev.call_function(g, [me, inst, Opaque("owner")], cls=tv)
        if r is not sv:
            bad.append("__get__ of a linked Struct does not return it")
    except (Unknown, Raised) as e:
        raise AnalysisError(f"R19.4: TerminalVar cannot be evaluated: {e}")
    return bad

# added rules (appended to the explanation the evidence file carries)
EXPLANATION += (" " + 'Added during the build (DESIGN.md 4.31, second table): descriptor objects are shared across the instances they are read through (terminal, two Struct channels, linked channels, another terminal; every access twice).')
EXPLANATION += (' Added after wave 8: (R19.1) _start stores nothing: no attribute or subscript under self, no container method on an attribute of self, no memo decorator.')
EXPLANATION += (' Added after wave 10: (R19.4) a PacketVar keeps nothing but its two accessor closures; float formats in the accessor scenarios; the immediate-store table of C01 is shared.')
