"""C05 - every program the generator accepts loads into the kernel.

The oracle of this property is the Linux verifier.  What is decided here is
the generator's side of a handful of verifier rules, each a necessary
condition for acceptance."""
import ast

from .common import *
from . import ebpfshared as sh

EXPLANATION = (
    "Decided (the generator's side of verifier rules, each a necessary "
    "condition of acceptance): R05.1 a register without a value is refused "
    "by the generator on every path (AssembleError before any use); R05.2 "
    "a helper call marks r0 defined and exactly r1-r5 clobbered; R05.3 "
    "every map_lookup_elem result is null-checked before it is used as an "
    "address; R05.4 helper argument registers are defined between the "
    "previous call and the call, r1 of map helpers is a map pseudo-fd; "
    "R05.5/R05.9 packet accessors exist only inside a packetSize guard and "
    "the guards are strict (>= / <= delegate with the right off-by-one); "
    "R05.6 the ownership bracket save_registers, folded on the four kinds "
    "of registers, keeps restored registers owned and drops the others; "
    "R05.7 stack slots handed out are aligned to their size and inside the "
    "frame; R05.8 a shared Structure member descriptor takes its base "
    "register from the instance on loads and on stores. Declined: verifier "
    "acceptance itself (stack depth, pointer bounds, liveness across "
    "joins) - no static analysis of the generator reproduces the "
    "verifier.")
ASSUMPTIONS = [
    "verifier rules: R1-R5 are clobbered by helper calls, map lookups "
    "return a nullable pointer, stack access must be aligned, packet "
    "access needs a preceding data_end comparison",
    "helper prototypes from the kernel's bpf.h",
]

E = "ebpfcat.ebpf."
PROTO = {"map_lookup_elem": (1, 2), "map_delete_elem": (1, 2),
         "map_update_elem": (1, 2, 3, 4), "tail_call": (1, 2, 3),
         "ktime_get_ns": (), "get_prandom_u32": ()}


def run(chk, repo):
    chk.doc("R05.1", "uninitialised-register guard")
    chk.doc("R05.2", "clobber bookkeeping of helper calls")
    chk.doc("R05.3", "null check after map lookup")
    chk.doc("R05.4", "helper argument registers are defined")
    chk.doc("R05.5", "packet accessors only inside a guard")
    chk.doc("R05.6", "ownership bracket (save_registers)")
    chk.doc("R05.7", "stack slots aligned and inside the frame")
    chk.doc("R05.8", "Structure members use the instance's base register")
    chk.doc("R05.9", "guard strictness")
    r1(chk, repo)
    r2(chk, repo)
    exit_codes(chk, repo)
    helper_sites(chk, repo)
    helper_brackets(chk, repo)
    register_requests(chk, repo)
    prog_name(chk, repo)
    r6(chk, repo)
    bracket_writes(chk, repo)
    bracket_yields(chk, repo)
    from ..dsl import Ctx as Dsl
    from . import c01
    chk.doc("R01.5", "sign-extension table (shared with C01): no zero or "
                     "negative shift amount is ever emitted")
    c01.r5_signext(chk, repo, Dsl(repo))
    c01.r5_endian(chk, repo, Dsl(repo))
    address_in_dst(chk, repo, Dsl(repo))
    # every variable access stays inside the map value (the verifier
    # checks offsets against value_size): the layout rules of C08
    from . import c08
    chk.doc("R08.2", "array-map slots (shared with C08)")
    chk.doc("R08.3", "one slot per visible variable (shared with C08)")
    c08.layout(chk, repo)
    c08.dedup(chk, repo)
    # ... inside the hash map's value (always the full 8 bytes), and inside
    # the packet guard of a fast sync group (the positions allocate()
    # reports are the datagrams')
    from . import c09, c18
    chk.doc("R09.1", "hash-map cells are 8 bytes wide (shared with C09)")
    c09.cells(chk, repo)
    chk.doc("R18.6", "allocation decoded independently (shared with C18)")
    c18.allocation_semantic(chk, repo)
    sh.watermark_rules(chk, repo, "R05.7")
    sh.member_symmetry(chk, repo, "R05.8")
    sh.guard_strictness(chk, repo, "R05.9")


def exit_codes(chk, repo):
    """R05.1b: exit(code) defines r0 for every member of every exit-code
    enumeration (abstract execution of EBPF.exit): a code that is false in
    a boolean context - value 0 of an IntEnum - must not be mistaken for
    'no code given'"""
    sym = E + "EBPF.exit"
    f = repo.func(sym)
    chk.analysed(sym)
    ec = repo.cls(E + "EBPF")
    enums = []
    for ci in repo.classes.values():
        if ci.name.endswith("ExitCode"):
            enums.append(ci)
    chk.floor("R05.1", "exit-code enumerations", len(enums), 1)
    bad = []
    rows = 0
    for ci in enums:
        ev = Evaluator(repo, f._module, ec)
        for name, mem in ev.enum_members(ci).items():
            log = []
            me = Obj(ec, {"append": ("hook", lambda *a: log.append(a))})
            try:
                ev.call_function(f, [me, mem], cls=ec)
            except (Unknown, Raised) as e:
                raise AnalysisError(f"{sym}: cannot be evaluated for "
                                    f"{ci.name}.{name}: {e}")
            rows += 1
            if me.fields.get("r0", "unset") != mem.value or isinstance(
                    me.fields.get("r0"), bool):
                bad.append(f"exit({ci.name}.{name}) leaves r0 "
                           f"{me.fields.get('r0', 'undefined')!r}")
            if len(log) != 1 or not isinstance(log[0][0], EnumVal) or \
                    log[0][0].name != "EXIT":
                bad.append(f"exit({ci.name}.{name}) emits {log}")
    chk.ob("R05.1", sym, "exit(code) loads r0 with the code's value, for "
           "every member of the exit-code enumerations", not bad, f,
           "; ".join(bad[:3]) or f"{rows} members: an EXIT with r0 never "
           f"written is rejected by the verifier (R0 !read_ok)")


def r1(chk, repo):
    sym = E + "Register.calculate"
    f = repo.func(sym)
    chk.analysed(sym)
    cfg = CFG(f)
    tests = [n for n in cfg.nodes if n.kind == "test" and match(
        "self.no not in self.ebpf.owners", n.expr) is not None]
    need(len(tests) == 1, f"{sym}: owners test not found")
    t = tests[0]
    st = t.stmt
    raises = isinstance(st, ast.If) and any(
        isinstance(s, ast.Raise) and "AssembleError" in unparse(s)
        for s in st.body)
    ys = [n for n in cfg.nodes if n.expr is not None and any(
        isinstance(x, ast.Yield) for x in walk_expr(n.expr))]
    reach = cfg.reach_edges(cfg.entry, lambda a, b, lab: not (
        a is t and lab == "false"))
    ok = raises and ys and not any(y in reach for y in ys)
    chk.ob("R05.1", sym, "a register that has no value is refused on every "
           "path", bool(ok), st, "every yield is reached only through the "
           "false branch of `no not in owners`, whose true branch raises "
           "AssembleError")
    chk.floor("R05.1", "yields of Register.calculate", len(ys), 2)


def r2(chk, repo):
    sym = E + "EBPF.call"
    f = repo.func(sym)
    chk.analysed(sym)
    ok = bool(find("self.append(Opcode.CALL, 0, 0, 0, no.value)", f))
    chk.ob("R05.2", sym, "emits CALL with the helper's number", ok, f,
           "imm = FuncId value")
    ok = bool(find("self.owners.add(0)", f))
    chk.ob("R05.2", sym, "r0 holds the result", ok, f, "owners.add(0)")
    ev = Evaluator(repo, f._module)
    rem = [s for s in walk_no_nested(f) if isinstance(s, ast.AugAssign)
           and unparse(s.target) == "self.owners" and isinstance(
               s.op, ast.Sub)]
    ok = False
    got = None
    if len(rem) == 1:
        try:
            got = set(ev.eval(rem[0].value))
            ok = got == {1, 2, 3, 4, 5}
        except (Unknown, Raised, TypeError):
            pass
    chk.ob("R05.2", sym, "exactly r1-r5 lose their value", ok,
           rem[0] if rem else f, f"removes {sorted(got) if got else '?'}: "
           f"the caller-saved registers of the eBPF ABI; dropping fewer lets "
           f"the generator read a clobbered register, dropping more makes "
           f"it refuse valid programs")
    fid = repo.cls(E + "FuncId")
    mem = ev.enum_members(fid)
    ref = {"map_lookup_elem": 1, "map_update_elem": 2, "map_delete_elem": 3,
           "ktime_get_ns": 5, "get_prandom_u32": 7, "tail_call": 12}
    for n, v in ref.items():
        chk.ob("R05.2", E + "FuncId", f"{n} == {v}", n in mem and
               mem[n].value == v, fid.attr_stmts.get(n, fid.node),
               "helper numbers from the kernel's bpf.h")


def helper_brackets(chk, repo):
    """R05.2b: a helper call returns in r0 and clobbers r1-r5.  Every call
    site is bracketed by save_registers(...) over all of r0..r5 except the
    register the enclosing calculate() computes into (which receives the
    result) - or, where the result is left in r0 for the caller, over
    r1..r5.  The register list is evaluated for every destination."""
    n = 0
    for m in repo.production_modules():
        for c in ast.walk(m.tree):
            if not (isinstance(c, ast.Call) and isinstance(
                    c.func, ast.Attribute) and c.func.attr == "call"
                    and len(c.args) == 1 and (dotted(c.args[0]) or ""
                                              ).startswith("FuncId.")):
                continue
            sym = func_qual(repo, c)
            fn = repo.enclosing_function(c)
            lists = []
            for par in parents(c):
                if isinstance(par, (ast.With, ast.AsyncWith)):
                    for it in par.items:
                        b = match("$e.save_registers($l)", it.context_expr)
                        if b is not None:
                            lists.append(b["l"])
                if par is fn:
                    break
            if c.args[0].attr == "tail_call":
                continue        # does not return
            n += 1
            has_dst = "dst" in param_names(fn) if fn is not None else False
            bad = []
            for dst in (range(0, 10) if has_dst else (None,)):
                saved = set()
                for l in lists:
                    try:
                        saved |= set(Evaluator(repo, c._module).eval(
                            l, {"dst": dst} if has_dst else {}))
                    except (Unknown, Raised, TypeError) as e:
                        raise AnalysisError(f"{sym}: register list "
                                            f"`{unparse(l)}`: {e}")
                want = set(range(6)) - {dst} if has_dst else {1, 2, 3, 4, 5}
                if not want <= saved:
                    bad.append(f"dst={dst}: r{sorted(want - saved)} not "
                               f"saved")
            chk.ob("R05.2", sym, f"helper {c.args[0].attr}: every "
                   f"caller-saved register that is not the result is "
                   f"rescued around the call", not bad, c,
                   "; ".join(bad[:3]) + ": a live value there (r0 holds a "
                   "looked-up pointer, say) is a scalar after the call, and "
                   "the verifier rejects its use" if bad else
                   "save_registers covers r0-r5 except the destination")
    chk.floor("R05.2", "helper call sites bracketed", n, 6)


def address_in_dst(chk, repo, d):
    """R05.4: a call site `with X.get_address(N, ...)` that does not look
    at the register handed back and goes on with register N (a helper
    argument) relies on the address being *computed into* N.
    Memory.get_address hands back whatever its address expression
    calculates into, and a bare Register calculates into itself: a Memory
    made from a register by indexing (MemoryMap.__getitem__) therefore has
    a computed address, never the bare register."""
    sites = []
    for m in repo.production_modules():
        for w in ast.walk(m.tree):
            if isinstance(w, ast.With):
                for it in w.items:
                    c = it.context_expr
                    if isinstance(c, ast.Call) and isinstance(
                            c.func, ast.Attribute) and c.func.attr == \
                            "get_address" and it.optional_vars is None \
                            and c.args and isinstance(c.args[0], ast.Constant):
                        sites.append(c)
    if not sites:
        chk.ob("R05.4", "ebpfcat", "every get_address() call site uses the "
               "register handed back", True, None, "no site relies on the "
               "requested register")
        return
    mm = repo.cls(E + "MemoryMap")
    gi = mm.methods.get("__getitem__")
    need(gi is not None, "MemoryMap.__getitem__ vanished")
    chk.analysed(mm.qualname + ".__getitem__")
    bad = []
    rows = 0
    for long_ in (False, True):
        for no in (0, 3, 5, 9):
            rows += 1
            reg = d.register("r", long_, False, False, no=no)
            me = Obj(mm, {"ebpf": d.ebpf, "fmt": "I"})
            try:
                r = d.ev.call_function(gi, [me, reg], cls=mm)
                a = d.ev.getattr(r, "address")
            except (Unknown, Raised) as e:
                raise AnalysisError(f"{mm.qualname}.__getitem__: cannot be "
                                    f"evaluated: {e}")
            if isinstance(a, Obj) and a.ci is not None and any(
                    isinstance(c_, ClassInfo) and c_.qualname == E +
                    "Register" for c_ in repo.mro(a.ci)):
                bad.append(f"m[r{no}]")
    chk.ob("R05.4", mm.qualname + ".__getitem__", f"memory addressed by a "
           f"bare register gets a computed address ({rows} rows; "
           f"{len(sites)} call site(s) pass the requested register to a "
           f"helper without looking at the one handed back)", not bad, gi,
           (", ".join(bad[:3]) + f": address is the register itself; "
            f"get_address({unparse(sites[0].args[0])}, ...) in "
            f"{func_qual(repo, sites[0])} leaves r"
            f"{unparse(sites[0].args[0])} unwritten and the verifier "
            f"rejects the helper call (R{unparse(sites[0].args[0])} "
            f"!read_ok)") if bad else "addr + 0 is a Sum, calculated into "
           "the requested register")


def register_requests(chk, repo):
    """R05.2: the register a calculate() computes into is the one
    get_free_register() hands out for the caller's request: `dst` reaches
    that call as the parameter, untouched.  A calculate() that picks a
    register on its own (r0, "because the helper leaves the result there")
    takes it without the ownership check - a pointer somebody keeps in it
    is overwritten, and the verifier rejects the later access."""
    n = 0
    for m in repo.production_modules():
        for fn in repo.all_functions([m]):
            if fn.name != "calculate" or "dst" not in param_names(fn):
                continue
            calls = [c for c in walk_no_nested(fn) if isinstance(c, ast.Call)
                     and isinstance(c.func, ast.Attribute) and c.func.attr
                     == "get_free_register" and c.args and isinstance(
                         c.args[0], ast.Name) and c.args[0].id == "dst"]
            if not calls:
                continue
            cfg = CFG(fn)
            rd = ReachingDefs(cfg)
            for c in calls:
                nodes = cfg.nodes_containing(c)
                if not nodes:
                    continue
                n += 1
                redefs = [d_ for d_ in rd.reaching(nodes[0], "dst")
                          if d_.node is not None and not (
                              isinstance(getattr(d_.node, "stmt", None),
                                         (ast.With, ast.withitem)))
                          and getattr(d_.node, "kind", "") not in (
                              "with_enter", "with")
                          # (`dst = None`: no preference - any free
                          # register, still through the ownership check)
                          and not (isinstance(getattr(d_, "value", None),
                                              ast.Constant)
                                   and d_.value.value is None)]
                chk.ob("R05.2", func_qual(repo, c), "get_free_register() is "
                       "asked for the caller's register", not redefs, c,
                       (f"`dst` is re-bound by "
                        f"`{unparse(redefs[0].node.stmt)[:50]}` first: the "
                        f"register is taken whether or not somebody owns "
                        f"it") if redefs else "the parameter itself")
    chk.floor("R05.2", "calculate() methods asking for a free register", n, 5)


def prog_name(chk, repo):
    """R05.10: the program name handed to BPF_PROG_LOAD fits its field
    with the terminating NUL the kernel insists on (EINVAL otherwise - for
    a program that assembled without error).  By abstract execution of
    bpf.prog_load (which names does it pass on, into a field of which
    size) and of EBPF.load (which name does it make of a class name)."""
    import re as _re
    import string as _string
    chk.doc("R05.10", "the program name fits the kernel's name field")
    B_ = "ebpfcat.bpf."
    pl = repo.func(B_ + "prog_load")
    chk.analysed(B_ + "prog_load")
    ptype = Obj(None, {"value": 6})
    field = None
    bad = []
    for n in range(0, 24):
        calls = []

        def bpf_(cmd, fmt, *args, _c=calls):
            _c.append((cmd, fmt, args))
            return (7, None)
        ev = Evaluator(repo, pl._module, funcs={
            "bpf": bpf_, "addrof": lambda x: 0x1000,
            "create_string_buffer": lambda k: Obj(None, {"value": b""})})
        name = ("Ab-_9" * 6)[:n]
        try:
            ev.call_function(pl, [ptype, b"\0" * 16, "GPL"], {"name": name})
        except Raised:
            if calls:
                bad.append(f"a name of {n} characters fails after the "
                           f"syscall")
            continue
        except Unknown as e:
            raise AnalysisError(f"{B_}prog_load: cannot be evaluated: {e}")
        if len(calls) != 1 or calls[0][0] != 5:
            bad.append(f"a name of {n} characters: syscalls {calls}")
            continue
        m_ = _re.search(r"(\d+)s", calls[0][1])
        need(m_ is not None, f"{B_}prog_load: no name field in the format")
        field = int(m_.group(1))
        sent = [a for a in calls[0][2] if isinstance(a, (bytes, bytearray))
                and a and bytes(a) != b"GPL"]
        if n >= field:
            bad.append(f"a name of {n} characters is passed into the "
                       f"{field}-byte field: no room for the terminating "
                       f"NUL, the kernel answers EINVAL")
    chk.ob("R05.10", B_ + "prog_load", "a name is accepted only when it is "
           "shorter than the name field", not bad and field is not None, pl,
           "; ".join(bad[:2]) or f"names of 0..{(field or 1) - 1} characters "
           f"are passed on, longer ones refused before the syscall")
    ec = repo.cls(E + "EBPF")
    ld = ec.methods.get("load")
    need(ld is not None, "EBPF.load vanished")
    chk.analysed(E + "EBPF.load")
    bad = []
    allowed = set(_string.ascii_letters + _string.digits + "-_")
    for n in (1, 5, 14, 15, 16, 17, 31, 40):
        got = []

        def prog_load_(*a, name="", _g=got, **k):
            _g.append(name)
            return (9, None)
        me = Obj(ec, {"name": ("Sync.Group+" * 5)[:n], "prog_type": ptype,
                      "license": "GPL", "kern_version": 0,
                      "assemble": ("hook", lambda: b"")})
        ev = Evaluator(repo, ld._module, ec, funcs={"bpf": Obj(None, {
            "allowed_chars": allowed, "prog_load": ("hook", prog_load_)})})
        try:
            ev.call_function(ld, [me], cls=ec)
        except (Raised, Unknown):
            pass        # the maps of the class are loaded next: not here
        if len(got) != 1:
            raise AnalysisError(f"{E}EBPF.load: prog_load not reached")
        if field is not None and len(got[0]) >= field:
            bad.append(f"a class name of {n} characters is passed on with "
                       f"{len(got[0])}")
        elif not set(got[0]) <= allowed:
            bad.append(f"characters {sorted(set(got[0]) - allowed)} are "
                       f"passed on")
    chk.ob("R05.10", E + "EBPF.load", "the name made of the program's name "
           "is shorter than the field and made of allowed characters",
           not bad, ld, "; ".join(bad[:2]) or "names of 1..40 characters")


def helper_sites(chk, repo):
    sites = []
    for m in repo.production_modules():
        for c in ast.walk(m.tree):
            if isinstance(c, ast.Call):
                b = match("$e.call(FuncId.$f)", c)
                if b is None and isinstance(c.func, ast.Attribute) and \
                        c.func.attr == "call" and len(c.args) == 1 and \
                        (dotted(c.args[0]) or "").startswith("FuncId."):
                    sites.append((c, c.args[0].attr, c.func.value))
    chk.floor("R05.4", "helper call sites", len(sites), 8)
    lookups = 0
    for c, name, recv in sites:
        sym = func_qual(repo, c)
        chk.analysed(sym)
        need(name in PROTO, f"{sym}: helper {name} has no prototype in the "
                            f"rule table")
        st = stmt_of(c)
        blk = block_of(st)
        i = blk.index(st)
        rv = unparse(recv)
        before = blk[:i]
        # cut at the previous helper call in this block
        for j in range(len(before) - 1, -1, -1):
            if any(isinstance(x, ast.Call) and isinstance(
                    x.func, ast.Attribute) and x.func.attr == "call"
                    for x in ast.walk(before[j])):
                before = before[j + 1:]
                break
        defined = set()
        fd = False
        for s in before:
            for x in ast.walk(s):
                if isinstance(x, ast.Assign) and len(x.targets) == 1:
                    t = unparse(x.targets[0])
                    for r in range(1, 6):
                        if t == f"{rv}.r{r}":
                            defined.add(r)
                            if r == 1 and find("$e.get_fd($x)", x.value):
                                fd = True
        # registers handed in by the enclosing protocol
        outer = " ".join(unparse(w.items[0].context_expr) if isinstance(
            w, ast.With) else "" for w in parents(st))
        for r in (3,):
            if f"get_address({r}," in outer:
                defined.add(r)
        if name == "tail_call":
            # r1 is the context restored before, r3 the index
            pre = " ".join(unparse(s) for s in ast.walk(
                repo.enclosing_function(c)) if isinstance(s, ast.Assign)
                and s.lineno < c.lineno)
            for r in (1, 3):
                if f"self.r{r} =" in pre:
                    defined.add(r)
        missing = [r for r in PROTO[name] if r not in defined]
        if name == "tail_call":
            missing = [r for r in missing if r != 1]  # entry context
        chk.ob("R05.4", sym, f"{name}: argument registers "
               f"{list(PROTO[name])} are defined before the call",
               not missing, c, f"r{missing} not assigned between the "
               f"previous helper call and this one" if missing else
               "each argument register is assigned after the last clobber")
        if name.startswith("map_"):
            chk.ob("R05.4", sym, f"{name}: r1 is a map file descriptor",
                   fd, c, "r1 = get_fd(...) (LD_IMM64 with src=1)")
        if name == "map_lookup_elem":
            lookups += 1
            after = blk[i + 1:]
            okn = False
            why = "no null test follows the call"
            for s in after + following_blocks(st):
                if isinstance(s, ast.With):
                    t = s.items[0].context_expr
                    if match(f"{rv}.r0 == 0", t) is not None and find(
                            "$e.exit($*a)", s.body):
                        okn, why = True, "`with r0 == 0: exit()`"
                        break
                    if match(f"{rv}.r0 != 0", t) is not None:
                        okn, why = True, "`with r0 != 0:` encloses the use"
                        break
                if "r0" in unparse(s):
                    why = f"r0 is used in `{unparse(s)[:40]}` before a " \
                          f"null test"
                    break
            chk.ob("R05.3", sym, "lookup result is null-checked before use",
                   okn, c, why + ": the verifier rejects a dereference of "
                   "map_value_or_null")
    chk.floor("R05.3", "map_lookup_elem call sites", lookups, 3)
    # R05.5: packet accessors are only created inside a guard
    acc = []
    for m in repo.production_modules():
        for c in ast.walk(m.tree):
            if isinstance(c, ast.Call) and dotted(c.func) == "Packet" and \
                    len(c.args) == 3 and c._module.name == "ebpfcat.xdp":
                acc.append(c)
    chk.floor("R05.5", "Packet accessor constructions", len(acc), 2)
    for c in acc:
        w = in_with_region(c, lambda e: "e.mA[e.r1 + 4]" in unparse(e))
        chk.ob("R05.5", func_qual(repo, c), "accessors handed out inside "
               "the data_end comparison", w is not None, c,
               "`yield Packet(...)` lies inside the `with` of the "
               "comparison")


def block_of(st):
    p = st._parent
    for fld in ("body", "orelse", "finalbody"):
        b = getattr(p, fld, None)
        if isinstance(b, list) and st in b:
            return b
    return [st]


def following_blocks(st):
    """statements that follow the enclosing with-blocks of st"""
    out = []
    cur = st
    for p in parents(st):
        if isinstance(p, FUNC):
            break
        if isinstance(p, (ast.With, ast.AsyncWith)):
            b = block_of(p)
            if p in b:
                out += b[b.index(p) + 1:]
        cur = p
    return out


REG_VIEWS = ("r", "w", "sr", "sw", "x")


def reg_store_target(t):
    """(view, number expression | int) if the target writes a register"""
    if isinstance(t, ast.Attribute):
        for v in sorted(REG_VIEWS, key=len, reverse=True):
            if t.attr.startswith(v) and t.attr[len(v):].isdigit():
                return v, int(t.attr[len(v):])
    if isinstance(t, ast.Subscript) and isinstance(t.value, ast.Attribute) \
            and t.value.attr in REG_VIEWS:
        n = t.slice
        if isinstance(n, ast.Constant) and isinstance(n.value, int):
            return t.value.attr, n.value
        return t.value.attr, n
    return None


def bracket_yields(chk, repo):
    """the restores of a save_registers bracket are emitted when its `with`
    ends.  Code that hands control to the caller's block (`yield`) from
    inside the bracket puts the caller's code - and the jump targets of
    its Else branches - in front of the restores: a branch taken around
    them leaves r1-r5 clobbered although the generator believes them
    live."""
    n = 0
    bad = []
    for m in repo.production_modules():
        for f in [x for x in ast.walk(m.tree) if isinstance(x, FUNC)]:
            if f.name == "save_registers":
                continue
            for w in walk_no_nested(f):
                if not isinstance(w, ast.With) or not any(
                        isinstance(it.context_expr, ast.Call) and isinstance(
                            it.context_expr.func, ast.Attribute)
                        and it.context_expr.func.attr == "save_registers"
                        for it in w.items):
                    continue
                n += 1
                ys = [y for b in w.body for y in walk_no_nested(b)
                      if isinstance(y, (ast.Yield, ast.YieldFrom))]
                if not ys and len(w.body) == 1:
                    pass
                for y in ys:
                    bad.append((repo.qualname_of(f), y))
    chk.floor("R05.6", "save_registers brackets", n, 6)
    chk.ob("R05.6", "ebpfcat", "no save_registers bracket spans a yield",
           not bad, bad[0][1] if bad else None,
           f"{bad[0][0]}: the caller's block runs before the saved "
           f"registers are restored; a jump to its Else branch skips the "
           f"restores" if bad else f"{n} brackets close before control "
           f"goes back to the caller")


def bracket_writes(chk, repo):
    """inside a save_registers bracket the values of the saved registers
    are parked in *free* registers: the body may only write the helper
    ABI registers r0-r5 (or the one register it excluded from saving)"""
    n = 0
    for m in repo.production_modules():
        for w in ast.walk(m.tree):
            if not isinstance(w, ast.With):
                continue
            items = [it.context_expr for it in w.items if isinstance(
                it.context_expr, ast.Call) and isinstance(
                    it.context_expr.func, ast.Attribute)
                and it.context_expr.func.attr == "save_registers"]
            if not items:
                continue
            n += 1
            excluded = set()
            for c in ast.walk(items[0]):
                if isinstance(c, ast.Compare) and len(c.ops) == 1 and \
                        isinstance(c.ops[0], ast.NotEq):
                    excluded.add(unparse(c.comparators[0]))
                    excluded.add(unparse(c.left))
            bad = []
            for st in ast.walk(w):
                tg = []
                if isinstance(st, ast.Assign):
                    tg = st.targets
                elif isinstance(st, ast.AugAssign):
                    tg = [st.target]
                for t in tg:
                    r = reg_store_target(t)
                    if r is None:
                        continue
                    no = r[1]
                    if isinstance(no, int):
                        if no > 5:
                            bad.append((st, f"r{no}"))
                    elif unparse(no) not in excluded:
                        bad.append((st, unparse(no)))
            chk.ob("R05.6", func_qual(repo, w), f"`with {unparse(items[0])[:48]}`"
                   f": the body writes only r0-r5 or the register it did "
                   f"not save", not bad, bad[0][0] if bad else w,
                   f"`{unparse(bad[0][0])[:60]}` writes register "
                   f"{bad[0][1]} inside the bracket: the saved registers are "
                   f"parked in whatever registers were free, this one may "
                   f"be among them, and the restore then copies the new "
                   f"value over the saved register (r1 = map pointer "
                   f"instead of the context)" if bad else
                   "parked values cannot be overwritten")
    chk.floor("R05.6", "save_registers brackets", n, 8)


def r6(chk, repo):
    sym = E + "EBPF.save_registers"
    f = repo.func(sym)
    chk.analysed(sym)
    ev = Evaluator(repo, f._module)
    ys = [y for y in walk_no_nested(f) if isinstance(y, ast.Yield)]
    need(len(ys) == 1, f"{sym}: expected one yield")
    yl = ys[0].lineno
    setstmts = [s for s in walk_no_nested(f) if isinstance(
        s, (ast.Assign, ast.AugAssign)) and unparse(
            s.targets[0] if isinstance(s, ast.Assign) else s.target) in (
                "self.owners", "oldowners", "registers")]
    pre = [s for s in setstmts if s.lineno < yl]
    post = [s for s in setstmts if s.lineno > yl]
    need(pre and post, f"{sym}: owners bookkeeping not found")
    # kinds: 1 owned & saved, 7 owned & untouched, 2 saved only, 3 neither
    fails = []
    for body_name, body in (("body keeps", lambda o, R: o),
                            ("body clobbers", lambda o, R: o - R),
                            ("body defines", lambda o, R: o | R)):
        me = Obj(None, {"owners": {1, 7, 10}})
        env = {"self": me, "registers": [1, 2]}
        try:
            for s in pre:
                ev.run_stmt(s, env)
            me.fields["owners"] = body(set(me.fields["owners"]), {1, 2})
            for s in post:
                ev.run_stmt(s, env)
        except (Raised, Unknown) as e:
            raise AnalysisError(f"{sym}: cannot fold the bookkeeping: {e}")
        got = set(me.fields["owners"])
        want = {1, 7, 10}
        if got != want:
            fails.append(f"{body_name} them: owners {sorted(got)}, expected "
                         f"{sorted(want)}")
    chk.ob("R05.6", sym, "after the bracket: restored registers owned, "
           "scratch ones free, others unchanged", not fails, f,
           "; ".join(fails) or "folded for the four kinds of registers and "
           "three behaviours of the body; a restored register that is not "
           "owned is handed out as scratch while its value is still needed")
    # helper-call expressions use the bracket
    users = []
    for m in repo.production_modules():
        for c in ast.walk(m.tree):
            if isinstance(c, ast.Call) and isinstance(
                    c.func, ast.Attribute) and c.func.attr == "call" and \
                    len(c.args) == 1 and (dotted(c.args[0]) or "").startswith(
                        "FuncId.") and c.args[0].attr != "tail_call":
                users.append(c)
    for c in users:
        w = in_with_region(c, lambda e: "save_registers" in unparse(e))
        chk.ob("R05.6", func_qual(repo, c), f"{c.args[0].attr} is called "
               f"inside a save_registers bracket", w is not None, c,
               "the caller-saved registers in use survive the call")

# added rules (appended to the explanation the evidence file carries)
EXPLANATION += (" " + 'Added during the build (DESIGN.md 4.31, second table): (R05.2) the save_registers lists around every helper call, evaluated for every destination, cover r0-r5 except the result register; (R05.10) the program name handed to BPF_PROG_LOAD is shorter than the name field (prog_load and EBPF.load by abstract execution).')
EXPLANATION += (' Added after wave 8: (R05.4) a get_address(N, ...) call site that ignores the register handed back relies on MemoryMap.__getitem__ giving bare registers a computed address (8 rows by abstract execution); the byte-swap re-extension table of C01 is shared (no non-positive shift amount).')
EXPLANATION += (" Added after wave 10: (R05.2) get_free_register() in a calculate() is asked for the caller's dst (or None), never for a register picked by the method.")
EXPLANATION += (' Added after the last wave: R09.1 (8-byte hash-map cells) and R18.6 (allocation decoded independently) are shared.')
