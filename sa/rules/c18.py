"""C18 - sync groups give each terminal disjoint, exactly-sized process
data."""
import ast

from .common import *
from . import c11

EXPLANATION = (
    "Added during the build (DESIGN.md 4.31): R18.6 evaluates SyncGroupBase.allocate and everything it calls on 15 groups of abstract terminals and checks the result against an independent description of the frame (bounded, not a proof over all groups). "
    "Decided: (R18.1) reserve-then-advance in every allocate() "
    "implementation (sibling cross-check of EBPFTerminal and the Aerotech "
    "allocator): a region's base is read from the accumulator "
    "(fmmu_in_size, fmmu_out_size, packet.size) before the accumulator is "
    "advanced, FMMU regions advance it by the PDO size that map_fmmu "
    "programs, direct regions by the very next datagram appended, which "
    "carries that region (no other datagram in between), inputs with a read "
    "command through append, outputs with a write command through "
    "append_writer; (R18.2) offsets compose: frame offsets are datagram "
    "position + region offset + datagram header and logical addresses "
    "window base + region offset, from the same (base, offset) pairs, with "
    "positions and bases all coming from one append_fmmu call whose "
    "datagrams are sized by the accumulators; (R18.3) logical windows are "
    "disjoint by construction: MAXSIZE <= logical_addr_inc and 2 x "
    "logical_addr_inc <= the step of every get_fmmu_addr; each allocator "
    "advances before returning; (R18.4) oversize groups are rejected: all "
    "datagrams go through Packet.append, whose size check covers the whole "
    "datagram (shared with C11), and nothing else touches packet.size / "
    "packet.data. Declined: overlap freedom for arbitrary terminal sets as "
    "observed in a parsed frame.")
ASSUMPTIONS = ["FMMU maps pdo_*_sz bytes (Terminal.map_fmmu)"]

C = "ebpfcat.ebpfcat."
READ_CMDS = {"FPRD", "APRD", "LRD", "BRD"}
WRITE_CMDS = {"FPWR", "APWR", "LWR", "BWR"}


def run(chk, repo):
    chk.doc("R18.1", "reserve-then-advance in allocate()")
    chk.doc("R18.2", "offsets compose")
    chk.doc("R18.3", "logical windows disjoint by construction")
    chk.doc("R18.4", "oversize rejected; single writer of packet size")
    allocators(chk, repo)
    compose(chk, repo)
    windows(chk, repo)
    oversize(chk, repo)
    rw_merge(chk, repo)
    # a terminal's window is served by one FMMU of its own: the claim
    # discipline of map_fmmu (shared with C20)
    from . import c20
    c20.run(chk, repo)


def rw_merge(chk, repo):
    """R18.5: a terminal used by several devices is allocated with the OR
    of their read-write flags (an output region is reserved as soon as one
    device writes)"""
    chk.doc("R18.5", "read-write flags of a shared terminal are OR-ed")
    device_flags(chk, repo)
    sym = C + "SyncGroupBase.__init__"
    f = repo.func(sym)
    chk.analysed(sym)
    sg = repo.cls(C + "SyncGroupBase")
    # by abstract execution: devices sharing terminals, in every order
    import itertools
    t1, t2, t3 = (Obj(None, {"position": p_, "name": f"t{p_}"})
                  for p_ in (5, 2, 9))
    maps = [{t1: True, t2: False}, {t1: False, t2: False, t3: True},
            {t2: False, t3: False}]
    want = {t1: True, t2: False, t3: True}
    bad = []
    for order in itertools.permutations(range(3)):
        devs = [Obj(None, {"get_terminals": ("hook", lambda _m=maps[i]:
                                             dict(_m))}) for i in order]
        me = Obj(sg, {})
        try:
            Evaluator(repo, f._module, sg, funcs={
                "defaultdict": ("hook", _defaultdict)}).call_function(
                f, [me, Obj(None, {}), devs], cls=sg)
        except (Unknown, Raised) as e:
            raise AnalysisError(f"{sym}: cannot be evaluated: {e}")
        got = me.fields.get("terminals")
        if not isinstance(got, dict) or {k: bool(v) for k, v in got.items()
                                         } != want:
            shown = {k.fields["name"]: v for k, v in (got or {}).items()} \
                if isinstance(got, dict) else got
            bad.append(f"devices in order {order}: flags {shown}, a "
                       f"terminal written by any device is read-write: "
                       f"{ {k.fields['name']: v for k, v in want.items()} }")
        elif any(d.fields.get("sync_group") is not me for d in devs):
            bad.append("a device is not told its sync group")
    chk.ob("R18.5", sym, "flags of one terminal from several devices are "
           "combined with `or` (6 device orders by abstract execution)",
           not bad, f, "; ".join(bad[:2]) or "t1 written by one of two "
           "devices is read-write whichever comes last" if not bad else
           "; ".join(bad[:2]) + ": a terminal shared by a writing and a "
           "read-only device gets no output region, and the writer's "
           "variables have no place in the frame")


def device_flags(chk, repo):
    """R18.5, one step earlier: Device.get_terminals reports a terminal as
    read-write as soon as one of the device's variables on it is an output
    (by abstract execution on devices with several variables per terminal,
    in every order)"""
    import itertools
    sym = C + "Device.get_terminals"
    dc = repo.cls(C + "Device")
    f = dc.methods.get("get_terminals")
    need(f is not None, f"{sym}: vanished")
    chk.analysed(sym)
    pvc = repo.cls(C + "PacketVar")
    stc = repo.cls(C + "Struct")
    smc = repo.cls("ebpfcat.ethercat.SyncManager")
    mem = Evaluator(repo, smc.module).enum_members(smc)
    OUT, IN = mem["OUT"], mem["IN"]
    t1, t2 = (Obj(None, {"position": p_, "name": f"t{p_}"}) for p_ in (5, 2))
    vars_ = [("a", pvc, t1, OUT), ("b", pvc, t1, IN), ("c", stc, t1, IN),
             ("d", pvc, t2, IN), ("e", stc, t2, IN)]
    want = {t1: True, t2: False}
    bad = []
    rows = 0
    for order in itertools.permutations(range(len(vars_))):
        rows += 1
        me = Obj(dc, {"unrelated": 5})
        for i in order:
            nm, ci, t, sm = vars_[i]
            me.fields[nm] = Obj(ci, {"terminal": t, "sm": sm})
        try:
            got = Evaluator(repo, f._module, dc, funcs={
                "defaultdict": ("hook", _defaultdict)}).call_function(
                f, [me], cls=dc)
        except (Unknown, Raised) as e:
            raise AnalysisError(f"{sym}: cannot be evaluated: {e}")
        if not isinstance(got, dict) or {k: bool(v) for k, v in got.items()
                                         } != want:
            shown = {k.fields["name"]: v for k, v in got.items()} \
                if isinstance(got, dict) else got
            bad.append(f"variables declared in order "
                       f"{[vars_[i][0] for i in order]}: {shown}")
            if len(bad) > 3:
                break
    chk.ob("R18.5", sym, f"a terminal is read-write as soon as one variable "
           f"of the device on it is an output ({rows} orders of five "
           f"variables on two terminals, by abstract execution)", not bad, f,
           "; ".join(bad[:2]) + (": the flag of whichever variable comes "
                                 "last decides - no output region is "
                                 "reserved for the one that is written"
                                 if bad else "") or "t5: True, t2: False")


class _DD(dict):
    def __init__(self, factory):
        super().__init__()
        self.factory = factory

    def __missing__(self, key):
        v = self[key] = self.factory()
        return v


def _defaultdict(factory=None, *a):
    """collections.defaultdict for the abstract run: the factory is an
    evaluator-level function"""
    if isinstance(factory, tuple) and factory and factory[0] == "function":
        body = factory[2].body if isinstance(factory[2], ast.Lambda) \
            else None
        if isinstance(body, ast.Constant):
            return _DD(lambda _v=body.value: _v)
    if isinstance(factory, tuple) and factory[:1] == ("pyfunc",):
        return _DD(factory[1])
    if isinstance(factory, tuple) and factory[:1] == ("type",):
        return _DD(factory[1])
    raise Unknown("defaultdict factory")


def allocation_semantic(chk, repo, rule="R18.6"):
    """the allocation of a sync group, by abstract execution
    (sa/evalx.py) of SyncGroupBase.allocate - which runs every terminal's
    allocate(), SterilePacket.append / append_writer / append_fmmu - on
    groups of abstract terminals, checked against an independent
    description of the frame: every region of every terminal lies in a
    datagram that addresses exactly that terminal's sync manager (or its
    slice of the FMMU window), with the right length, expected working
    counter and write-enable record"""
    import itertools
    sg = repo.cls(C + "SyncGroupBase")
    et = repo.cls(C + "EBPFTerminal")
    alloc = sg.methods.get("allocate")
    need(alloc is not None, "SyncGroupBase.allocate vanished")
    chk.analysed(sg.qualname + ".allocate", et.qualname + ".allocate")
    smc = repo.cls("ebpfcat.ethercat.SyncManager")
    sm = Evaluator(repo, smc.module, smc).enum_members(smc)
    IN, OUT = sm["IN"], sm["OUT"]
    specs = {
        "A": (1, True, 5, 0x1100, 3, 0x1000, True),
        "B": (2, True, 0, None, 6, 0x1000, True),
        "C": (3, False, 3, 0x1100, 5, 0x1000, True),
        "D": (4, False, 2, 0x1180, 2, 0x1080, False),
        "E": (5, True, 7, 0x1100, 4, 0x1000, False),
        "F": (6, False, 0, None, 7, 0x1000, True),
        # the sibling allocator (terminals.AerotechBase): inputs in the FMMU
        # window (a slice of in_size bytes) plus a one-byte FPRD at the end
        # of the sync manager; outputs in an FPWR datagram of out_size bytes
        # of their own plus a one-byte FPWR at the end of the sync manager
        "G": (7, "aero", 40, 0x1800, 60, 0x1400, True, 12, 20),
        "H": (8, "aero", 30, 0x1800, 50, 0x1400, False, 8, 16),
    }
    groups = [list(p_) for p_ in itertools.permutations("ABCD")][::3] + [
        list("ABCDEF"), list("FEDCBA"), list("ABE"), list("CDF"), ["C"],
        ["A"], list("EB"), list("AGC"), list("GAH"), ["G"], list("CGB")]
    aero = repo.classes.get("ebpfcat.terminals.AerotechBase")
    if aero is None or "allocate" not in aero.methods:
        groups = [g for g in groups if not set(g) & set("GH")]
    LADDR = 0x40000
    bad = []
    rows = 0
    for names in groups:
        terms = {}
        for nm in names:
            pos, fm, isz, ioff, osz, ooff, rw = specs[nm][:7]
            terms[nm] = Obj(aero if fm == "aero" else et, {
                "use_fmmu": fm is True, "pdo_in_sz": isz,
                "pdo_in_off": ioff, "pdo_out_sz": osz,
                "pdo_out_off": ooff, "position": pos})
            if fm == "aero":
                terms[nm].fields.update(in_size=specs[nm][7],
                                        out_size=specs[nm][8])
        me = Obj(sg, {"terminals": {terms[nm]: specs[nm][6]
                                    for nm in names},
                      "ec": Obj(None, {"get_fmmu_addr": (
                          "hook", lambda *a_, **k_: LADDR)})})
        try:
            Evaluator(repo, sg.module, sg).call_function(alloc, [me],
                                                         cls=sg)
        except (Unknown, Raised) as e:
            raise AnalysisError(f"{sg.qualname}.allocate: cannot be "
                                f"evaluated for terminals {names}: {e}")
        rows += 1
        tag = "terminals " + "".join(names)

        def err(msg):
            if len(bad) < 6:
                bad.append(f"{tag}: {msg}")
        pk = me.fields.get("packet")
        pa = me.fields.get("pdo_assign")
        fmaps = me.fields.get("fmmu_maps")
        if not isinstance(pk, Obj) or not isinstance(pa, dict) or \
                not isinstance(fmaps, dict):
            err("allocate left no packet / pdo_assign / fmmu_maps")
            continue
        # independent decoding of the datagram list
        dgs = []
        pos = 16
        for d in pk.fields.get("data", []):
            cmd, data, wkc, idx, *addr = d
            dgs.append({"cmd": cmd.name, "len": len(data), "addr": tuple(
                addr), "cmdpos": pos, "start": pos + 10,
                "wkcpos": pos + 10 + len(data), "end": pos + 12 + len(data),
                "used": False, "idx": idx})
            pos += 12 + len(data)
        counters = pk.fields.get("counters", {})
        fly = [(a, b, c.name) for a, b, c in pk.fields.get("on_the_fly", [])]

        def find_dg(cmd, addr, length):
            for g in dgs:
                if not g["used"] and g["cmd"] == cmd and g["addr"] == addr \
                        and g["len"] == length:
                    g["used"] = True
                    return g
            return None
        def win_in(n):      # bytes of the input window a terminal takes
            sp = specs[n]
            if sp[1] == "aero":
                return sp[7] if sp[2] else 0
            return sp[2] if sp[1] else 0
        sum_in = sum(win_in(n) for n in names)
        sum_out = sum(specs[n][4] for n in names
                      if specs[n][1] is True and specs[n][6])
        n_in = sum(1 for n in names if specs[n][1] and specs[n][2])
        n_out = sum(1 for n in names
                    if specs[n][1] is True and specs[n][6] and specs[n][4])
        lrd = find_dg("LRD", (LADDR,), sum_in) if sum_in else None
        if sum_in and lrd is None:
            err(f"no LRD datagram of {sum_in} bytes at the group's logical "
                f"address")
        lwr = None
        if sum_out:
            cand = [g for g in dgs if g["cmd"] == "LWR" and not g["used"]]
            if len(cand) == 1 and cand[0]["len"] == sum_out and len(
                    cand[0]["addr"]) == 1:
                lwr = cand[0]
                lwr["used"] = True
                lo = lwr["addr"][0]
                if not (lo >= LADDR + sum_in or lo + sum_out <= LADDR):
                    err(f"output window {lo:#x}+{sum_out} overlaps the "
                        f"input window {LADDR:#x}+{sum_in}")
            else:
                err(f"no single LWR datagram of {sum_out} bytes")
        cum_in = cum_out = 0
        for nm in names:
            pos_, fm, isz, ioff, osz, ooff, rw = specs[nm][:7]
            t = terms[nm]
            got = pa.get(t, {})
            gm = fmaps.get(t, {})
            want_keys = set()
            if isz:
                want_keys.add(IN)
            if rw and osz:
                want_keys.add(OUT)
            if set(got) != want_keys:
                err(f"{nm}: regions {sorted(k.name for k in got)}, expected "
                    f"{sorted(k.name for k in want_keys)}")
                continue
            if fm == "aero":
                in_size, out_size = specs[nm][7:9]
                if isz:
                    if lrd is not None and (
                            got[IN] != lrd["start"] + cum_in
                            or gm.get(IN) != LADDR + cum_in):
                        err(f"{nm}: inputs at frame offset {got[IN]}, "
                            f"logical {gm.get(IN)}; expected "
                            f"{lrd['start'] + cum_in}, {LADDR + cum_in}")
                    cum_in += in_size
                    if find_dg("FPRD", (pos_, ioff + isz - 1), 1) is None:
                        err(f"{nm}: no one-byte FPRD at the end of the "
                            f"input sync manager")
                if rw and osz:
                    g = find_dg("FPWR", (pos_, ooff), out_size)
                    g2 = find_dg("FPWR", (pos_, ooff + osz - 1), 1)
                    if g is None or g2 is None:
                        err(f"{nm}: FPWR datagrams of {out_size} and 1 "
                            f"bytes not found")
                    elif got[OUT] != g["start"]:
                        err(f"{nm}: outputs at frame offset {got[OUT]}, "
                            f"its FPWR data starts at {g['start']}")
                    elif any((x["cmdpos"], x["end"], "FPWR") not in fly
                             for x in (g, g2)):
                        err(f"{nm}: an FPWR datagram is not recorded for "
                            f"sterilising / re-enabling")
                if OUT in gm:
                    err(f"{nm}: outputs without FMMU have a logical "
                        f"address")
            elif fm:
                if isz and lrd is not None:
                    if got[IN] != lrd["start"] + cum_in or gm.get(IN) != \
                            LADDR + cum_in:
                        err(f"{nm}: inputs at frame offset {got[IN]}, "
                            f"logical {gm.get(IN)}; expected "
                            f"{lrd['start'] + cum_in}, {LADDR + cum_in}")
                if isz:
                    cum_in += isz
                if rw and osz and lwr is not None:
                    if got[OUT] != lwr["start"] + cum_out or gm.get(OUT) != \
                            lwr["addr"][0] + cum_out:
                        err(f"{nm}: outputs at frame offset {got[OUT]}, "
                            f"logical {gm.get(OUT)}; expected "
                            f"{lwr['start'] + cum_out}, "
                            f"{lwr['addr'][0] + cum_out}")
                if rw and osz:
                    cum_out += osz
            else:
                if gm:
                    err(f"{nm}: a terminal without FMMU has logical "
                        f"addresses {gm}")
                if isz:
                    g = find_dg("FPRD", (pos_, ioff), isz)
                    if g is None:
                        err(f"{nm}: no FPRD datagram ({pos_}, {ioff:#x}) of "
                            f"{isz} bytes")
                    elif got[IN] != g["start"]:
                        err(f"{nm}: inputs at frame offset {got[IN]}, its "
                            f"FPRD data starts at {g['start']}")
                    elif counters.get(g["wkcpos"]) != 1:
                        err(f"{nm}: FPRD expected count "
                            f"{counters.get(g['wkcpos'])}")
                if rw and osz:
                    g = find_dg("FPWR", (pos_, ooff), osz)
                    if g is None:
                        err(f"{nm}: no FPWR datagram ({pos_}, {ooff:#x}) of "
                            f"{osz} bytes")
                    elif got[OUT] != g["start"]:
                        err(f"{nm}: outputs at frame offset {got[OUT]}, "
                            f"its FPWR data starts at {g['start']}")
                    else:
                        if counters.get(g["wkcpos"]) != 1:
                            err(f"{nm}: FPWR expected count "
                                f"{counters.get(g['wkcpos'])}")
                        if (g["cmdpos"], g["end"], "FPWR") not in fly:
                            err(f"{nm}: FPWR datagram is not recorded for "
                                f"sterilising / re-enabling")
        if lrd is not None and counters.get(lrd["wkcpos"]) != n_in:
            err(f"LRD expects {counters.get(lrd['wkcpos'])} terminals, "
                f"{n_in} map inputs")
        if lwr is not None:
            if counters.get(lwr["wkcpos"]) != n_out:
                err(f"LWR expects {counters.get(lwr['wkcpos'])} terminals, "
                    f"{n_out} map outputs")
            if (lwr["cmdpos"], lwr["end"], "LWR") not in fly:
                err("LWR datagram is not recorded for sterilising / "
                    "re-enabling")
        left = [g for g in dgs if not g["used"]]
        if left:
            err(f"datagrams nobody asked for: "
                f"{[(g['cmd'], g['addr'], g['len']) for g in left]}")
        if len(fly) != sum(1 for g in dgs if g["cmd"] in ("FPWR", "LWR")):
            err(f"write-enable records {fly}")
        if set(counters) != {g["wkcpos"] for g in dgs}:
            err("expected working counters are not recorded for every "
                "datagram")
        if pk.fields.get("size") != (dgs[-1]["end"] if dgs else 16):
            err(f"packet size {pk.fields.get('size')}")
    chk.floor(rule, "terminal groups allocated and decoded", rows, 12)
    chk.ob(rule, sg.qualname + ".allocate", "every region lies in the "
           "datagram (or FMMU window slice) of its own terminal and sync "
           "manager; lengths, logical windows, expected counters and "
           "write-enable records agree with the frame", not bad, alloc,
           "; ".join(bad[:3]) or f"{rows} groups of FMMU / direct, "
           f"read-only / read-write, input-less / output-less terminals")


def allocators(chk, repo):
    chk.doc("R18.6", "allocation decoded independently")
    allocation_semantic(chk, repo)
    impls = [ci for ci in repo.classes.values()
             if "allocate" in ci.methods and repo.is_subclass(
                 ci, C + "EBPFTerminal")]
    chk.floor("R18.1", "allocate implementations", len(impls), 2)
    for ci in impls:
        sym = ci.qualname + ".allocate"
        f = ci.methods["allocate"]
        chk.analysed(sym)
        bases = [s for s in walk_no_nested(f) if isinstance(s, ast.Assign)
                 and match("bases[$k]", s.targets[0]) is not None and (
                     dotted(s.targets[0].slice) or "").startswith(
                         "SyncManager.")]
        chk.floor("R18.1", f"regions in {sym}", len(bases), 2)
        for s in bases:
            d = s.targets[0].slice.attr
            v = s.value
            need(isinstance(v, ast.Tuple) and len(v.elts) == 2,
                 f"{sym}: base tuple shape")
            kind = (dotted(v.elts[0]) or "").split(".")[-1]
            acc = unparse(v.elts[1])
            blk = getattr(s._parent, "body", None)
            if blk is None or s not in blk:
                blk = getattr(s._parent, "orelse", [])
            i = blk.index(s)
            nxt = blk[i + 1] if i + 1 < len(blk) else None
            inst = f"{d} region ({kind})"
            if kind in ("FMMU_IN", "FMMU_OUT", "NO_FMMU") and isinstance(
                    v.elts[1], ast.Call):
                # the base comes out of a helper of the packet: not the
                # statements this rule knows; the allocation is decided on
                # its result (R18.6 above)
                chk.notes.append(f"R18.1: {sym}: {inst} takes its base from "
                                 f"`{acc[:40]}`; decided by R18.6")
                continue
            if kind in ("FMMU_IN", "FMMU_OUT"):
                want_acc = "packet.fmmu_in_size" if kind == "FMMU_IN" \
                    else "packet.fmmu_out_size"
                okd = (kind == "FMMU_IN") == (d == "IN")
                adv = isinstance(nxt, ast.AugAssign) and unparse(
                    nxt.target) == want_acc and isinstance(nxt.op, ast.Add)
                size = unparse(nxt.value) if adv else None
                okn = adv and size in (
                    f"self.pdo_{d.lower()}_sz", f"self.{d.lower()}_size")
                chk.ob("R18.1", sym, f"{inst}: base read from {want_acc}, "
                       f"then advanced by the region's size",
                       okd and acc == want_acc and okn, s,
                       f"base {acc}, next statement "
                       f"`{unparse(nxt)[:50] if nxt is not None else ''}`")
                cnt = blk[i + 2] if i + 2 < len(blk) else None
                okc = isinstance(cnt, ast.AugAssign) and unparse(
                    cnt.target) == want_acc.replace("_size", "_count") \
                    and int_const(cnt.value) == 1
                chk.ob("R18.1", sym, f"{inst}: one more terminal expected on "
                       f"the FMMU datagram", okc, s, "count += 1")
            elif kind == "NO_FMMU":
                oka = acc == "packet.size"
                call = None
                if isinstance(nxt, ast.Expr) and isinstance(
                        nxt.value, ast.Call):
                    call = nxt.value
                fn = unparse(call.func) if call is not None else ""
                cmd = (dotted(call.args[0]) or "").split(".")[-1] \
                    if call is not None and call.args else ""
                if d == "IN":
                    okc = fn == "packet.append" and cmd in READ_CMDS
                else:
                    okc = fn == "packet.append_writer" and cmd in WRITE_CMDS
                chk.ob("R18.1", sym, f"{inst}: base is the packet size right "
                       f"before the datagram that carries the region", oka
                       and call is not None, s,
                       f"base {acc}; the next statement is "
                       f"`{unparse(nxt)[:45] if nxt is not None else ''}`: "
                       f"any datagram appended in between moves the region "
                       f"out of its datagram")
                chk.ob("R18.1", sym, f"{inst}: carried by a "
                       f"{'read' if d == 'IN' else 'write'} datagram added "
                       f"through {'append' if d == 'IN' else 'append_writer'}",
                       okc, nxt if nxt is not None else s,
                       f"{fn}({cmd}, ...): output datagrams must be "
                       f"registered as writers so that the sterile copy "
                       f"disables them")
                if call is not None and len(call.args) >= 2:
                    ln = unparse(call.args[1])
                    okl = f"self.pdo_{d.lower()}_sz" in ln or \
                        f"self.{d.lower()}_size" in ln
                    chk.ob("R18.1", sym, f"{inst}: datagram payload has the "
                           f"region's size", okl, call, f"payload {ln}")
            else:
                raise AnalysisError(f"{sym}: unknown base type {kind}")
        # guards: regions only for non-empty PDOs, outputs only read-write
        for s in bases:
            d = s.targets[0].slice.attr
            facts = [unparse(e) for e, t in path_facts(s) if t]
            okg = any(f"self.pdo_{d.lower()}_sz" in x for x in facts) and (
                d == "IN" or any("readwrite" in x for x in facts))
            chk.ob("R18.1", sym, f"{d} region only for a non-empty PDO"
                   f"{' of a read-write terminal' if d == 'OUT' else ''}",
                   okg, s, f"guards: {facts}")


def compose(chk, repo):
    sym = C + "SyncGroupBase.allocate"
    f = repo.func(sym)
    chk.analysed(sym)
    ok = bool(find("(in_pos, out_pos, logical_in, logical_out) = "
                   "self.packet.append_fmmu(self.ec.get_fmmu_addr())", f,
                   mode="stmt"))
    chk.ob("R18.2", sym, "positions and window bases come from one "
           "append_fmmu call", ok, f, "one logical address per group")
    # every terminal's allocate() call comes before the append_fmmu call
    # (which sizes the FMMU datagrams by the accumulators they advance)
    cfg_ = CFG(f)
    allocs = [n for n in cfg_.nodes if n.expr is not None and find(
        "$t.allocate(self.packet, $rw)", n.expr)]
    fm = [n for n in cfg_.nodes if n.expr is not None and find(
        "self.packet.append_fmmu($a)", n.expr)]
    ok = bool(allocs) and len(fm) == 1 and not any(
        a in cfg_.reachable(fm[0]) for a in allocs)
    chk.ob("R18.2", sym, "terminals are allocated before the FMMU datagrams "
           "are sized", ok, f, "append_fmmu sees the final accumulators")
    # (comprehension or explicit loops: the expressions are looked for
    # wherever they stand)
    def table_of(name, at):
        ds = [st.value for st in walk_no_nested(f) if isinstance(
            st, ast.Assign) and len(st.targets) == 1 and isinstance(
                st.targets[0], ast.Name) and st.targets[0].id == name
            and isinstance(st.value, ast.Dict) and st.lineno <= at.lineno]
        return ds[-1] if ds else None

    def guarded_not_nofmmu(e):
        child = e
        for par in parents(e):
            if isinstance(par, ast.comprehension) or isinstance(
                    par, (ast.DictComp, ast.ListComp, ast.SetComp,
                          ast.GeneratorExp)):
                gens = par.generators if not isinstance(
                    par, ast.comprehension) else [par]
                for g in gens:
                    if any(match("base is not BaseType.NO_FMMU", c)
                           is not None for c in g.ifs):
                        return True
            if isinstance(par, FUNC):
                break
            child = par
        return has_fact(path_facts(stmt_of(e)),
                        "base is not BaseType.NO_FMMU", True) or has_fact(
            path_facts(stmt_of(e)), "base is BaseType.NO_FMMU", False)
    def tbl(t, at):
        return t if isinstance(t, ast.Dict) else table_of(t.id, at)
    frame = [(n, b_) for n, b_ in find(
        "$t[base] + off + Packet.DATAGRAM_HEADER", f)
        if isinstance(b_["t"], (ast.Name, ast.Dict))]
    ok = len(frame) == 1
    if ok:
        tb = tbl(frame[0][1]["t"], frame[0][0])
        ok = tb is not None and match(
            "{BaseType.NO_FMMU: 0, BaseType.FMMU_IN: in_pos, "
            "BaseType.FMMU_OUT: out_pos}", tb) is not None
    chk.ob("R18.2", sym, "frame offset = datagram position + region offset "
           "+ datagram header", ok, frame[0][0] if frame else f,
           "pdo_assign")
    inner = {id(x) for n, _ in frame for x in ast.walk(n)}
    logical = [(n, b_) for n, b_ in find("$t[base] + off", f)
               if isinstance(b_["t"], (ast.Name, ast.Dict))
               and id(n) not in inner]
    ok = len(logical) == 1
    if ok:
        tb = tbl(logical[0][1]["t"], logical[0][0])
        ok = tb is not None and match(
            "{BaseType.FMMU_IN: logical_in, BaseType.FMMU_OUT: logical_out}",
            tb) is not None and guarded_not_nofmmu(logical[0][0])
    chk.ob("R18.2", sym, "logical address = window base + region offset, "
           "for FMMU regions only", ok, logical[0][0] if logical else f,
           "fmmu_maps")
    af = repo.func(C + "SterilePacket.append_fmmu")
    chk.analysed(C + "SterilePacket.append_fmmu")
    ok1 = bool(find("self.append(ECCmd.LRD, b'\\x00' * self.fmmu_in_size, 0,"
                    " self.next_logical_addr, counter=self.fmmu_in_count)",
                    af))
    ok2 = bool(find("self.append_writer(ECCmd.LWR, b'\\x00' * "
                    "self.fmmu_out_size, 0, self.next_logical_addr + "
                    "self.logical_addr_inc, counter=self.fmmu_out_count)",
                    af))
    cfg = CFG(af)
    rets = [n for n in cfg.nodes if n.kind == "return"]
    ok3 = len(rets) == 1 and match(
        "(fmmu_in_pos, fmmu_out_pos, self.next_logical_addr, "
        "self.next_logical_addr + self.logical_addr_inc)",
        rets[0].stmt.value) is not None
    append_fmmu_exec(chk, repo, af)
    if not (ok1 and ok2 and ok3):
        # not the spelling known here: the abstract execution over a grid of
        # accumulator values stands alone
        return compose_rest(chk, repo)
    chk.ob("R18.2", C + "SterilePacket.append_fmmu", "LRD datagram sized by "
           "the input accumulator, expecting one count per terminal", ok1,
           af, "at the window base")
    chk.ob("R18.2", C + "SterilePacket.append_fmmu", "LWR writer datagram "
           "sized by the output accumulator at base + logical_addr_inc", ok2,
           af, "registered as writer")
    rets = [n for n in cfg.nodes if n.kind == "return"]
    ok = len(rets) == 1 and match(
        "(fmmu_in_pos, fmmu_out_pos, self.next_logical_addr, "
        "self.next_logical_addr + self.logical_addr_inc)",
        rets[0].stmt.value) is not None
    rd = ReachingDefs(cfg)
    if ok:
        for nm, cmd in (("fmmu_in_pos", "LRD"), ("fmmu_out_pos", "LWR")):
            ds = rd.reaching(rets[0], nm)
            apps = [n for n in cfg.nodes if n.expr is not None and find(
                f"ECCmd.{cmd}", n.expr)]
            ok = ok and len(ds) == 1 and match("self.size", next(iter(
                ds)).value) is not None and all(
                    cfg.dominates(next(iter(ds)).node, a) or not
                    cfg.reachable(next(iter(ds)).node) & {a} for a in apps)
    chk.ob("R18.2", C + "SterilePacket.append_fmmu", "returned positions "
           "are the packet sizes right before the LRD / LWR datagrams", ok,
           af, "fmmu_in_pos / fmmu_out_pos = self.size before each append")
    compose_rest(chk, repo)


def append_fmmu_exec(chk, repo, af):
    """SterilePacket.append_fmmu by abstract execution: for accumulator
    values on a grid the packet afterwards holds an LRD datagram of the input
    size at the window base (expecting the input count), a sterilised LWR
    datagram of the output size one window above (expecting the output
    count), neither when the size is 0, and the positions returned are
    where these datagrams start"""
    sp = repo.cls(C + "SterilePacket")
    ev = Evaluator(repo, sp.module, sp)
    try:
        inc = ev.class_attr(sp, "logical_addr_inc")
    except Unknown as e:
        raise AnalysisError(f"logical_addr_inc: {e}")
    bad = []
    rows = 0
    for isz in (0, 1, 5, 600):
        for osz in (0, 2, 7, 600):
            for icnt, ocnt in ((0, 0), (1, 3), (4, 2)):
                for laddr in (0x40000, 0x7f800):
                    for pre in (0, 1):
                        rows += 1
                        try:
                            me = ev.construct(sp, [], {})
                            if pre:
                                ev.call(ev.getattr(me, "append"), [
                                    ev.eval(ast.parse(
                                        "ECCmd.FPRD", mode="eval").body),
                                    b"ab", 0, 3, 0x130])
                            me.fields.update(
                                fmmu_in_size=isz, fmmu_out_size=osz,
                                fmmu_in_count=icnt, fmmu_out_count=ocnt)
                            n0 = len(me.fields["data"])
                            f0 = len(me.fields["on_the_fly"])
                            size0 = me.fields["size"]
                            ret = ev.call(ev.getattr(me, "append_fmmu"),
                                          [laddr])
                        except (Unknown, Raised, KeyError) as e:
                            raise AnalysisError(
                                f"{sp.qualname}.append_fmmu: cannot be "
                                f"evaluated: {e}")
                        tag = (f"in {isz}/{icnt}, out {osz}/{ocnt}, base "
                               f"{laddr:#x}")
                        want = []
                        pos = size0
                        ipos = pos
                        if isz:
                            want.append(("LRD", isz, icnt, 0, (laddr,)))
                            pos += 12 + isz
                        opos = pos
                        fly = []
                        if osz:
                            want.append(("LWR", osz, ocnt, 0,
                                         (laddr + inc,)))
                            fly.append((pos, pos + 12 + osz, "LWR"))
                            pos += 12 + osz
                        got = [(d[0].name, len(d[1]), d[2], d[3],
                                tuple(d[4:])) for d in
                               me.fields["data"][n0:]]
                        zero = all(not any(d[1]) for d in
                                   me.fields["data"][n0:])
                        gfly = [(a, b, c.name) for a, b, c in
                                me.fields["on_the_fly"][f0:]]
                        cnt = me.fields.get("counters", {})
                        if got != want or not zero:
                            bad.append(f"{tag}: datagrams {got}, expected "
                                       f"{want}")
                        elif gfly != fly:
                            bad.append(f"{tag}: sterilised {gfly}, "
                                       f"expected {fly}")
                        elif ret != (ipos, opos, laddr, laddr + inc):
                            bad.append(f"{tag}: returns {ret}, expected "
                                       f"{(ipos, opos, laddr, laddr + inc)}")
                        elif (isz and cnt.get(ipos + 10 + isz) != icnt) or (
                                osz and cnt.get(opos + 10 + osz) != ocnt):
                            bad.append(f"{tag}: expected working counters "
                                       f"{cnt}")
    chk.ob("R18.2", C + "SterilePacket.append_fmmu", f"LRD at the window "
           f"base, sterilised LWR one window above, sized by the "
           f"accumulators, positions returned ({rows} cases by abstract "
           f"execution)", not bad, af, "; ".join(bad[:3]) or
           "datagrams, positions and expected counters as described")


def compose_rest(chk, repo):
    si = repo.func(C + "SterilePacket.__init__")
    sp = repo.cls(C + "SterilePacket")
    try:
        me = Evaluator(repo, sp.module, sp).construct(sp, [], {})
    except (Unknown, Raised) as e:
        raise AnalysisError(f"{sp.qualname}(): cannot be evaluated: {e}")
    ok = all(me.fields.get(a) == 0 and type(me.fields.get(a)) is int
             for a in ("fmmu_out_size", "fmmu_in_size", "fmmu_out_count",
                       "fmmu_in_count"))
    chk.ob("R18.2", C + "SterilePacket.__init__", "accumulators start at 0",
           ok, si, "sizes and counts")
    fmmu_registers(chk, repo, "R18.2")


def fmmu_registers(chk, repo, rule, tables=None):
    """Terminal.map_fmmu by abstract execution: the register block written
    before the yield, decoded by the ESC's FMMU layout (logical start u32,
    length u16, start bit, stop bit, physical start u16, physical start
    bit, type, activate), maps exactly pdo_*_sz bytes of the direction asked
    for at the logical address, in the slot whose number is yielded"""
    import struct
    tc = repo.cls("ebpfcat.ethercat.Terminal")
    mf = repo.func(tc.qualname + ".map_fmmu")
    chk.analysed(tc.qualname + ".map_fmmu")
    bad = []
    rows = 0
    for write in (True, False):
        for used in tables or ([None, None], [None, None, None, None],
                               [None], [0x5000, None, None],
                               [None, None, 0x7000]):
            for logical in (0x40000, 0x40800, 0):
                rows += 1
                log = []

                def wr(addr, *args, data=None, _log=log):
                    _log.append(("write", addr, args, data))
                    return None
                me = Obj(tc, {"pdo_out_off": 0x1000, "pdo_out_sz": 5,
                              "pdo_in_off": 0x1180, "pdo_in_sz": 9,
                              "fmmu_used": list(used), "position": 3,
                              "write": ("hook", wr)})
                ev = Evaluator(repo, mf._module, tc, funcs={
                    "__yield__": lambda v, _log=log, _me=None: _log.append(
                        ("yield", v, list(me.fields["fmmu_used"])))})
                tag = (f"write={write}, logical {logical:#x}, table "
                       f"{used}")
                try:
                    ev.call_function(mf, [me, logical, write], cls=tc)
                except Unknown as e:
                    raise AnalysisError(f"{tc.qualname}.map_fmmu: cannot be "
                                        f"evaluated: {e}")
                except Raised as e:
                    # failing is right when no FMMU is free (for outputs:
                    # none of the first two, the only ones searched)
                    if None in (used[:2] if write else used):
                        bad.append(f"{tag}: fails ({e.what}) although a "
                                   f"slot is free")
                    elif me.fields["fmmu_used"] != used or log:
                        bad.append(f"{tag}: fails but leaves table "
                                   f"{me.fields['fmmu_used']} / wrote "
                                   f"{len(log)} registers")
                    continue
                ys = [i for i, x in enumerate(log) if x[0] == "yield"]
                if len(ys) != 1 or not isinstance(log[ys[0]][1], int):
                    bad.append(f"{tag}: yields {[log[i][1] for i in ys]}")
                    continue
                idx = log[ys[0]][1]
                image = {}
                try:
                    for _, addr, args, data in log[:ys[0]]:
                        blob = b""
                        if args:
                            fmt = args[0]
                            blob = struct.pack("<" + fmt, *args[1:])
                        if isinstance(data, (bytes, bytearray)):
                            blob += bytes(data)
                        elif isinstance(data, int):
                            blob += bytes([data])
                        for k, byte in enumerate(blob):
                            image[addr + k] = byte
                except (struct.error, TypeError) as e:
                    bad.append(f"{tag}: register write not packable: {e}")
                    continue
                base = 0x600 + 0x10 * idx
                blk = bytes(image.get(base + k, 0) for k in range(16))
                stray = sorted(a for a in image if not base <= a < base + 16)
                want = struct.pack(
                    "<IHBBHBBB3x", logical, 5 if write else 9, 0, 7,
                    0x1000 if write else 0x1180, 0, 2 if write else 1, 1)
                during = log[ys[0]][2]
                after = {}
                for _, addr, args, data in log[ys[0] + 1:]:
                    try:
                        blob = struct.pack("<" + args[0], *args[1:]) \
                            if args else b""
                    except (struct.error, TypeError):
                        blob = b""
                    if isinstance(data, int):
                        blob += bytes([data])
                    for k, byte in enumerate(blob):
                        after[addr + k] = byte
                if not (0 <= idx < len(used)) or used[idx] is not None:
                    bad.append(f"{tag}: slot {idx} was not free in {used}")
                elif during[idx] != logical or [
                        x for i, x in enumerate(during) if i != idx] != [
                        x for i, x in enumerate(used) if i != idx]:
                    bad.append(f"{tag}: table while mapped {during}")
                elif me.fields["fmmu_used"] != used:
                    bad.append(f"{tag}: table afterwards "
                               f"{me.fields['fmmu_used']}, was {used}")
                elif after.get(base + 0xc) != 0:
                    bad.append(f"{tag}: FMMU {idx} not deactivated on "
                               f"leaving (writes after the yield: "
                               f"{ {hex(a): v for a, v in after.items()} })")
                elif blk != want or stray:
                    g = struct.unpack("<IHBBHBBB3x", blk)
                    bad.append(f"{tag}: FMMU {idx} configured as (logical, "
                               f"length, bit0, bit7, physical, bit, type, "
                               f"active) = {g}, expected "
                               f"{struct.unpack('<IHBBHBBB3x', want)}" + (
                                   f"; writes outside the block at "
                                   f"{[hex(a) for a in stray[:3]]}"
                                   if stray else ""))
    chk.ob(rule, tc.qualname + ".map_fmmu", f"the FMMU maps exactly "
           f"pdo_*_sz bytes of the requested direction at the logical "
           f"address ({rows} cases by abstract execution)", not bad, mf,
           "; ".join(bad[:3]) or "length = the size the allocator advanced "
           "by; register image decoded by the ESC layout")


def windows(chk, repo):
    pk = repo.cls("ebpfcat.ethercat.Packet")
    sp = repo.cls(C + "SterilePacket")
    ev = Evaluator(repo, sp.module, sp)
    try:
        inc = ev.class_attr(sp, "logical_addr_inc")
        mx = ev.class_attr(pk, "MAXSIZE")
    except Unknown as e:
        raise AnalysisError(f"window constants: {e}")
    chk.ob("R18.3", sp.qualname, "MAXSIZE <= logical_addr_inc",
           isinstance(inc, int) and mx <= inc, sp.attr_stmts.get(
               "logical_addr_inc", sp.node),
           f"an input window can hold up to {mx} bytes; the output window "
           f"starts {inc:#x} above its base")
    steps = []
    for q in ("ebpfcat.ethercat.EtherCat.get_fmmu_addr",
              "ebpfcat.lock.FMMULock.get_next_addr"):
        f = repo.func(q)
        chk.analysed(q)
        aug = [s for s in walk_no_nested(f) if isinstance(s, ast.AugAssign)
               and isinstance(s.op, ast.Add)]
        rets = [r for r in walk_no_nested(f) if isinstance(r, ast.Return)]
        ok = len(aug) == 1 and len(rets) == 1 and unparse(
            rets[0].value) == unparse(aug[0].target) and \
            aug[0].lineno < rets[0].lineno
        step = None
        if ok:
            try:
                step = Evaluator(repo, f._module).eval(aug[0].value)
            except (Unknown, Raised):
                ok = False
        chk.ob("R18.3", q, "advances its counter before returning it", ok, f,
               "no two groups get the same window")
        chk.ob("R18.3", q, "step >= 2 x logical_addr_inc",
               isinstance(step, int) and step >= 2 * inc, f,
               f"step {step:#x} vs 2 x {inc:#x}: a group's output window "
               f"must end before the next group's input window"
               if isinstance(step, int) else "step not constant")
    fl = repo.func("ebpfcat.lock.FMMULock.__init__")
    ok = bool(find("self.base_addr = addr << 12 + 10", fl, mode="stmt")) and \
        bool(find("self.base_addr = 1 << 12 + 10", fl, mode="stmt"))
    chk.ob("R18.3", "ebpfcat.lock.FMMULock.__init__", "process windows are "
           "2^22 apart (10 bits of groups x 2^12)", ok, fl,
           "addr << (12 + 10)")


def oversize(chk, repo):
    c11.accounting(chk, repo, "R18.4")
    bad = []
    for m in repo.production_modules():
        for n in ast.walk(m.tree):
            if isinstance(n, (ast.Assign, ast.AugAssign)):
                tg = n.targets if isinstance(n, ast.Assign) else [n.target]
                for t in tg:
                    d = dotted(t) or ""
                    if d.endswith("packet.size") or d.endswith("packet.data"):
                        bad.append(n)
            if isinstance(n, ast.Call) and (dotted(n.func) or "").endswith(
                    "packet.data.append"):
                bad.append(n)
    chk.ob("R18.4", "ebpfcat", "nothing but Packet.append changes a "
           "packet's size or datagram list", not bad, bad[0] if bad else
           repo.module("ebpfcat.ebpfcat").tree,
           f"{len(bad)} direct manipulations" if bad else "exhaustive scan "
           "of the package")

# added rules (appended to the explanation the evidence file carries)
EXPLANATION += (" " + "Added during the build (DESIGN.md 4.31, second table): append_fmmu on a grid of accumulators, map_fmmu's register image decoded by the ESC layout, the flag merge of SyncGroupBase.__init__ for every device order, allocate-before-append_fmmu on the CFG - all by abstract execution or CFG, replacing statement patterns.")
EXPLANATION += (' Added after wave 9: (R18.5) Device.get_terminals for all orders of five variables on two terminals.')
