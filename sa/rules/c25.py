"""C25 - terminal addresses assigned by the master are unique."""
import ast

from .common import *
from ..dataflow import node_defs as node_defs_

EXPLANATION = (
    "Decided, on EtherCat.find_free_address / assigned_address and their "
    "callers: (R25.1) atomic check-then-add: no await lies between the "
    "membership test on used_addresses and the add of the same candidate "
    "(asyncio atomicity), and the add precedes the probe; (R25.2) probe "
    "before hand-out: the only return of a candidate is inside the handler "
    "of EtherCatError raised by a configured-address read (FPRD, register "
    "0x10) at that candidate; a candidate that answered is never returned; "
    "(R25.3) the candidate is drawn from the configured "
    "terminal_addr_range, which is a class-level setting nothing in the "
    "class overwrites per instance; (R25.4) every write of the station "
    "address register 0x10 takes its value from find_free_address or from "
    "the caller's explicit address; (R25.5) 'nobody answered' keeps its "
    "meaning: EtherCatError is raised by the datagram layer only for an "
    "unprocessed datagram (working counter 0); other failures reach the "
    "requester as the exception they are. Declined: uniqueness on simulated "
    "buses under random orderings.")
ASSUMPTIONS = ["a configured-address read of an unused address comes back "
               "with working counter 0"]

E = "ebpfcat.ethercat."


def monotone(chk, repo):
    """R25.7: 'an address once handed out is never handed out again' - the
    set of used addresses only grows.  Nothing in the package removes an
    element or replaces the set."""
    chk.doc("R25.7", "the set of used addresses only grows")
    bad = []
    n = 0
    for m in repo.production_modules():
        for x in ast.walk(m.tree):
            if isinstance(x, ast.Attribute) and x.attr == "used_addresses":
                n += 1
                par = getattr(x, "_parent", None)
                if isinstance(par, ast.Attribute) and par.attr in (
                        "discard", "remove", "clear", "pop",
                        "difference_update", "intersection_update",
                        "symmetric_difference_update"):
                    bad.append((par, f".{par.attr}()"))
                if isinstance(x.ctx, (ast.Store, ast.Del)):
                    f_ = repo.enclosing_function(x)
                    if f_ is None or f_.name != "__init__":
                        bad.append((x, "is re-bound"))
                if isinstance(par, ast.AugAssign) and par.target is x and \
                        not isinstance(par.op, ast.BitOr):
                    bad.append((par, "is reduced in place"))
    chk.floor("R25.7", "uses of used_addresses", n, 3)
    chk.ob("R25.7", E + "EtherCat", "no address is ever taken out of "
           "used_addresses", not bad, bad[0][0] if bad else None,
           (f"used_addresses {bad[0][1]} in "
            f"{repo.where(bad[0][0])}: a released address is drawn again "
            f"and probed as free while the terminal that was given it "
            f"still answers to it (or comes back later)") if bad else
           f"{n} uses: created in __init__, tested, added to")


def free_exec(chk, repo, f, sym):
    """find_free_address() by abstract execution against a bus model: the
    draws of randint are scripted, a configured-address read is answered by
    the terminals of the scenario and fails with EtherCatError elsewhere,
    and at every suspension point a second task looking for an address
    takes the candidate just drawn if this task has not reserved it yet.
    False when the function cannot be evaluated."""
    ec = repo.cls(E + "EtherCat")
    scen = [   # used before, terminals answering, draws
        (set(), set(), [1200]),
        ({1200}, set(), [1200, 1200, 1300]),
        (set(), {1200}, [1200, 1300]),
        ({5, 6}, {7, 8}, [5, 7, 6, 8, 7, 5, 9]),
        (set(), {2000, 2001, 2002}, [2000, 2001, 2000, 2002, 2001, 2003]),
        ({29999}, {1000}, [29999, 1000, 30000]),
    ]
    if chk.tier == "thorough":
        # small-scope exhaustive: every draw sequence of up to 4 draws over
        # three addresses (and a fourth, free one at the end) for every
        # choice of used and answering addresses among them
        import itertools
        abc = (11, 12, 13)
        subsets = [set(c) for k in range(4)
                   for c in itertools.combinations(abc, k)]
        for k in range(0, 5):
            for seq in itertools.product(abc, repeat=k):
                for u_ in subsets:
                    for o_ in subsets:
                        if u_ & o_:
                            continue    # a used address was probed before
                        scen.append((set(u_), set(o_), list(seq) + [14]))
    bad = []
    n = 0
    for used0, occ, draws in scen:
        for rng in ((1000, 30000), (7, 99)) if len(scen) < 100 else (
                (7, 99),):
            n += 1
            used = set(used0)
            todo = list(draws)
            drawn, probes, stolen, rargs = [], [], set(), []

            def ri(*a, _t=todo, _d=drawn, _r=rargs, _k="randint"):
                # the bounds asked for, inclusive, whatever the function
                if _k == "choice":
                    seq = list(a[0]) if a else []
                    _r.append((min(seq), max(seq)) if seq and len(seq) ==
                              max(seq) - min(seq) + 1 else ("choice", ))
                elif _k == "randrange":
                    _r.append((a[0], a[1] - 1) if len(a) == 2 else a)
                else:
                    _r.append(a)
                if not _t:
                    raise Budget("more candidates drawn than the scenario "
                                 "needs")
                _d.append(_t.pop(0))
                return _d[-1]

            def rt(cmd, addr, offset, *args, _u=used, _d=drawn, _p=probes,
                   _s=stolen, _o=occ, **kw):
                if _d and _d[-1] not in _u:
                    _s.add(_d[-1])      # the other task reserves it now
                    _u.add(_d[-1])
                _p.append((getattr(cmd, "name", cmd), addr, offset,
                           addr in _u))
                if addr in _o:
                    return (addr,)
                raise Raised("EtherCatError: datagram was not processed")
            fns = {"randint": ("hook", ri),
                   "randrange": ("hook", lambda *a, _f=ri: _f(
                       *a, _k="randrange")),
                   "choice": ("hook", lambda *a, _f=ri: _f(
                       *a, _k="choice"))}
            try:
                # a master as its constructor leaves it, configured
                # afterwards
                me = Evaluator(repo, f._module, ec, fns).construct(
                    ec, ["eth0"], {})
            except (Unknown, Raised):
                me = Obj(ec, {})
            me.fields.update({"roundtrip": ("hook", rt),
                              "used_addresses": used,
                              "terminal_addr_range": rng})
            try:
                r = Evaluator(repo, f._module, ec, fns).call_function(
                    f, [me], cls=ec)
            except Budget as e:
                r = f"does not end ({e})"
            except Unknown:
                return False
            except Raised as e:
                r = f"raises {e.what}"
            tag = (f"used {sorted(used0)}, terminals at {sorted(occ)}, "
                   f"draws {draws}")
            exp, seen, want = None, set(used0), []
            for d in draws:
                if d in seen:
                    continue
                seen.add(d)
                want.append(("FPRD", d, 0x10, True))
                if d not in occ:
                    exp = d
                    break
            if any(a != rng for a in rargs) or not rargs:
                bad.append(("R25.3", f"{tag}: randint{rargs[:1]} instead of "
                            f"the configured range {rng}"))
            elif r in stolen:
                bad.append(("R25.1", f"{tag}: {r} is handed out although a "
                            f"second task could reserve it at a suspension "
                            f"point before this one did"))
            elif r != exp:
                bad.append(("R25.2", f"{tag}: returns {r!r}, expected "
                            f"{exp}" + (" (a used address)" if r in used0
                                        else " (a terminal answers there)"
                                        if r in occ else "")))
            elif probes != want:
                k = next((i for i, (a, b) in enumerate(zip(probes, want))
                          if a != b), min(len(probes), len(want)))
                got = probes[k] if k < len(probes) else None
                bad.append(("R25.1" if got and got[:3] == want[k][:3]
                            else "R25.2",
                            f"{tag}: probe {k} is {got}, expected "
                            f"{want[k] if k < len(want) else None} "
                            f"(command, address, register, reserved "
                            f"before the probe)"))
            elif not (used0 | set(p[1] for p in want)) <= used:
                bad.append(("R25.1", f"{tag}: used_addresses ends as "
                            f"{sorted(used)}"))
    for rule, what in (
            ("R25.1", "a candidate already in use is skipped, a new one is "
             "reserved before its probe is sent and no second task can "
             "reserve it in between"),
            ("R25.2", "a candidate is returned only after its configured-"
             "address read (FPRD, register 0x10) failed with EtherCatError; "
             "one that answered is never returned"),
            ("R25.3", "candidates are drawn from terminal_addr_range")):
        mine = [w for r_, w in bad if r_ == rule]
        chk.ob(rule, sym, f"{what} ({n} scenarios by abstract execution "
               f"against a bus model)", not mine, f,
               "; ".join(mine[:2]) or "as the reference behaviour")
    return True


def not_processed_only(chk, repo):
    """R25.5, as a who-may-raise rule: find_free_address reads an
    EtherCatError from its probe as "nobody answers at this address".  In
    the datagram layer (the methods of EtherCat that send, receive and
    complete requests) that exception is constructed in one place: for a
    datagram that came back with working counter 0.  Every other failure
    of the layer - a send fault, a frame that is too long, a counter that
    is too high - reaches the requester as something else."""
    ec = repo.cls(E + "EtherCat")
    n = 0
    bad = []
    for ci in [ec] + [c for c in repo.subclasses(ec.qualname)
                      if c is not ec and not c.module.name.endswith("_test")]:
        for name, f in ci.methods.items():
            if not isinstance(f, FUNC):
                continue
            for c in walk_no_nested(f):
                if not (isinstance(c, ast.Call) and (dotted(c.func) or ""
                                                     ).split(".")[-1]
                        == "EtherCatError"):
                    continue
                n += 1
                facts = path_facts(stmt_of(c))
                zero = any(t_ and match("$w == 0", e_) is not None
                           for e_, t_ in facts) or any(
                    (not t_) and match("$w != 0", e_) is not None
                    for e_, t_ in facts) or any(
                    (not t_) and isinstance(e_, ast.Name)
                    for e_, t_ in facts)
                in_layer = name in ("process_packet", "roundtrip_packet",
                                    "sendloop", "datagram_received",
                                    "roundtrip", "connection_made",
                                    "error_received")
                if in_layer and not zero:
                    bad.append((c, f"{ci.qualname}.{name}"))
    chk.floor("R25.5", "EtherCatError constructed in EtherCat classes", n, 1)
    chk.ob("R25.5", ec.qualname, "the datagram layer raises EtherCatError "
           "for an unprocessed datagram (working counter 0) only",
           not bad, bad[0][0] if bad else ec.node,
           (f"{bad[0][1]} constructs `{unparse(bad[0][0])[:50]}` for "
            f"another reason: find_free_address takes it for 'nobody "
            f"answers here' and hands out an address that is in use")
           if bad else f"{n} construction(s), the one in the layer under "
           f"`wkc == 0`")


def run(chk, repo):
    chk.doc("R25.6", "the set of used addresses is per master")
    per_instance_rule(chk, repo, "R25.6", ["ebpfcat.ethercat.EtherCat"], "bookkeeping of one bus "
                      "leaks into another")
    chk.doc("R25.1", "atomic check-then-add")
    chk.doc("R25.2", "probe before hand-out")
    chk.doc("R25.3", "configured range")
    chk.doc("R25.4", "writers of the station address")
    chk.doc("R25.5", "EtherCatError means 'not processed'")
    not_processed_only(chk, repo)
    from . import c12
    c12.frame_answers(chk, repo, "R25.5")
    chk.doc("R12.2", "a probe is answered with the bytes of its own "
                     "datagram (shared with C12)")
    c12.r2(chk, repo)
    monotone(chk, repo)
    sym = E + "EtherCat.find_free_address"
    f = repo.func(sym)
    chk.analysed(sym)
    cfg = CFG(f, raises="await")
    rd = ReachingDefs(cfg)
    # check-then-add, whatever the shape of the search: every path to a
    # `used_addresses.add(x)` comes through the 'absent' branch of a test
    # of x against used_addresses, with no suspension point in between;
    # in find_free_address and in the helpers of the class it calls
    scan = [(sym, f, cfg)]
    eci = repo.cls(E + "EtherCat")
    for c_ in ast.walk(f):
        if isinstance(c_, ast.Call) and isinstance(c_.func, ast.Attribute) \
                and unparse(c_.func.value) == "self":
            _, h_ = repo.lookup(eci, c_.func.attr)
            if isinstance(h_, FUNC) and h_ is not f and find(
                    "self.used_addresses.add($x)", h_):
                scan.append((E + "EtherCat." + h_.name, h_,
                             CFG(h_, raises="await")))
                chk.analysed(scan[-1][0])
    nadds = 0
    for sym_, f_, cfg_ in scan:
        adds0 = [(n, b_["x"]) for n in cfg_.nodes if n.expr is not None
                 for _, b_ in find("self.used_addresses.add($x)", n.expr)]
        nadds += len(adds0)
        for an, x in adds0:
            xs = unparse(x)

            def absent_edge(a, b, lab, _x=xs):
                if a.kind != "test":
                    return False
                if match(f"{_x} in self.used_addresses", a.expr) is not None:
                    return lab not in ("true", "exc")
                if match(f"{_x} not in self.used_addresses",
                         a.expr) is not None:
                    return lab == "true"
                return False
            starts = [cfg_.entry] + [
                n for n in cfg_.nodes if n.expr is not None and n is not an
                and any(isinstance(y, ast.Await) for y in walk_expr(n.expr))]
            # also a re-binding of x makes an earlier test worthless
            starts += [n for n in cfg_.nodes if n.kind in ("stmt", "iter")
                       and any(d.var == xs for d in node_defs_(n))]
            reach = cfg_.reach_edges(starts, lambda a, b, lab:
                                     not absent_edge(a, b, lab))
            ok = an not in reach
            chk.ob("R25.1", sym_, f"`{xs}` is reserved only right after it "
                   f"was tested absent (no await, no re-binding in between)",
                   ok, an.stmt, "if i in used_addresses: continue ... add(i)"
                   if ok else f"used_addresses.add({xs}) is reachable from "
                   f"the entry, an await or a new binding of `{xs}` without "
                   f"passing the test: two tasks assigning addresses "
                   f"concurrently can reserve - and hand out - the same "
                   f"address")
    chk.floor("R25.1", "reservations in find_free_address", nadds, 1)
    if free_exec(chk, repo, f, sym):
        return rest(chk, repo)
    draws = [n for n in cfg.nodes if n.kind == "stmt" and isinstance(
        n.stmt, ast.Assign) and find("randint($*a)", n.stmt.value)]
    need(len(draws) == 1 and isinstance(draws[0].stmt.targets[0], ast.Name),
         f"{sym}: candidate draw not found")
    cand = draws[0].stmt.targets[0].id
    ok = match("randint(*self.terminal_addr_range)", draws[0].stmt.value) \
        is not None
    chk.ob("R25.3", sym, "the candidate is drawn from terminal_addr_range",
           ok, draws[0].stmt, "randint(*self.terminal_addr_range)")
    tests = [n for n in cfg.nodes if n.kind == "test" and (match(
        f"{cand} in self.used_addresses", n.expr) is not None or match(
        f"{cand} not in self.used_addresses", n.expr) is not None)]
    adds = [n for n in cfg.nodes if n.expr is not None and find(
        f"self.used_addresses.add({cand})", n.expr)]
    probes = [n for n in cfg.nodes if n.expr is not None and find(
        f"self.roundtrip(ECCmd.FPRD, {cand}, 16, $*a)", n.expr)]
    need(len(tests) == 1 and len(adds) >= 1 and len(probes) == 1,
         f"{sym}: membership test / add / probe not found")
    t, p = tests[0], probes[0]
    pre = [x for x in adds if x is not p and cfg.dominates(x, p)]
    a = pre[0] if pre else adds[0]
    st = t.stmt
    skip = has_fact(path_facts(a.stmt), f"{cand} in self.used_addresses",
                    False) or has_fact(
        path_facts(a.stmt), f"{cand} not in self.used_addresses", True)
    chk.ob("R25.1", sym, "a candidate that is already in use is skipped",
           skip, st, "if i in used_addresses: continue")
    aw = [m for m in cfg.between(t, a) if m is not t and m.expr is not None
          and any(isinstance(x, ast.Await) for x in walk_expr(m.expr))]
    chk.ob("R25.1", sym, "no await between the membership test and the add",
           not aw and cfg.dominates(t, a), a.stmt,
           f"`{unparse(aw[0].expr)[:40]}` suspends between test and add: "
           f"two tasks initialising terminals concurrently can draw the "
           f"same address and both pass the test" if aw else
           "test and add run without suspension")
    chk.ob("R25.1", sym, "the address is reserved before the probe is sent",
           bool(pre), a.stmt,
           "used_addresses.add(i) precedes the FPRD" if pre else
           "no add dominates the probe: while the probe is in flight the "
           "candidate is not yet reserved and a concurrent caller can pick "
           "it too")
    same_def = {id(d) for d in rd.reaching(t, cand)} == {
        id(d) for d in rd.reaching(a, cand)} == {
            id(d) for d in rd.reaching(p, cand)}
    chk.ob("R25.1", sym, "test, add and probe concern the same candidate",
           same_def, a.stmt, "one definition of the candidate reaches all "
           "three")
    rets = [n for n in cfg.nodes if n.kind == "return"]
    chk.floor("R25.2", "returns of find_free_address", len(rets), 1)
    for r in rets:
        h = None
        for q in parents(r.stmt):
            if isinstance(q, ast.ExceptHandler):
                h = q
                break
        ok = h is not None and h.type is not None and unparse(
            h.type) == "EtherCatError" and unparse(r.stmt.value) == cand
        if ok:
            tr = h._parent
            ok = isinstance(tr, ast.Try) and any(
                p.stmt is s or any(p.stmt is x for x in ast.walk(s))
                for s in tr.body)
        chk.ob("R25.2", sym, "a candidate is handed out only after its probe "
               "failed with EtherCatError", bool(ok), r.stmt,
               "return i inside `except EtherCatError` of the try around "
               "the probe")
    return rest(chk, repo)


def rest(chk, repo):
    # R25.3: the range is class-level configuration
    ec = repo.cls(E + "EtherCat")
    v = ec.attrs.get("terminal_addr_range")
    ev = Evaluator(repo, ec.module, ec)
    rng = None
    try:
        rng = ev.eval(v) if v is not None else None
    except (Unknown, Raised):
        pass
    ok = isinstance(rng, tuple) and len(rng) == 2 and 0 < rng[0] <= rng[1] \
        <= 0xffff
    chk.ob("R25.3", ec.qualname, "terminal_addr_range is a class-level "
           "(min, max) within the 16-bit address space", ok,
           v or ec.node, f"{rng}")
    setters = []
    for ci in [ec] + [c for c in repo.subclasses(ec.qualname) if c is not ec]:
        for m in ci.methods.values():
            for s, val in assigned_values(m, "self.terminal_addr_range"):
                setters.append((ci, m, s))
    chk.ob("R25.3", ec.qualname, "no method overwrites the configured range "
           "per instance", not setters, setters[0][2] if setters else ec.node,
           f"{setters[0][0].qualname}.{setters[0][1].name} assigns "
           f"self.terminal_addr_range: a range configured on the class or a "
           f"subclass is silently replaced" if setters else
           "the class attribute is the only definition")
    # R25.4
    sym2 = E + "EtherCat.assigned_address"
    g = repo.func(sym2)
    chk.analysed(sym2)
    if assigned_exec(chk, repo, g, sym2):
        return assigned_writers(chk, repo)
    rd_ = find("($a,) = await self.roundtrip(ECCmd.APRD, position, 16, "
               "'H', 0)", g, mode="stmt")
    ok = len(rd_) == 1 and isinstance(rd_[0][1]["a"], ast.Name)
    chk.ob("R25.4", sym2, "reads the current station address first", ok, g,
           "APRD 0x10")
    old = rd_[0][1]["a"].id if ok else "ret"

    def zero_side(node):
        """True: only reached when the address read is 0; False: only when
        it is non-zero; None: both"""
        facts = path_facts(node)
        if has_fact(facts, f"{old} == 0", True) or has_fact(
                facts, f"{old} != 0", False) or has_fact(
                facts, f"not {old}", True) or has_fact(facts, old, False):
            return True
        if has_fact(facts, f"{old} != 0", True) or has_fact(
                facts, f"{old} == 0", False) or has_fact(facts, old, True):
            return False
        return None
    fr = find("$b = await self.find_free_address()", g, mode="stmt")
    okf = len(fr) == 1 and isinstance(fr[0][1]["b"], ast.Name)
    new_ = fr[0][1]["b"].id if okf else None
    rets = [r for r in walk_no_nested(g) if isinstance(r, ast.Return)]
    bad = []
    for r in rets:
        side = zero_side(r)
        v = unparse(r.value) if r.value is not None else "None"
        if side is False and v != old:
            bad.append(f"non-zero side returns {v}")
        if side is None and not (v == old and new_ == old):
            bad.append(f"common return of {v}")
    chk.ob("R25.4", sym2, "an existing non-zero address is returned "
           "unchanged", bool(rets) and not bad and okf and zero_side(
               fr[0][0]) is True, g,
           "; ".join(bad) or f"a new address is drawn only when {old} == 0")
    ok = okf
    if ok:
        wr = find(f"self.roundtrip(ECCmd.APWR, position, 16, 'H', {new_})", g)
        ok = len(wr) == 1 and wr[0][0].lineno > fr[0][0].lineno and \
            zero_side(stmt_of(wr[0][0])) is True
        for r in rets:
            side = zero_side(r)
            v = unparse(r.value) if r.value is not None else "None"
            if side is True and v != new_:
                ok = False
            if side is None and v != new_:
                ok = False
    chk.ob("R25.4", sym2, "otherwise writes exactly the free address it "
           "returns", ok, g, "APWR 0x10 <- find_free_address()")
    assigned_writers(chk, repo)


def assigned_exec(chk, repo, g, sym2):
    """assigned_address() by abstract execution: the station address the
    terminal reports is returned when it is not 0; otherwise a free address
    is drawn, written to the terminal (APWR, register 0x10) and returned"""
    ec = repo.cls(E + "EtherCat")
    bad = []
    for cur in (0, 1, 5, 1000, 29999, 65535):
        for pos in (0, 3, -2):
            log = []

            def rt(cmd, position, offset, *args, _l=log, _c=cur, **kw):
                _l.append((getattr(cmd, "name", cmd), position, offset,
                           args))
                if getattr(cmd, "name", None) == "APRD":
                    return (_c,)
                return ()
            me = Obj(ec, {"roundtrip": ("hook", rt),
                          "find_free_address": ("hook", lambda *a: 1234)})
            try:
                r = Evaluator(repo, g._module, ec).call_function(
                    g, [me, pos], cls=ec)
            except (Unknown, Raised):
                return False
            tag = f"terminal at position {pos} reporting address {cur}"
            rd = [x for x in log if x[0] == "APRD"]
            wr = [x for x in log if x[0] != "APRD"]
            if len(rd) != 1 or rd[0][1:3] != (pos, 0x10):
                bad.append(f"{tag}: reads {rd}")
            elif cur and (r != cur or wr):
                bad.append(f"{tag}: returns {r!r}" + (
                    f" and writes {wr}" if wr else ""))
            elif not cur and (r != 1234 or wr != [("APWR", pos, 0x10,
                                                    ("H", 1234))]):
                bad.append(f"{tag}: returns {r!r}, writes {wr}; a free "
                           f"address has to be written to this terminal "
                           f"and returned")
    chk.ob("R25.4", sym2, "an existing non-zero address is returned "
           "unchanged; otherwise exactly the free address drawn is written "
           "and returned (18 cases by abstract execution)", not bad, g,
           "; ".join(bad[:2]) or "APRD 0x10, then APWR 0x10 <- "
           "find_free_address() only for address 0")
    return True


def explicit_addresses(chk, repo):
    """Terminal.initialize(relative, absolute) writes `absolute` to the
    terminal as its station address without consulting used_addresses or
    probing the bus: inside the package it is only ever given the caller's
    own `absolute` parameter (the user's explicit choice) or nothing (a
    free address is found) - never a value computed or read from the bus"""
    n = 0
    for m in repo.production_modules():
        if ".examples" in m.name or m.name.endswith("scripts"):
            continue        # programs of their own: the user's choices
        for c in ast.walk(m.tree):
            if not (isinstance(c, ast.Call) and isinstance(
                    c.func, ast.Attribute) and c.func.attr == "initialize"):
                continue
            fn = repo.enclosing_function(c)
            val = c.args[1] if len(c.args) > 1 else None
            for k in c.keywords:
                if k.arg == "absolute":
                    val = k.value
            n += 1
            ok = val is None or (isinstance(val, ast.Constant)
                                 and val.value is None) or (
                isinstance(val, ast.Name) and fn is not None
                and val.id in param_names(fn) and not assigned_values(
                    fn, val.id))
            chk.ob("R25.4", func_qual(repo, c), "initialize() is given an "
                   "explicit address only from the caller's own parameter",
                   ok, c, "no address / the user's choice forwarded" if ok
                   else f"`absolute={unparse(val)}`: the address is written "
                   f"to the terminal although nothing establishes that it "
                   f"is free, in the configured range and not handed out "
                   f"before")
    chk.floor("R25.4", "initialize() call sites", n, 2)


def assigned_writers(chk, repo):
    explicit_addresses(chk, repo)
    sym2 = E + "EtherCat.assigned_address"
    writers = []
    for m in repo.production_modules():
        if m.name.endswith("scripts"):
            continue
        for c in ast.walk(m.tree):
            if isinstance(c, ast.Call) and (dotted(c.func) or "").endswith(
                    "roundtrip") and len(c.args) >= 3 and unparse(
                        c.args[0]) in ("ECCmd.APWR", "ECCmd.FPWR") and \
                    int_const(c.args[2]) == 0x10:
                writers.append(c)
    chk.floor("R25.4", "writes of register 0x10", len(writers), 2)
    for c in writers:
        q = func_qual(repo, c)
        val = unparse(c.args[-1])
        f2 = repo.enclosing_function(c)
        srcs = set()
        for s, v in assigned_values(f2, val):
            srcs.add(unparse(v))
        ok = q == sym2 or (q == E + "Terminal.initialize" and val ==
                           "absolute" and
                           "await self.ec.find_free_address()" in srcs)
        chk.ob("R25.4", q, f"station address written is `{val}`", ok, c,
               f"value sources: {sorted(srcs) or 'parameter'}")
    # R25.5
    sym3 = E + "EtherCat.process_packet"
    h = repo.func(sym3)
    chk.analysed(sym3)
    errs = {c.name for c in repo.subclasses(E + "EtherCatError")}
    mk = [c for c in ast.walk(h) if isinstance(c, ast.Call) and (dotted(
        c.func) or "").split(".")[-1] in errs]
    ok = len(mk) == 1 and any(t and match("wkc == 0", e) is not None
                              for e, t in path_facts(stmt_of(mk[0])))
    chk.ob("R25.5", sym3, "EtherCatError is created only for a datagram "
           "that came back unprocessed", ok, mk[0] if mk else h,
           f"{len(mk)} construction(s): find_free_address reads "
           f"EtherCatError as 'nobody answers at this address'; any other "
           f"failure wrapped into it makes a used address look free")
    gen = [x for t in ast.walk(h) if isinstance(t, ast.Try)
           for x in t.handlers if x.type is not None and unparse(x.type)
           == "Exception"]
    ok = len(gen) == 1 and gen[0].name is not None and bool(find(
        f"future.set_exception(@{gen[0].name})", gen[0]))
    chk.ob("R25.5", sym3, "other failures reach the requesters as the "
           "exception that occurred", ok, gen[0] if gen else h,
           "future.set_exception(e) with the caught object")

# added rules (appended to the explanation the evidence file carries)
EXPLANATION += (" " + "Added during the build (DESIGN.md 4.31, second table): check-then-add on the CFG whatever the search looks like; assigned_address by abstract execution (18 cases); initialize() is given an explicit address only from the caller's own parameter.")
EXPLANATION += (' Added after refactoring wave 6 / wave 8: find_free_address is decided by abstract execution against a bus model (scripted draws, answering terminals, a second task that takes any candidate this task has not reserved at each suspension point; 12 scenarios), the statement-shape rules being the fallback; the CFG check-then-add rule also covers helpers of the class that reserve.')
EXPLANATION += (' Added after wave 10: (R25.5) who may raise: in the datagram layer EtherCatError is constructed under `wkc == 0` only.')
