"""C13 - datagram field encoding and decoding round-trip."""
import ast

from .common import *

EXPLANATION = (
    "Decided, on EtherCat.roundtrip: (R13.1) every format that is packed, "
    "sized or unpacked starts with the little-endian/no-padding prefix '<' "
    "(the accumulated format and the trailing read-only format), the "
    "trailing format is appended to the accumulated one exactly where "
    "zeros of its size are appended to the payload, and raw data follows "
    "the formatted part; (R13.2) the response is split into formatted head "
    "and raw tail from the front, at calcsize of the format - no slice "
    "bound is a negated length that can be zero (x[:-0] is empty, x[-0:] "
    "is everything); generalised to every slice in ethercat.py; (R13.3) "
    "the result is unpacked with the same format object that sized the "
    "payload. Declined: the value-level round trip itself.")
ASSUMPTIONS = ["struct semantics: '<' means little endian without padding"]

SYM = "ebpfcat.ethercat.EtherCat.roundtrip"


def codec(chk, repo, f):
    """R13.6: what roundtrip() puts on the wire and what it hands back, by
    abstract execution on a family of argument lists (sa/evalx.py; the
    future is a stand-in that is 'answered' with a response of the
    request's length): payload = fields packed little-endian + zeros for a
    trailing read-only format + zeros / raw data; result = the fields
    unpacked with the same formats (+ the raw tail).  Returns True when the
    function is not written in the accumulated-format idiom the structural
    rules R13.1-R13.3 know (they are skipped then)."""
    import struct as _struct
    chk.doc("R13.6", "request payload and decoded result, evaluated")
    ci = repo.cls("ebpfcat.ethercat.EtherCat")
    ecc = repo.cls("ebpfcat.ethercat.ECCmd")
    cmds = Evaluator(repo, ci.module, ci).enum_members(ecc)
    cmd = cmds[sorted(cmds)[0]]
    cases = [
        ((), None), ((), 0), ((), 5), ((), b""), ((), b"xyz"),
        (("H",), None), (("H", 0x1234), None), (("H", 0x1234), b"ab"),
        (("H", 7, "I", 9), None), (("HB", 7, 8, "4s"), None),
        (("H", 7, "H"), None), (("H", 7, "H"), 3), (("B", 1, "H"), b"\x01\x02"),
        (("I",), 4), (("H", 1, "2x", "H"), None), (("q", -5), None),
        (("8s", b"12345678", "H"), None), (("H",), b"ab"),
        ((), 1100), (("H", 1, "1100s"), None), (("1400s",), 2),
    ]
    # the same overall format, split differently into sent fields and
    # read-only tail
    # read-only tails of mixed field widths (native alignment would pad)
    cases += [(("BH",), None), (("H", 7, "HI"), None),
              (("B", 1, "Iq"), b"xy"), (("H4xI",), None), (("BQ",), 2)]
    cases += [(("H", 7, "HB"), None), (("HH", 7, 8, "B"), None),
              (("HHB",), None), (("HHB", 1, 2, 3), None),
              (("H", 9, "H", 10, "B"), None)]
    # raw data handed over in a buffer the caller goes on using
    cases += [((), bytearray(b"raw")), (("H", 1), bytearray(b"xy")),
              ((), bytearray())]
    bad = []
    rows = 0
    # one master for the whole family (a request must not depend on the
    # requests before it), in this order and in the reverse order
    masters = []
    for _ in range(2):
        try:
            m_ = Evaluator(repo, ci.module, ci).construct(ci, ["eth0"], {})
        except (Unknown, Raised):
            m_ = Obj(ci, {})
        masters.append(m_)
    for me, (args, data) in [(masters[0], c) for c in cases] + [
            (masters[1], c) for c in reversed(cases)]:
        fmts = [a for a in args if isinstance(a, str)]
        vals = [a for a in args if not isinstance(a, str)]
        ro = args[-1] if args and isinstance(args[-1], str) else None
        sent_f = "<" + "".join(fmts[:-1] if ro is not None else fmts)
        try:
            want_out = _struct.pack(sent_f, *vals)
        except _struct.error:
            continue
        if ro is not None:
            want_out += bytes(_struct.calcsize("<" + ro))
        full_f = "<" + "".join(fmts)
        if isinstance(data, int):
            want_out += bytes(data)
        elif data is not None:
            want_out += data
        queued = []
        fut = Obj(None, {})

        def put(item, _q=queued, _f=fut):
            _q.append(item)
            out_ = item[1]
            # the bus answers with as many bytes, every one changed
            _f.fields["__await_result__"] = bytes(
                (b ^ 0x5a) & 0xff for b in bytes(out_))
        me.fields["send_queue"] = Obj(None, {"put_nowait": ("hook", put)})
        ev_ = Evaluator(repo, ci.module, ci, funcs={"Future": lambda _f=fut:
                                                    _f})
        rows += 1
        tag = f"roundtrip(cmd, 3, 0x10, {', '.join(repr(a) for a in args)}" \
              f"{', ' if args else ''}data={data!r})" + (
                  " [family in reverse order]" if me is masters[1] else "")
        try:
            r = ev_.call_function(f, [me, cmd, 3, 0x10] + list(args),
                                  {"data": data}, cls=ci)
        except Raised as e:
            bad.append(f"{tag}: raises {e.what[:40]}")
            continue
        except Unknown as e:
            raise AnalysisError(f"{SYM}: cannot be evaluated: {e}")
        if len(queued) != 1 or bytes(queued[0][1]) != want_out or \
                queued[0][0] is not cmd or tuple(queued[0][2:5]) != (
                    0, 3, 0x10) or queued[0][5] is not fut:
            got_ = bytes(queued[0][1]).hex() if queued else None
            bad.append(f"{tag}: queues payload {got_}, expected "
                       f"{want_out.hex()}")
            continue
        if isinstance(data, bytearray) and (queued[0][1] is data or (
                isinstance(queued[0][1], memoryview))):
            bad.append(f"{tag}: the caller's own buffer is queued: what the "
                       f"caller writes into it before the frame is "
                       f"assembled goes onto the wire")
            continue
        resp = fut.fields["__await_result__"]
        if data is None:
            want_r = _struct.unpack(full_f, resp)
        elif args:
            size = _struct.calcsize(full_f)
            want_r = _struct.unpack(full_f, resp[:size]) + (resp[size:],)
        else:
            want_r = resp
        if r != want_r:
            bad.append(f"{tag}: returns {r!r}, expected {want_r!r}")
    chk.floor("R13.6", "argument lists evaluated", rows, 15)
    chk.ob("R13.6", SYM, "the payload is the packed fields, the zeros of a "
           "trailing read-only format and the raw data; the result is "
           "decoded with the same formats", not bad, f,
           "; ".join(bad[:2]) or f"{rows} argument lists (no fields, fields, "
           f"read-only tail, integer / empty / raw data, padding formats)")
    return not bad


def wrappers(chk, repo):
    """Terminal.read / Terminal.write hand their formats, values and raw
    data to EtherCat.roundtrip as they got them (FPRD / FPWR to their own
    position): by abstract execution with a recording roundtrip"""
    tc = repo.cls("ebpfcat.ethercat.Terminal")
    bad = []
    n = 0
    for meth, cmd in (("read", "FPRD"), ("write", "FPWR")):
        f = tc.methods.get(meth)
        if f is None:
            continue
        chk.analysed(tc.qualname + "." + meth)
        for args, kw in ((("H",), {}), (("H", 44), {}), (("H", 7, "I", 9), {}),
                         (("HB", 1, 2, "4s"), {}), ((), {"data": 5}),
                         (("H", 3), {"data": b"xy"}), (("B", 0, "H"),
                                                       {"data": 0})):
            n += 1
            log = []

            def rt(c, pos, off, *a, _l=log, **k):
                _l.append((getattr(c, "name", c), pos, off, a, k))
                return ("result",)
            me = Obj(tc, {"position": 9, "ec": Obj(None, {
                "roundtrip": ("hook", rt)})})
            try:
                r = Evaluator(repo, f._module, tc).call_function(
                    f, [me, 0x1000] + list(args), dict(kw), cls=tc)
            except (Unknown, Raised) as e:
                raise AnalysisError(f"{tc.qualname}.{meth}: cannot be "
                                    f"evaluated: {e}")
            want = [(cmd, 9, 0x1000, tuple(args), dict(kw))]
            if log != want or r != ("result",):
                bad.append(f"{meth}(0x1000, {args}, {kw}) -> roundtrip"
                           f"{log[0][3:] if log else log}")
    chk.ob("R13.7", tc.qualname, f"read / write forward formats, values and "
           f"data unchanged to roundtrip ({n} calls by abstract execution)",
           not bad, tc.methods.get("read") or tc.node, "; ".join(bad[:2]) or
           "FPRD / FPWR at the terminal's position")


def run(chk, repo):
    chk.doc("R13.7", "the terminal-level wrappers are transparent")
    wrappers(chk, repo)
    chk.doc("R13.1", "prefix discipline of all formats in roundtrip")
    chk.doc("R13.2", "no negated-length slice bound; head/tail split from "
                     "the front")
    chk.doc("R13.3", "decode with the format that sized the payload")
    chk.doc("R13.5", "subclasses of EtherCat do not re-implement the "
                     "encoding entry point")
    override_rule(chk, repo, "R13.5", "ebpfcat.ethercat.EtherCat",
                  ["roundtrip"], "the encoding rules checked here for "
                  "EtherCat.roundtrip (empty raw data, read-only tail, "
                  "result shape) no longer describe what callers get")
    f = repo.func(SYM)
    chk.analysed(SYM)
    if not codec(chk, repo, f):
        # the codec does not evaluate correctly (reported above): the
        # structural rules, written for the accumulated-format idiom, say
        # where.  When it does they would only repeat that - or stumble
        # over another spelling of the same thing.
        structural(chk, repo, f)
    from . import c11
    chk.doc("R13.4", "datagram header carries the payload length "
                     "(Packet.assemble: shared with C11 R11.3)")
    c11.assemble_rules(chk, repo, "R13.4")
    # --- R13.2 generalised: every slice in ethercat.py
    m = repo.module("ebpfcat.ethercat")
    n = 0
    for s in ast.walk(m.tree):
        if isinstance(s, ast.Subscript) and isinstance(s.slice, ast.Slice):
            for bound, nm in ((s.slice.lower, "lower"),
                              (s.slice.upper, "upper")):
                if bound is None:
                    continue
                n += 1
                neg = isinstance(bound, ast.UnaryOp) and isinstance(
                    bound.op, ast.USub) and not isinstance(
                        bound.operand, ast.Constant)
                if neg:
                    chk.ob("R13.2", func_qual(repo, s), f"slice bound "
                           f"`{unparse(bound)}` of `{unparse(s)[:40]}`",
                           False, s, "a negated length as a slice bound "
                           "breaks when the length is 0")
    chk.ob("R13.2", "ebpfcat.ethercat", f"{n} slice bounds scanned, none is "
           f"a negated variable length", True, m.tree, "exhaustive scan")


def structural(chk, repo, f):
    cfg = CFG(f)
    rd = ReachingDefs(cfg)
    # --- R13.1
    fmt_defs = [(s, v) for s, v in assigned_values(f, "fmt")]
    need(fmt_defs, f"{SYM}: the accumulated format `fmt` not found")
    for s, v in fmt_defs:
        if isinstance(s, ast.AugAssign):
            ok = isinstance(s.op, ast.Add)
            chk.ob("R13.1", SYM, f"`{unparse(s)}` extends the format", ok, s,
                   "the format only grows by concatenation")
        else:
            ok = isinstance(v, ast.BinOp) and isinstance(v.op, ast.Add) \
                and str_const(v.left) == "<"
            chk.ob("R13.1", SYM, "accumulated format starts with '<'", ok, s,
                   f"fmt = {unparse(v)[:60]}: without the prefix struct "
                   f"uses native alignment and pads between fields")
    n = 0
    for c in calls_in(f):
        name = dotted(c.func)
        if name in ("calcsize", "pack", "unpack") and c.args:
            n += 1
            a = c.args[0]
            ok = (isinstance(a, ast.Name) and a.id == "fmt") or (
                isinstance(a, ast.BinOp) and isinstance(a.op, ast.Add)
                and str_const(a.left) == "<")
            chk.ob("R13.1", SYM, f"{name}({unparse(a)[:30]}, ...) uses a "
                   f"'<' format", ok, c,
                   "format is `fmt` or an explicit '<' + letters")
    chk.floor("R13.1", "pack/unpack/calcsize calls in roundtrip", n, 4)
    # trailing format: appended to fmt where zeros are appended to payload
    zero = [s for s in walk_no_nested(f) if isinstance(s, ast.AugAssign)
            and find("calcsize('<' + args[-1])", s.value)]
    ext = [s for s in walk_no_nested(f) if isinstance(s, ast.AugAssign)
           and isinstance(s.target, ast.Name) and s.target.id == "fmt"
           and match("args[-1]", s.value) is not None]
    ok = len(zero) == 1 and len(ext) == 1 and getattr(
        zero[0], "_parent", None) is getattr(ext[0], "_parent", 1)
    if ok:
        guard = zero[0]._parent
        ok = isinstance(guard, ast.If) and find(
            "isinstance(args[-1], str)", guard.test) != []
    chk.ob("R13.1", SYM, "trailing format appended together with its zeros",
           ok, zero[0] if zero else f,
           "zeros of calcsize('<'+last) go to the payload in the same "
           "branch that appends `last` to the decode format")
    # the placeholders have exactly the requested length, whatever it is
    # (a datagram carries up to 1472 bytes)
    evp = Evaluator(repo, f._module)
    fails = []
    nph = 0
    for st_ in walk_no_nested(f):
        if not (isinstance(st_, ast.AugAssign) and unparse(st_.target)
                == "out"):
            continue
        facts = path_facts(st_)
        if any(t_ and match("isinstance(data, int)", e_) is not None
               for e_, t_ in facts):
            nph += 1
            for n_ in (0, 1, 7, 1024, 1025, 1472):
                try:
                    v_ = evp.eval(st_.value, {"data": n_, "args": ()})
                except (Unknown, Raised) as e:
                    fails.append(f"`{unparse(st_.value)[:40]}`: {e}")
                    break
                if not isinstance(v_, (bytes, bytearray)) or len(v_) != n_ \
                        or any(v_):
                    fails.append(f"`{unparse(st_.value)[:40]}` for {n_} "
                                 f"bytes gives {len(v_) if hasattr(v_, '__len__') else v_!r}")
                    break
        elif find("calcsize($x)", st_.value):
            nph += 1
            for n_ in (1, 2, 1024, 1025, 1400):
                try:
                    v_ = evp.eval(st_.value, {"data": None,
                                              "args": ("H", 5, f"{n_}s")})
                except (Unknown, Raised) as e:
                    fails.append(f"`{unparse(st_.value)[:40]}`: {e}")
                    break
                if not isinstance(v_, (bytes, bytearray)) or len(v_) != n_ \
                        or any(v_):
                    fails.append(f"`{unparse(st_.value)[:40]}` for a "
                                 f"{n_}-byte field gives "
                                 f"{len(v_) if hasattr(v_, '__len__') else v_!r}")
                    break
    if nph:
        chk.ob("R13.1", SYM, "placeholders for data to be read have exactly "
           "the requested length", not fails, f, "; ".join(fails[:3]) or
           "tabulated up to 1472 bytes: a shorter placeholder makes the "
           "terminal return fewer bytes than asked for")
    # payload order: formatted part first, raw data after
    outs = [s for s in walk_no_nested(f) if isinstance(s, (
        ast.Assign, ast.AugAssign)) and unparse(
            s.targets[0] if isinstance(s, ast.Assign) else s.target) == "out"]
    outs.sort(key=lambda s: (s.lineno, s.col_offset))
    order = [("pack" if find("pack($*a)", s.value) else
              "zeros" if find("calcsize($x)", s.value) else
              "data" if "data" in unparse(s.value) else "?") for s in outs]
    ok = order[:1] == ["pack"] and "?" not in order and \
        (order.index("zeros") if "zeros" in order else 1) < min(
            [i for i, o in enumerate(order) if o == "data"] or [99])
    chk.ob("R13.1", SYM, f"payload order {order}", ok, outs[0] if outs else f,
           "formatted fields, then the zeros of the read-only field, then "
           "raw data")
    # --- R13.2 / R13.3
    rets = [r for r in walk_no_nested(f) if isinstance(r, ast.Return)
            and r.value is not None]
    chk.floor("R13.3", "returns in roundtrip", len(rets), 3)
    for r in rets:
        node = cfg.nodes_of(r)[0]
        v = inline_locals(f, r.value, node, rd, stop={"fmt", "ret", "data",
                                                      "args"})
        ups = find("unpack($f, $x)", v)
        for u, b in ups:
            ok = isinstance(b["f"], ast.Name) and b["f"].id == "fmt"
            chk.ob("R13.3", SYM, f"`{unparse(u)[:50]}` decodes with fmt", ok,
                   r, "the format that sized the request decodes the "
                   "response")
            x = b["x"]
            if isinstance(x, ast.Subscript):
                sl = x.slice
                ok2 = isinstance(sl, ast.Slice) and sl.lower is None and \
                    sl.upper is not None and match(
                        "calcsize(fmt)", sl.upper) is not None
                chk.ob("R13.2", SYM, "head = response[:calcsize(fmt)]", ok2,
                       r, f"formatted head is {unparse(x)}: the split must "
                       f"be computed from the front; a negated data length "
                       f"selects nothing when there is no data")
        tails = [s for s in ast.walk(v) if isinstance(s, ast.Subscript)
                 and isinstance(s.slice, ast.Slice) and s.slice.upper is None
                 and s.slice.lower is not None]
        for t in tails:
            ok = match("calcsize(fmt)", t.slice.lower) is not None
            chk.ob("R13.2", SYM, "tail = response[calcsize(fmt):]", ok, r,
                   f"raw tail is {unparse(t)}")
    # which result shape is returned: decided by exactly "was raw data
    # requested" (data is None) and "were there formats" (args)
    ev = Evaluator(repo, f._module)
    fails = []
    rows = 0
    for data in (None, 0, 5, b"", b"xy"):
        for args in ((), ("H",), ("H", 3)):
            rows += 1
            taken = []
            for r in rets:
                # only the tests on the request itself select the shape;
                # other guards (size limits ...) raise or fall through and
                # do not choose between the returns
                facts = [(e, t) for e, t in path_facts(r)
                         if {n.id for n in ast.walk(e)
                             if isinstance(n, ast.Name)} <= {
                                 "data", "args", "isinstance", "int", "len",
                                 "bytes", "str", "None"}]
                try:
                    if all(bool(ev.truth(ev.eval(e, {"data": data,
                                                     "args": args}))) == t
                           for e, t in facts):
                        taken.append(r)
                except (Unknown, Raised) as e:
                    raise AnalysisError(f"R13.3: cannot fold the guard of "
                                        f"`{unparse(r)[:40]}`: {e}")
            if len(taken) != 1:
                fails.append(f"data={data!r}, args={args!r}: {len(taken)} "
                             f"returns selected")
                continue
            v = unparse(taken[0].value)
            has_tail = "+" in v
            plain = isinstance(taken[0].value, ast.Name)
            if data is None:
                want = "formatted"
            elif args:
                want = "formatted+tail"
            else:
                want = "raw"
            got = "raw" if plain else ("formatted+tail" if has_tail
                                       else "formatted")
            if got != want:
                fails.append(f"data={data!r}, args={args!r}: returns the "
                             f"{got} shape, expected {want}")
    chk.ob("R13.3", SYM, f"result shape follows the request ({rows} rows)",
           not fails, rets[0], "; ".join(fails[:3]) or
           "no raw data requested: the unpacked fields; raw data (even "
           "empty or 0 bytes) and formats: fields plus the raw tail; raw "
           "data only: the bytes")
    # fmt reaching the decode is the fully extended one
    for r in rets:
        node = cfg.nodes_of(r)[0]
        if "fmt" in {x.id for x in ast.walk(r.value)
                     if isinstance(x, ast.Name)} or any(
                "fmt" in unparse(d.value) for nm in ("size",)
                for d in rd.reaching(node, nm)
                if isinstance(d.value, ast.AST)):
            ds = rd.reaching(node, "fmt")
            kinds = sorted(d.kind for d in ds)
            chk.ob("R13.3", SYM, f"fmt at `{unparse(r)[:40]}` includes the "
                   f"trailing format", "aug" in kinds and "assign" in kinds,
                   r, f"reaching definitions of fmt: {kinds}")

# added rules (appended to the explanation the evidence file carries)
EXPLANATION += (" " + 'Added during the build (DESIGN.md 4.31, second table): the codec family is run on one master in two orders (no request depends on the requests before it), with differently split equal formats and mixed-width read-only tails.')
EXPLANATION += (" Added after wave 10: raw data handed over in a bytearray is not queued as the caller's own buffer.")
