"""C06 - in-place addition on 4/8-byte variables never loses updates.

A schedule property with a structural core: the update is lossless under
every interleaving iff it is lowered to one atomic read-modify-write
instruction."""
import ast

from .common import *
from . import isa
from ..dsl import Ctx as Dsl
from .c01 import r9_width

EXPLANATION = (
    "Decided: (R06.1) Memory.__iadd__ / __isub__, folded for every format "
    "and every kind of amount (Python int of either sign, DSL expression), "
    "return the in-place-add marker IAdd exactly for the native 4- and "
    "8-byte formats - whatever the amount is - and refuse every other "
    "format (for which no atomic add exists); __isub__ wraps the negated "
    "amount; (R06.2) in Memory._set the IAdd path emits exactly one store-"
    "class instruction, XADD|size, the immediate-store shortcut is "
    "unreachable for it and no load of the destination is emitted; "
    "(R06.3) XADD is the ISA's atomic add; (R06.4) the descriptor routes "
    "hand the IAdd to _set unchanged; (R06.5) the negation used by -= is "
    "emitted in the requested width (shared with C01 R01.9), so the amount "
    "added is exactly the negated operand. Declined: the interleaving "
    "semantics of the atomic instruction (an axiom of the ISA).")
ASSUMPTIONS = ["BPF_STX|BPF_ATOMIC (XADD) is an atomic add for W and DW"]

E = "ebpfcat.ebpf."


def run(chk, repo):
    d = Dsl(repo)
    chk.doc("R06.1", "which in-place updates become an atomic add")
    chk.doc("R06.2", "lowering of the atomic add in Memory._set")
    chk.doc("R06.3", "XADD encoding")
    chk.doc("R06.4", "descriptor routes keep the IAdd marker")
    chk.doc("R06.5", "negated amount computed in the requested width")
    r1(chk, repo, d)
    r2(chk, repo, d)
    r4(chk, repo, d)
    formats_unchanged(chk, repo)
    chk.doc("R06.6", "lookup hands out the map element, not a copy")
    lookup_in_place(chk, repo)
    chk.doc("R01.9", "see R06.5")
    r9_width(chk, repo, d)


def lookup_in_place(chk, repo):
    """R06.6: what `with table.lookup() as (value, Else)` hands out
    addresses the map element the kernel returned (register 0, offset 0) -
    never the staging copy on the stack, on which an atomic add would be
    private to one program instance and lost in the write-back"""
    sym = "ebpfcat.hashmap.TheDict.lookup"
    f = repo.func(sym)
    chk.analysed(sym)
    cfg = CFG(f)
    rd = ReachingDefs(cfg)
    ys = [n for n in cfg.nodes if n.expr is not None and any(
        isinstance(x, ast.Yield) for x in walk_expr(n.expr))]
    chk.floor("R06.6", "yields in TheDict.lookup", len(ys), 1)
    for y in ys:
        yv = [x for x in walk_expr(y.expr) if isinstance(x, ast.Yield)][0]
        v = yv.value
        if isinstance(v, ast.Tuple) and v.elts:
            v = v.elts[0]
        ok = isinstance(v, ast.Name)
        why = f"yields `{unparse(v)}`"
        if ok:
            ds = rd.reaching(y, v.id)
            ok = len(ds) == 1 and next(iter(ds)).kind == "assign" and match(
                "type(self.value)()", next(iter(ds)).value) is not None
            why = f"`{v.id}` is not a fresh object of the value's type"
        if ok:
            for attr in ("base_register", "addr_offset"):
                def sets(n, _a=attr):
                    return isinstance(n.stmt, ast.Assign) and n.kind == \
                        "stmt" and match_stmt(f"{v.id}.{_a} = 0", n.stmt) \
                        is not None
                others = [n for n in cfg.nodes if isinstance(
                    n.stmt, ast.Assign) and n.kind == "stmt" and any(
                        match(f"{v.id}.{attr}", t) is not None
                        for t in n.stmt.targets) and not sets(n)]
                d0 = next(iter(ds)).node
                if others or not cfg.must_pass(d0, sets, targets=[y]):
                    ok = False
                    why = (f"`{v.id}.{attr}` is not 0 on every path to the "
                           f"yield")
                    break
            else:
                why = (f"`{v.id}` = type(self.value)() with base_register "
                       f"= 0, addr_offset = 0")
        chk.ob("R06.6", sym, "the value handed out is the map element "
               "itself (register 0, offset 0)", ok, y.stmt, why + (
                   "" if ok else ": an in-place add inside the block is "
                   "then atomic only on a private copy, and concurrent "
                   "instances overwrite each other's sums when it is "
                   "written back"))


def formats_unchanged(chk, repo, rule="R06.4"):
    """every descriptor's fmt_addr() hands the declared format to the
    memory access as it is: the in-place add is atomic for the formats
    q Q i I x, and a descriptor that dresses the format up (a byte-order
    prefix, another letter) silently turns the update into load / add /
    store.  By abstract execution of every fmt_addr in the package."""
    n = 0
    for ci in sorted(repo.classes.values(), key=lambda c: c.qualname):
        fa = ci.methods.get("fmt_addr")
        if fa is None or ci.module.name.endswith("_test"):
            continue
        n += 1
        chk.analysed(ci.qualname + ".fmt_addr")
        bad = []
        for fmt in ("I", "i", "Q", "q", "x", "H", "B", "<I", (3, 1), 5):
            is_pv = "size" in {a.attr for a in ast.walk(fa) if isinstance(
                a, ast.Attribute) and unparse(a.value) == "self"}
            if isinstance(fmt, int) and not is_pv:
                continue
            if isinstance(fmt, tuple) and is_pv:
                continue
            me = Obj(ci, {"fmt": fmt, "size": fmt, "name": "v",
                          "relative_addr": -16, "address": 14,
                          "position": 3, "sm": Opaque("sm"),
                          "terminal": Opaque("terminal"),
                          "_start": ("hook", lambda *a: 30)})
            inst = Obj(None, {"v": 24, "addr_offset": 4})
            try:
                r = Evaluator(repo, ci.module, ci).call_function(
                    fa, [me, inst], cls=ci)
            except (Unknown, Raised) as e:
                raise AnalysisError(f"{ci.qualname}.fmt_addr: cannot be "
                                    f"evaluated for {fmt!r}: {e}")
            want = (fmt, 1) if isinstance(fmt, int) else fmt
            if not isinstance(r, tuple) or len(r) != 2 or r[0] != want:
                bad.append(f"declared {fmt!r}: accessed as "
                           f"{r[0] if isinstance(r, tuple) and r else r!r}")
        chk.ob(rule, ci.qualname + ".fmt_addr", "the declared format reaches "
               "the memory access unchanged", not bad, fa,
               "; ".join(bad[:3]) or "formats I i Q q x H B <I and bit "
               "fields")
    chk.floor(rule, "fmt_addr implementations", n, 5)


def r1(chk, repo, d):
    ia = repo.cls(E + "IAdd")
    fmts = list("BHIQbhiqx") + [p + c for p in "<>!" for c in "HIQhiq"]
    amounts = [("int 5", lambda: 5), ("int -5", lambda: -5),
               ("expr", lambda: d.expr("v", False, False)),
               ("signed expr", lambda: d.expr("v", True, False)),
               ("register", lambda: d.register("v", True, False, False))]
    # the decision may depend on the format only: any other attribute of
    # the Memory object it reads is state that somebody can switch
    state = {}
    for dun in ("__iadd__", "__isub__"):
        fn = repo.func(E + "Memory." + dun)
        for a in walk_no_nested(fn):
            if isinstance(a, ast.Attribute) and isinstance(
                    a.value, ast.Name) and a.value.id == "self" and \
                    a.attr not in ("fmt", "ebpf") and isinstance(
                        a.ctx, ast.Load) and not isinstance(
                            getattr(a, "_parent", None), ast.Call):
                state.setdefault(a.attr, a)
    for attr, node in sorted(state.items()):
        offs = []
        for m_ in repo.production_modules():
            for st in ast.walk(m_.tree):
                if isinstance(st, ast.Assign):
                    for t in st.targets:
                        if isinstance(t, ast.Attribute) and t.attr == attr \
                                and not (isinstance(st.value, ast.Constant)
                                         and st.value.value is True) \
                                and not (isinstance(st.value, ast.Name)
                                         and repo.enclosing_function(st)
                                         is not None and repo.
                                         enclosing_function(st).name
                                         == "__init__"):
                            offs.append(st)
        # ... or handed in: a parameter of that name given anything but
        # True (or the caller's own setting of the same name)
        def passes_on(v):
            return (isinstance(v, ast.Constant) and v.value is True) or (
                isinstance(v, ast.Name) and v.id == attr) or (
                isinstance(v, ast.Attribute) and v.attr == attr)
        takers = {}
        for m_ in repo.production_modules():
            for fn_ in ast.walk(m_.tree):
                if isinstance(fn_, FUNC):
                    ps = [a_.arg for a_ in fn_.args.args]
                    if attr in ps:
                        takers.setdefault(fn_.name, set()).add(
                            ps.index(attr))
                        for a_, dflt in zip(reversed(fn_.args.args),
                                            reversed(fn_.args.defaults)):
                            if a_.arg == attr and not passes_on(dflt):
                                offs.append(dflt)
        for m_ in repo.production_modules():
            for c_ in ast.walk(m_.tree):
                if not isinstance(c_, ast.Call):
                    continue
                for k_ in c_.keywords:
                    if k_.arg == attr and not passes_on(k_.value):
                        offs.append(c_)
                nm_ = (dotted(c_.func) or "").split(".")[-1]
                cls_ = repo.resolve_class_name(c_._module, nm_) if hasattr(
                    repo, "resolve_class_name") else None
                for idx in takers.get(nm_, ()):
                    # (methods: the receiver is not among the arguments)
                    for i_ in (idx, idx - 1):
                        if 0 <= i_ < len(c_.args) and isinstance(
                                c_.args[i_], ast.Constant) and c_.args[
                                    i_].value is False:
                            offs.append(c_)
        chk.ob("R06.1", E + "Memory.__iadd__", f"the atomic lowering does "
               f"not depend on the switchable attribute `{attr}`", not offs,
               offs[0] if offs else node,
               f"`{unparse(offs[0])[:60]}` ({repo.where(offs[0])}) turns "
               f"in-place additions on those Memory objects into load, "
               f"add, store: two program instances then lose updates"
               if offs else f"`{attr}` is never switched off")
    for dun in ("__iadd__", "__isub__"):
        fails = []
        rows = 0
        for fmt in fmts:
            atomic = fmt in ("i", "I", "q", "Q", "x")
            for an, mk in amounts:
                rows += 1
                m = d.memory("m", fmt)
                for attr in state:
                    m.fields.setdefault(attr, True)
                amt = mk()
                try:
                    r = d.ev.call(d.ev._dunder(m, dun), [amt])
                except Raised as e:
                    r = ("raised", e.what)
                except Unknown as e:
                    raise AnalysisError(f"R06.1: cannot fold {dun} on "
                                        f"{fmt!r} with {an}: {e}")
                is_iadd = isinstance(r, Obj) and r.ci is ia
                # ... wherever the variable lives: the same with an address
                # that involves every register
                m2 = d.memory("m", fmt)
                for attr in state:
                    m2.fields.setdefault(attr, True)
                m2.fields["address"] = Obj(m2.fields["address"].ci, dict(
                    m2.fields["address"].fields,
                    contains=("hook", lambda no: True)))
                try:
                    r2 = d.ev.call(d.ev._dunder(m2, dun), [mk()])
                except Raised as e:
                    r2 = ("raised", e.what)
                except Unknown as e:
                    raise AnalysisError(f"R06.1: cannot fold {dun} on "
                                        f"{fmt!r} with {an}: {e}")
                if (isinstance(r2, Obj) and r2.ci is ia) != is_iadd:
                    fails.append(f"fmt {fmt!r} {dun} {an}: the lowering "
                                 f"depends on the registers of the address "
                                 f"expression")
                if atomic and not is_iadd:
                    fails.append(f"fmt {fmt!r} {dun} {an}: not an atomic "
                                 f"add ({r!r}) - Python falls back to "
                                 f"load, add, store")
                elif not atomic and is_iadd:
                    fails.append(f"fmt {fmt!r} {dun} {an}: atomic add on a "
                                 f"format that has none")
                elif is_iadd:
                    v = r.fields.get("value")
                    if dun == "__iadd__":
                        okv = v is amt or (isinstance(v, Obj) and
                                           v.fields.get("value") == amt)
                    else:
                        okv = (isinstance(v, Obj) and (
                            (repo.is_subclass(v.ci, E + "Negate")
                             and v.fields.get("arg") is amt) or
                            (not isinstance(amt, Obj) and
                             v.fields.get("value") == -amt)))
                    if not okv:
                        fails.append(f"fmt {fmt!r} {dun} {an}: amount is "
                                     f"{v!r}")
        chk.ob("R06.1", E + "Memory." + dun, f"atomic for exactly the "
               f"native 4/8-byte formats ({rows} rows)", not fails,
               repo.func(E + "Memory." + dun), "; ".join(fails[:3]) or
               "i I q Q x -> IAdd for every kind of amount; all other "
               "formats refuse")
    chk.floor("R06.1", "formats tabulated", len(fmts), 27)


def r2(chk, repo, d):
    """the lowering, path by path (sa/paths.py): which store instruction a
    path emits is read off with the mode variables (`opcode`, or a flag
    that selects it later) substituted, so the spelling of the selection
    does not matter"""
    from .. import paths
    sym = E + "Memory._set"
    f = repo.func(sym)
    chk.analysed(sym)

    def on(st, p):
        out = None
        if isinstance(st, ast.Assign) and match_stmt(
                "value = value.value", st) is not None:
            return ("unwrap", st)
        if isinstance(st, (ast.Assign, ast.AugAssign)) and any(
                isinstance(t, ast.Name) and t.id == "value" for t in (
                    st.targets if isinstance(st, ast.Assign)
                    else [st.target])):
            return ("rebind", st)
        for c in ast.walk(st) if not isinstance(st, ast.withitem) else \
                ast.walk(st.context_expr):
            if isinstance(c, ast.Call) and isinstance(
                    c.func, ast.Attribute) and c.func.attr == "append" \
                    and len(c.args) == 5:
                out = ("emit", c, paths.substitute(c.args[0], p.env))
            if isinstance(c, ast.Call) and isinstance(
                    c.func, ast.Attribute) and c.func.attr == "calculate" \
                    and unparse(c.func.value) == "value" and len(
                        c.args) >= 2:
                out = ("calc", c, paths.substitute(c.args[1], p.env))
        return out
    ps = paths.explore(f, on, fact_events=True)
    chk.stats["paths"] += len(ps)
    # the amount (or value) is computed at the width of the variable: a
    # 32-bit amount added to a 64-bit variable is widened (sign-extended)
    # first - the add happens in memory, at the variable's size
    mc = repo.cls(E + "Memory")
    wbad, nw = [], 0
    for p in ps:
        for e in p.events:
            if e[0] != "calc":
                continue
            for fmt in ("I", "i", "q", "Q", "x", ">Q", "<q", "<I"):
                try:
                    got = Evaluator(repo, f._module, mc).eval(
                        e[2], {"self": Obj(mc, {"fmt": fmt})})
                except (Unknown, Raised):
                    continue
                nw += 1
                if bool(got) != (fmt[-1] in "qQx") or (
                        got is None and fmt[-1] in "qQx"):
                    wbad.append((e[1], f"format {fmt!r}: value computed "
                                       f"with long={got!r}"))
    chk.ob("R06.2", sym, "the value stored or added is computed at the "
           "width of the variable", not wbad, wbad[0][0] if wbad else f,
           (wbad[0][1] + " on a path of Memory._set: a signed 32-bit amount "
            "added to a 64-bit variable is not sign-extended, -5 is added "
            "as 4294967291") if wbad else f"{nw} (path, format) pairs")
    # the marker is looked for on the value as it was assigned: anything
    # that re-binds `value` first (scaling, wrapping) goes through IAdd's
    # own operators and may hand back a plain expression
    early = []
    for p in ps:
        for i, e in enumerate(p.events):
            if e[0] == "fact" and match("isinstance(value, IAdd)",
                                        e[1]) is not None:
                early.extend(x[1] for x in p.events[:i] if x[0] == "rebind")
                break
    chk.ob("R06.2", sym, "the IAdd marker is tested on the value as it was "
           "assigned", not early, early[0] if early else f,
           f"`{unparse(early[0])[:50]}` re-binds the value before it is "
           f"tested: the in-place add can lose its marker there and is then "
           f"stored as a plain value" if early else
           "no re-binding of `value` precedes the test")
    iadd = [p for p in ps if p.fact("isinstance(value, IAdd)")]
    other = [p for p in ps if not p.fact("isinstance(value, IAdd)")]
    chk.floor("R06.2", "paths of Memory._set on which the value is an IAdd",
              len(iadd), 2)
    chk.floor("R06.2", "other paths of Memory._set", len(other), 8)
    bad_x, bad_unwrap, bad_imm, bad_ld, bad_plain = [], [], [], [], []
    for p in ps:
        is_x = p in iadd
        em = [e for e in p.events if e[0] == "emit"]
        for _, c, opx in em:
            txt = unparse(opx)
            if "LD" in txt:
                bad_ld.append(c)
            if not is_x and "XADD" in txt:
                bad_plain.append(c)
        if not is_x or p.end == "raise":
            continue
        stores = [e for e in em if "ST" in unparse(e[2])
                  or "XADD" in unparse(e[2])]
        xs = [e for e in stores if match(
            "Opcode.XADD + fmt_to_opcode(self.fmt)", e[2]) is not None and
            match("$e.append($o, dst, src, offset, 0)", e[1]) is not None]
        if len(stores) != 1 or len(xs) != 1:
            (bad_imm if any(unparse(e[2]).startswith("Opcode.ST +")
                            or "Opcode.ST " in unparse(e[2]) + " "
                            for e in stores) else bad_x).append(
                (stores[0][1] if stores else f,
                 [unparse(e[2]) for e in stores]))
            continue
        kinds = [e[0] for e in p.events]
        if "unwrap" not in kinds or kinds.index("unwrap") > kinds.index(
                "emit"):
            bad_unwrap.append(xs[0][1])
    chk.ob("R06.2", sym, "every IAdd path emits exactly one store "
           "instruction: XADD|size [dst+off] += src", not bad_x,
           bad_x[0][0] if bad_x else f,
           f"an IAdd path emits {bad_x[0][1]}" if bad_x else
           f"{len(iadd)} paths, each `Opcode.XADD + fmt_to_opcode(self.fmt)`"
           f" with dst, src, offset")
    chk.ob("R06.2", sym, "the immediate-store shortcut is not taken for an "
           "atomic add", not bad_imm, bad_imm[0][0] if bad_imm else f,
           f"an IAdd path emits {bad_imm[0][1]}: a plain store of the "
           f"amount would overwrite the variable" if bad_imm else
           "no IAdd path reaches the ST (immediate) emission")
    chk.ob("R06.2", sym, "the amount is unwrapped on the IAdd paths, before "
           "it is computed", not bad_unwrap,
           bad_unwrap[0] if bad_unwrap else f, "value = value.value")
    chk.ob("R06.2", sym, "XADD is selected on the IAdd paths only",
           not bad_plain, bad_plain[0] if bad_plain else f,
           "a plain assignment must stay a plain store" if bad_plain else
           f"{len(other)} other paths emit ST / STX")
    chk.ob("R06.2", sym, "no load of the destination", not bad_ld,
           bad_ld[0] if bad_ld else f, "read-modify-write in the program "
           "would lose concurrent updates")
    mem = d.ev.enum_members(repo.cls(E + "Opcode"))
    chk.ob("R06.3", E + "Opcode", "XADD == STX|ATOMIC|W (0xc3)",
           "XADD" in mem and mem["XADD"].value == isa.EXPECTED["XADD"],
           repo.cls(E + "Opcode").attr_stmts.get("XADD"), "ISA")
    for sz, by in (("W", 4), ("DW", 8)):
        v = mem["XADD"].value + mem[sz].value
        cl = isa.classify(v)
        chk.ob("R06.3", E + "Opcode", f"XADD+{sz} is the {by}-byte atomic "
               f"add", cl == ("stx", "atomic", by), repo.cls(
                   E + "Opcode").node, f"{v:#x} decodes to {cl}")


def r4(chk, repo, d):
    routes = [
        (E + "MemoryDesc.__set__", "memory._set(value)"),
        (E + "MemoryMap.__setitem__", "memory._set(value)"),
        ("ebpfcat.ebpfcat.TerminalVar.__set__",
         "instance.__dict__[self.name].set(instance, value)"),
        ("ebpfcat.ebpfcat.PacketVar.set", "super().__set__(device, value)"),
    ]
    for sym, pat in routes:
        f = repo.func(sym)
        chk.analysed(sym)
        ok = bool(find(pat, f))
        # the value is not re-bound before
        rebind = [s for s, v in assigned_values(f, "value")]
        chk.ob("R06.4", sym, "hands the assigned value on unchanged",
               ok and not rebind, f, f"`{pat}`")
    # every descriptor that specialises MemoryDesc.__set__: on its way to
    # the base implementation the value may not be re-bound (an IAdd that
    # is turned into `old + amount` becomes load / add / store)
    n = 0
    for ci in repo.subclasses(E + "MemoryDesc"):
        f = ci.methods.get("__set__")
        if f is None or ci.qualname == E + "MemoryDesc" or \
                ci.module.name.endswith("_test"):
            continue
        n += 1
        sym = ci.qualname + ".__set__"
        chk.analysed(sym)
        params = param_names(f)
        vname = params[2] if len(params) > 2 else "value"
        cfg = CFG(f)
        rd = ReachingDefs(cfg)
        bad = []
        for node in cfg.nodes:
            if node.expr is None:
                continue
            for c, b in find("super().__set__($i, $v)", node.expr):
                v = b["v"]
                if not (isinstance(v, ast.Name) and v.id == vname):
                    bad.append((c, f"hands on `{unparse(v)[:40]}`"))
                    continue
                for dd in rd.reaching(node, vname):
                    if dd.kind == "param":
                        continue
                    st_ = dd.node.stmt if dd.node is not None else None
                    safe = st_ is not None and any(
                        not t and match(f"isinstance({vname}, IAdd)", e)
                        is not None for e, t in path_facts(st_))
                    if not safe:
                        bad.append((c, f"`{vname}` is re-bound by "
                                       f"`{unparse(st_)[:50] if st_ else '?'}`"))
        chk.ob("R06.4", sym, "the program-side store receives the assigned "
               "value itself", not bad, bad[0][0] if bad else f,
               (bad[0][1] + ": an in-place add that is unwrapped before "
                "Memory._set sees it is no longer a single atomic "
                "instruction") if bad else "super().__set__(instance, value)")
    chk.floor("R06.4", "descriptors specialising MemoryDesc.__set__", n, 2)

# added rules (appended to the explanation the evidence file carries)
EXPLANATION += (" " + 'Added during the build (DESIGN.md 4.31, second table): (R06.4) every fmt_addr hands the declared format on unchanged (abstract execution, 10 formats); (R06.6) TheDict.lookup yields the map element itself (fresh object, base register 0, offset 0 on every path).')
EXPLANATION += (" Added after wave 8: an attribute read by the atomic lowering is never switched off by a parameter of that name either (defaults and keyword arguments other than True or the caller's own setting).")
EXPLANATION += (' Added after wave 9: along every path of Memory._set the value stored or added is computed at the width of the variable.')
