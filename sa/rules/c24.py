"""C24 - cancelling a sync group releases its resources and ends cancelled.

Typestate analysis on the exceptional CFG: every await (and every yield of
a context manager) gets a CancelledError edge."""
import ast

from .common import *

EXPLANATION = (
    "Decided: the static counterpart of 'inject a cancellation at every "
    "await'. On the CFG in which every await / async-with / yield has a "
    "CancelledError edge, for each acquire/release pair of the obligation "
    "table (O1 terminals asked OPERATIONAL <-> asked SAFE_OPERATIONAL, O2 "
    "FMMU slot claimed <-> reset, O3 kernel program slot registered <-> "
    "deleted, O4 child process started <-> told to stop and waited for) "
    "every cancellation edge of every await reachable while the obligation "
    "is held (the acquiring await included) leads through the release on "
    "all paths to the function's exit (R24.1); handlers on these paths do "
    "not swallow the cancellation, no name bound by 'except ... as' is "
    "read after its handler ended, finally blocks do not return/break "
    "(R24.2); fast groups do all their awaits inside the registration "
    "context and the masters cancel their groups in a finally (R24.3). "
    "Declined: what a simulated terminal observes; double cancellation; "
    "cancellation while the release itself is in flight.")
ASSUMPTIONS = [
    "asyncio delivers CancelledError only at await points (and at the yield "
    "of a context manager whose body awaits)",
    "the obligation table O1-O4 (frozen from reading, see DESIGN.md C24)",
]

EC = "ebpfcat.ebpfcat."


def cancel_cfg(func):
    return CFG(func, raises="await", exc="cancel")


def contains(node, pattern):
    return node.expr is not None and bool(find(pattern, node.expr))


def held_coverage(chk, rule, sym, func, is_acquire, is_release, what,
                  min_awaits, acquire_is_await=True):
    """R24.1 for one obligation in one function"""
    cfg = cancel_cfg(func)
    chk.analysed(sym)
    acq = [n for n in cfg.nodes if is_acquire(n)]
    rel = [n for n in cfg.nodes if is_release(n)]
    need(acq, f"{sym}: acquisition of {what} not found")
    need(rel, f"{sym}: release of {what} not found")
    relids = {n.id for n in rel}

    def through(n):
        return n.id in relids
    count = 0
    for a in acq:
        held = cfg.reachable(a, avoid=through)
        if not acquire_is_await:
            held = held - {a}
        pts = sorted((n for n in held if any(l == "exc" for _, l in n.succ)
                      and n.kind not in ("raise",)
                      and not (n.kind == "with_exit" and n.tag[1] == "exc")),
                     key=lambda n: (n.lineno, n.id))
        for n in pts:
            count += 1
            ok = cfg.must_pass(n, through, first_edge="exc")
            path = None
            if not ok:
                w = cfg.witness_path(n, through, first_edge="exc")
                path = cfg.describe_path(w) if w else None
                chk.stats["paths"] += 1
            inst = f"{what}: cancel at {n.kind} `{short(n)}`"
            chk.ob(rule, sym, inst, ok, n.expr if n.expr is not None
                   else n.stmt,
                   f"a CancelledError raised at this point "
                   f"{'reaches' if ok else 'does NOT reach'} the release of "
                   f"{what} on every path to the exit", path)
        # normal completion also releases
        ok = cfg.must_pass(a, through, targets=[cfg.exit])
        chk.ob(rule, sym, f"{what}: normal exit passes the release", ok,
               a.expr, "every path from the acquisition to the normal "
               "return passes the release")
    chk.floor(rule, f"await/yield points while {what} is held in {sym}",
              count, min_awaits)
    return cfg


def short(n):
    s = unparse(n.expr if n.expr is not None else n.stmt)
    s = " ".join(s.split())
    return s[:70]


def run(chk, repo):
    chk.doc("R24.1", "every cancellation point while an obligation is held "
                     "leads through its release")
    chk.doc("R24.2", "the cancellation is not swallowed: handlers, "
                     "except-as liveness, finally blocks")
    chk.doc("R24.3", "registration context encloses all awaits; masters "
                     "cancel their groups in a finally")
    o1(chk, repo)
    o2(chk, repo)
    o3(chk, repo)
    o4(chk, repo)
    o4_flag(chk, repo)
    o4_early(chk, repo)
    swallow(chk, repo)
    r243(chk, repo)
    stop_flag(chk, repo)
    release_is_sent(chk, repo)


def release_is_sent(chk, repo):
    """R24.6: the release of O1 (terminals asked back to SAFE-OPERATIONAL
    in the finally of run) is Terminal.set_state: it has to put the
    request on the wire whenever it is called.  A shortcut that trusts a
    remembered state skips the release exactly when the task was cancelled
    between sending OPERATIONAL and recording it."""
    chk.doc("R24.6", "set_state always writes the AL control register")
    sym = "ebpfcat.ethercat.Terminal.set_state"
    f = repo.func(sym)
    chk.analysed(sym)
    cfg = CFG(f, raises="await")
    wr = [n for n in cfg.nodes if n.expr is not None and (find(
        "self.ec.roundtrip(ECCmd.FPWR, self.position, 288, $*a)", n.expr)
        or find("self.write(288, $*a)", n.expr))]
    need(wr, f"{sym}: the write of the AL control register (0x120) was not "
             f"found")
    # every normal exit passes a write (exceptional edges excluded)
    ok = cfg.must_pass(cfg.entry, lambda n: n in wr, targets=[cfg.exit])
    path = None
    if not ok:
        w = cfg.witness_path(cfg.entry, lambda n: n in wr,
                             targets=[cfg.exit])
        path = cfg.describe_path(w) if w else None
    chk.ob("R24.6", sym, "every call writes the requested state to the "
           "terminal", ok, f, "a path returns without the write: the "
           "terminal keeps driving its outputs after the sync group has "
           "ended" if not ok else "FPWR of register 0x120 on every path",
           path)
    override_rule(chk, repo, "R24.6", "ebpfcat.ethercat.Terminal",
                  ["set_state"], "the release of the outputs is not sent")


def stop_flag(chk, repo):
    """R24.5: a process-based sync group is stopped by clearing `running`
    (the only channel into the subprocess).  The cycle loop of
    SyncGroupBase.run therefore has to come back to its `while
    self.running` test in bounded time: no loop inside it - in run() or in
    a coroutine it awaits - may go round on its own without testing the
    flag."""
    chk.doc("R24.5", "the cycle loop keeps testing the stop flag")
    sym = EC + "SyncGroupBase.run"
    f = repo.func(sym)
    sg = repo.cls(EC + "SyncGroupBase")
    outer = [w for w in walk_no_nested(f) if isinstance(w, ast.While)
             and find("self.running", w.test)]
    need(len(outer) == 1, f"{sym}: the `while self.running` loop was not "
                          f"found")
    todo = [(f, outer[0].body)]
    seen = {id(f)}
    bad = []
    n = 0
    while todo:
        g, stmts = todo.pop()
        for st in stmts:
            for x in ast.walk(st):
                if isinstance(x, (ast.While,)) and not find(
                        "self.running", x.test):
                    spins = isinstance(x.test, ast.Constant) and x.test.value
                    # leaves only by return/break/raise: does a handler of
                    # a timeout go round without leaving?
                    retry = any(isinstance(h, ast.ExceptHandler)
                                and "TimeoutError" in unparse(
                                    h.type or ast.Constant(""))
                                for h in ast.walk(x))
                    if spins and retry and not find("self.running", x):
                        bad.append((x, repo.qualname_of(g)))
                    n += 1
                if isinstance(x, ast.Await) and isinstance(
                        x.value, ast.Call) and isinstance(
                            x.value.func, ast.Attribute) and isinstance(
                                x.value.func.value, ast.Name) and \
                        x.value.func.value.id == "self":
                    owner, h = repo.lookup(sg, x.value.func.attr)
                    if isinstance(h, FUNC) and id(h) not in seen:
                        seen.add(id(h))
                        todo.append((h, h.body))
    chk.ob("R24.5", sym, "no loop inside the cycle loop retries a timeout "
           "without looking at `running`", not bad,
           bad[0][0] if bad else outer[0],
           (f"the loop in {bad[0][1]} re-sends and waits again for ever "
            f"when the frames stop coming back; `running` is never tested "
            f"there, so a ProcessSyncGroup whose parent task was cancelled "
            f"is not stopped") if bad else
           f"{len(seen)} coroutine(s) looked at")


# ------------------------------------------------------------------- O1
def o1(chk, repo):
    sym = EC + "SyncGroupBase.run"
    f = repo.func(sym)
    ACQ = "$t.set_state(MachineState.OPERATIONAL)"
    REL = "$t.set_state(MachineState.SAFE_OPERATIONAL)"
    cfg = held_coverage(
        chk, "R24.1", sym, f,
        lambda n: n.kind == "stmt" and contains(n, ACQ),
        lambda n: n.kind == "stmt" and contains(n, REL),
        "O1 terminals asked OPERATIONAL", 3)
    # the release covers the same terminals as the acquisition
    acq = [n for n in cfg.nodes if n.kind == "stmt" and contains(n, ACQ)]
    rel = [n for n in cfg.nodes if n.kind == "stmt" and contains(n, REL)]

    def comp_of(n, pat):
        call = find(pat, n.expr)[0][0]
        for p in parents(call):
            if isinstance(p, (ast.ListComp, ast.GeneratorExp)):
                return p
        return None
    ca = comp_of(acq[0], ACQ)
    for r in rel:
        cr = comp_of(r, REL)
        ok = ca is not None and cr is not None and len(ca.generators) == len(
            cr.generators) and all(
                same(g1.iter, g2.iter) and unparse(g1.ifs) == unparse(g2.ifs)
                and same(g1.target, g2.target)
                for g1, g2 in zip(ca.generators, cr.generators))
        chk.ob("R24.1", sym, "O1: release covers the terminals acquired", ok,
               r.expr, "SAFE_OPERATIONAL is requested over the same "
               "iteration and filter as OPERATIONAL")
    # the release is awaited
    for r in rel:
        ok = any(isinstance(x, ast.Await) for x in ast.walk(r.expr))
        chk.ob("R24.1", sym, "O1: release is awaited", ok, r.expr,
               "the SAFE_OPERATIONAL requests are awaited (a bare "
               "coroutine would never run)")


# ------------------------------------------------------------------- O2
def o2(chk, repo):
    sym = "ebpfcat.ethercat.Terminal.map_fmmu"
    f = repo.func(sym)

    def acq(n):
        if n.kind != "stmt" or not isinstance(n.stmt, ast.Assign):
            return False
        b = match_stmt_assign(n.stmt, "self.fmmu_used[$i]")
        return b is not None and not is_none(n.stmt.value)

    def rel(n):
        if n.kind != "stmt" or not isinstance(n.stmt, ast.Assign):
            return False
        b = match_stmt_assign(n.stmt, "self.fmmu_used[$i]")
        return b is not None and is_none(n.stmt.value)
    cfg = held_coverage(chk, "R24.1", sym, f, acq, rel, "O2 FMMU slot", 3,
                        acquire_is_await=False)
    # the slot released is the slot claimed
    rd2 = ReachingDefs(cfg)
    an = [n for n in cfg.nodes if acq(n)]
    ai = match_stmt_assign(an[0].stmt, "self.fmmu_used[$i]")["i"]
    for r in [n for n in cfg.nodes if rel(n)]:
        ri = match_stmt_assign(r.stmt, "self.fmmu_used[$i]")["i"]
        ok = same(ai, ri) and (not isinstance(ai, ast.Name) or {
            id(x) for x in rd2.reaching(r, ai.id)} == {
                id(x) for x in rd2.reaching(an[0], ai.id)})
        chk.ob("R24.1", sym, "O2: the slot released is the slot claimed", ok,
               r.stmt, f"claims fmmu_used[{unparse(ai)}], releases "
               f"fmmu_used[{unparse(ri)}]: when the search did not stop at "
               f"its first candidate the claimed slot stays allocated after "
               f"a cancellation")
    # SyncGroupBase.map_fmmu enters the terminal contexts through an
    # AsyncExitStack and yields inside it
    sym2 = EC + "SyncGroupBase.map_fmmu"
    g = repo.func(sym2)
    chk.analysed(sym2)
    ys = [n for n in walk_no_nested(g) if isinstance(n, ast.Yield)]
    need(len(ys) == 1, f"{sym2}: expected one yield")
    w = in_with_region(ys[0], lambda e: match("AsyncExitStack()", e)
                       is not None)
    chk.ob("R24.1", sym2, "O2: yield inside the AsyncExitStack", w is not None,
           ys[0], "the group's FMMU contexts stay entered while the caller "
           "runs and are exited on any exit")
    enters = find("$s.enter_async_context($t.map_fmmu($*a))", g)
    chk.floor("R24.1", "map_fmmu contexts entered", len(enters), 2)
    for call, b in enters:
        inside = in_with_region(call, lambda e: match("AsyncExitStack()", e)
                                is not None)
        ok = inside is not None and any(
            isinstance(p, ast.Await) for p in parents(call))
        chk.ob("R24.1", sym2, f"O2: {unparse(b['t'])}.map_fmmu entered "
               f"through the stack", ok, call,
               "a context entered through the exit stack is released in "
               "reverse order on cancellation")


def match_stmt_assign(stmt, target_pat):
    if len(stmt.targets) != 1:
        return None
    return match(target_pat, stmt.targets[0])


def is_none(e):
    return isinstance(e, ast.Constant) and e.value is None


# ------------------------------------------------------------------- O3
def o3(chk, repo):
    sym = EC + "FastEtherCat.register_sync_group"
    f = repo.func(sym)
    held_coverage(
        chk, "R24.1", sym, f,
        lambda n: n.kind == "stmt" and contains(n, "update_elem($*a)"),
        lambda n: n.kind == "stmt" and contains(n, "delete_elem($*a)"),
        "O3 kernel program slot", 1, acquire_is_await=False)
    cfg = cancel_cfg(f)
    # the bookkeeping dict entry is removed as well
    sets = [n for n in cfg.nodes if n.kind == "stmt" and isinstance(
        n.stmt, ast.Assign) and match_stmt_assign(
            n.stmt, "self.sync_groups[$i]") is not None]
    dels = [n for n in cfg.nodes if n.kind == "stmt" and isinstance(
        n.stmt, ast.Delete) and any(match("self.sync_groups[$i]", t)
                                    is not None for t in n.stmt.targets)]
    need(sets, f"{sym}: sync_groups registration not found")
    delids = {n.id for n in dels}
    for s in sets:
        pts = [n for n in cfg.reachable(s, avoid=lambda n: n.id in delids)
               if any(l == "exc" for _, l in n.succ)]
        for n in pts:
            ok = cfg.must_pass(n, lambda m: m.id in delids, first_edge="exc")
            chk.ob("R24.1", sym, f"O3 sync_groups entry: cancel at "
                   f"`{short(n)}`", ok, n.expr,
                   "the group is removed from sync_groups when the context "
                   "is left by an exception")
    # the kernel table is shared between connections: a slot is claimed
    # only after the kernel said it is empty
    cfg3 = CFG(f)
    upn = [n for n in cfg3.nodes if n.expr is not None and find(
        "update_elem(self.programs, $k, $v)", n.expr)]
    lkn = [n for n in cfg3.nodes if n.expr is not None and find(
        "lookup_elem(self.programs, $k, $*a)", n.expr)]
    ok = bool(upn) and bool(lkn) and all(
        any(cfg3.dominates(l, u) for l in lkn) for u in upn)
    if ok:
        rd3 = ReachingDefs(cfg3)
        uk = find("update_elem(self.programs, $k, $v)", upn[0].expr)[0][1]["k"]
        lk_ = find("lookup_elem(self.programs, $k, $*a)",
                   lkn[0].expr)[0][1]["k"]
        ok = same(uk, lk_) and (not isinstance(uk, ast.Name) or {
            id(x) for x in rd3.reaching(upn[0], uk.id)} <= {
                id(x) for x in rd3.reaching_after(lkn[0], uk.id)} | {
                id(x) for x in rd3.reaching(lkn[0], uk.id)})
    chk.ob("R24.1", sym, "O3: a slot is claimed only after the kernel table "
           "was probed for that key", ok, upn[0].expr if upn else f,
           "the program table is shared by all connections on the "
           "interface; claiming a slot another connection holds makes the "
           "later release of one of them fail (the task then ends with "
           "KeyError instead of cancelled) and unregisters the other's "
           "program")
    # key of the release is the index that was registered
    ups = find("update_elem(self.programs, $k, $v)", f)
    des = find("delete_elem(self.programs, $k)", f)
    need(len(ups) == 1 and len(des) >= 1, f"{sym}: update/delete shape")
    cfg2 = CFG(f)
    rd = ReachingDefs(cfg2)
    un = cfg2.nodes_containing(ups[0][0])[0]
    ukey = inline_locals(f, ups[0][1]["k"], un, rd)
    for d, b in des:
        dn = cfg2.nodes_containing(d)[0]
        dkey = inline_locals(f, b["k"], dn, rd)
        ok = same(ukey, dkey)
        chk.ob("R24.1", sym, "O3: delete uses the registered key", ok, d,
               f"registered under {unparse(ukey)}, deleted "
               f"{unparse(dkey)}")


# ------------------------------------------------------------------- O4
def o4(chk, repo):
    sym = EC + "ProcessSyncGroup.wait_for_process"
    f = repo.func(sym)
    chk.analysed(sym)
    cfg = cancel_cfg(f)
    handlers = [n for n in cfg.nodes if n.kind == "except"]
    ch = [n for n in handlers if "CancelledError" in (
        unparse(n.tag.type) if n.tag.type is not None else "")]
    need(len(ch) == 1, f"{sym}: expected one CancelledError handler")
    h = ch[0]
    body = h.tag.body
    stops = find("self.runningValue.value = False", body, mode="stmt")
    chk.ob("R24.1", sym, "O4: cancellation tells the child to stop",
           len(stops) == 1, h.tag,
           "the handler of CancelledError clears runningValue")
    # after the handler the function keeps waiting for the pidfd
    awaits = [n for n in cfg.reachable(h) if n.expr is not None and any(
        isinstance(x, ast.Await) for x in walk_expr(n.expr))]
    chk.ob("R24.1", sym, "O4: keeps waiting for the process after cancel",
           bool(awaits), h.tag, "an await on the pidfd future is reachable "
           "again from the handler (the loop continues)")
    # R24.2: ends cancelled: the stored exception is raised, a normal
    # return only where nothing was stored
    name = h.tag.name
    stored = None
    if name:
        for s in body:
            if isinstance(s, ast.Assign) and isinstance(
                    s.value, ast.Name) and s.value.id == name and len(
                        s.targets) == 1 and isinstance(s.targets[0], ast.Name):
                stored = s.targets[0].id
    reraises = any(isinstance(s, ast.Raise) for s in ast.walk(h.tag))
    ok = reraises or stored is not None
    chk.ob("R24.2", sym, "CancelledError is re-raised or stored", ok, h.tag,
           "a handler that neither re-raises nor keeps the exception "
           "object cannot end the task as cancelled" if not ok else
           f"stored in `{stored}`" if stored else "re-raised")
    if stored and not reraises:
        rets = [n for n in cfg.reachable(h) if n.kind == "return"]
        for r in rets:
            g = guarded_by_none(r.stmt, stored)
            chk.ob("R24.2", sym, f"return only when `{stored}` is None", g,
                   r.stmt, "a return reachable after a cancellation must be "
                   "guarded by the test that nothing was stored")
        raises = [n for n in cfg.reachable(h) if n.kind == "raise" and
                  isinstance(n.stmt.exc, ast.Name) and
                  n.stmt.exc.id == stored]
        chk.ob("R24.2", sym, f"`raise {stored}` reachable after cancel",
               bool(raises), h.tag, "the stored CancelledError is what "
               "finally leaves the task")


def o4_flag(chk, repo):
    """the stop flag is a one-way signal: the parent raises it before the
    child exists and only ever lowers it afterwards; the child never
    writes it"""
    ci = repo.cls(EC + "ProcessSyncGroup")
    stores = []
    for c in repo.subclasses(ci.qualname) + [ci]:
        for mname, f in c.methods.items():
            for st in ast.walk(f):
                if isinstance(st, (ast.Assign, ast.AugAssign)):
                    tg = st.targets if isinstance(st, ast.Assign) \
                        else [st.target]
                    if any(unparse(t).endswith("runningValue.value")
                           for t in tg):
                        stores.append((c, mname, f, st))
    seen = set()
    stores = [x for x in stores if id(x[3]) not in seen
              and not seen.add(id(x[3]))]
    chk.floor("R24.1", "stores to the stop flag", len(stores), 2)
    for c, mname, f, st in stores:
        sym = c.qualname + "." + mname
        v = st.value
        val = v.value if isinstance(v, ast.Constant) else None
        if mname == "start":
            cfg = CFG(f)
            sn = cfg.nodes_containing(st)
            ps = [n for n in cfg.nodes if n.expr is not None and find(
                "self.process.start()", n.expr)]
            ok = val is True and bool(ps) and bool(sn) and all(
                cfg.dominates(sn[0], p) for p in ps)
            why = "raised by the parent before the child is started"
        elif mname == "wait_for_process":
            ok = val is False
            why = "lowered by the parent on cancellation"
        else:
            ok = False
            why = (f"`{unparse(st)}` in {mname}: a second writer of the "
                   f"stop flag - if the parent is cancelled before the "
                   f"child gets here, the child raises the flag again "
                   f"after the parent lowered it, runs forever, and the "
                   f"cancelled task never ends")
        chk.ob("R24.1", sym, f"O4: `{unparse(st)}` keeps the stop flag a "
               f"one-way signal", ok, st, why)
    st_ = repo.func(EC + "ProcessSyncGroup.start")
    ok = any(m == "start" and isinstance(s_.value, ast.Constant)
             and s_.value.value is True for _, m, _, s_ in stores)
    chk.ob("R24.1", EC + "ProcessSyncGroup.start", "O4: the flag is raised "
           "by the parent in start()", ok, st_, "otherwise a cancellation "
           "that arrives before the child is up is lost")


def o4_early(chk, repo):
    """R24.4: a task that is cancelled before its first step never runs a
    line of its coroutine (asyncio throws the CancelledError into a
    coroutine that has not started; its try/except does not exist yet).
    An obligation acquired *before* the task is created is therefore only
    covered if something outside the coroutine releases it as well"""
    chk.doc("R24.4", "an obligation acquired before the task exists is "
                     "released even if the task is cancelled before its "
                     "first step")
    sym = EC + "ProcessSyncGroup.start"
    f = repo.func(sym)
    cfg = CFG(f)
    ps = [n for n in cfg.nodes if n.expr is not None and find(
        "self.process.start()", n.expr)]
    ts = [n for n in cfg.nodes if n.expr is not None and (
        find("ensure_future(self.wait_for_process())", n.expr) or find(
            "create_task(self.wait_for_process())", n.expr))]
    need(ps and ts, f"{sym}: process start / task creation not found")
    before = all(cfg.dominates(p, t) and p is not t for p in ps for t in ts)
    cb = [c for c in calls_in(f) if isinstance(c.func, ast.Attribute)
          and c.func.attr == "add_done_callback"]
    ok = (not before) or bool(cb)
    chk.ob("R24.4", sym, "O4: the child is told to stop also when the task "
           "is cancelled before its first step", ok, ts[0].stmt,
           "a done-callback on the task lowers the flag" if cb else
           "the child process is started before the task exists, and the "
           "only code that lowers the stop flag is the CancelledError "
           "handler inside wait_for_process(): a cancel() that arrives "
           "before the event loop has run the task once ends the task "
           "without ever entering that handler")


def guarded_by_none(stmt, var):
    """is the statement only reached when `var is None` (nesting, early
    exits and negations all count)"""
    facts = path_facts(stmt)
    return has_fact(facts, f"{var} is None", True) or has_fact(
        facts, f"{var} is not None", False)


# ------------------------------------------------------------------ R24.2
SCOPE = [EC + "SyncGroupBase.run", EC + "SyncGroupBase.map_fmmu",
         EC + "FastSyncGroup.run", EC + "FastEtherCat.run",
         EC + "ParallelEtherCat.run", EC + "FastEtherCat.register_sync_group",
         EC + "ProcessSyncGroup.wait_for_process",
         EC + "ProcessSyncGroup.subprocess_loop",
         "ebpfcat.ethercat.Terminal.map_fmmu"]


def swallow(chk, repo):
    rule = "R24.2"
    n_handlers = 0
    for sym in SCOPE:
        f = repo.func(sym)
        chk.analysed(sym)
        # (a) finally blocks do not return / break / continue
        for t in walk_no_nested(f):
            if isinstance(t, ast.Try) and t.finalbody:
                bad = [x for s in t.finalbody for x in walk_no_nested(s)
                       if isinstance(x, (ast.Return, ast.Break,
                                         ast.Continue))]
                # a break/continue of a loop *inside* the finally is fine
                bad = [x for x in bad if isinstance(x, ast.Return) or not any(
                    isinstance(p, (ast.For, ast.While, ast.AsyncFor)) and any(
                        p is q or p in ast.walk(q) for q in t.finalbody)
                    for p in parents(x))]
                chk.ob(rule, sym, f"finally at line-independent position "
                       f"#{index_of_try(f, t)} does not swallow", not bad, t,
                       "return/break/continue in a finally block discards "
                       "the exception in flight")
        # (b) handlers that catch CancelledError
        for t in walk_no_nested(f):
            if not isinstance(t, ast.Try):
                continue
            for h in t.handlers:
                names = [] if h.type is None else [
                    unparse(e) for e in (h.type.elts if isinstance(
                        h.type, ast.Tuple) else [h.type])]
                catches = h.type is None or any(
                    n.split(".")[-1] in ("CancelledError", "BaseException")
                    for n in names)
                if not catches:
                    continue
                n_handlers += 1
                if sym.endswith("wait_for_process"):
                    continue  # checked in detail by o4
                last_raises = any(isinstance(s, ast.Raise) and s.exc is None
                                  for s in h.body)
                chk.ob(rule, sym, f"handler `except {', '.join(names) or ''}`"
                       f" re-raises", last_raises, h,
                       "a handler that catches the cancellation must "
                       "re-raise it")
        # (c) no name bound by `except ... as n` is read after the handler
        cfg = CFG(f, raises="await", exc="any")
        rd = ReachingDefs(cfg)
        bound = {h.name for t in walk_no_nested(f) if isinstance(t, ast.Try)
                 for h in t.handlers if h.name}
        for n in cfg.nodes:
            if n.expr is None:
                continue
            for x in walk_expr(n.expr):
                if isinstance(x, ast.Name) and isinstance(x.ctx, ast.Load) \
                        and x.id in bound:
                    ds = rd.reaching(n, x.id)
                    dead = [d for d in ds if d.kind == "unbind"]
                    chk.ob(rule, sym, f"`{x.id}` is bound where it is read "
                           f"in `{short(n)}`", not dead, x,
                           f"`{x.id}` is the target of an `except ... as`; "
                           f"Python unbinds it when the handler ends, so on "
                           f"the path through that handler this read raises "
                           f"UnboundLocalError instead of ending the task "
                           f"cancelled")
    chk.floor(rule, "handlers that can catch CancelledError in scope",
              n_handlers, 1)


def index_of_try(f, t):
    ts = [x for x in walk_no_nested(f) if isinstance(x, ast.Try)]
    ts.sort(key=lambda x: (x.lineno, x.col_offset))
    return ts.index(t)


# ------------------------------------------------------------------ R24.3
def r243(chk, repo):
    rule = "R24.3"
    sym = EC + "FastSyncGroup.run"
    f = repo.func(sym)
    aw = [n for n in walk_no_nested(f) if isinstance(n, ast.Await)]
    chk.floor(rule, "awaits in FastSyncGroup.run", len(aw), 3)
    for a in aw:
        w = in_with_region(a, lambda e: match(
            "self.ec.register_sync_group($*x)", e) is not None)
        chk.ob(rule, sym, f"`{unparse(a)[:50]}` inside the registration "
               f"context", w is not None, a,
               "the kernel program slot is released whenever the task is "
               "cancelled at this await")
    sup = find("super().run()", f)
    chk.ob(rule, sym, "runs the common loop", len(sup) == 1, f,
           "FastSyncGroup.run delegates to SyncGroupBase.run (O1)")
    for sym in (EC + "FastEtherCat.run", EC + "ParallelEtherCat.run"):
        f = repo.func(sym)
        chk.analysed(sym)
        ys = [n for n in walk_no_nested(f) if isinstance(n, ast.Yield)]
        need(len(ys) == 1, f"{sym}: expected one yield")
        fin = None
        child = ys[0]
        for p in parents(ys[0]):
            if isinstance(p, ast.Try) and p.finalbody and any(
                    child is s or child in ast.walk(s) for s in p.body):
                fin = p
                break
            child = p
        ok = fin is not None and bool(
            find("$v.cancel()", fin.finalbody)) and any(
            isinstance(s, ast.For) and match(
                "self.sync_groups.values()", s.iter) is not None
            for s in fin.finalbody)
        chk.ob(rule, sym, "every registered group is cancelled in the "
               "finally around the yield", ok, ys[0],
               "leaving the master's context cancels the fast groups")
