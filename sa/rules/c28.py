"""C28 - serial channels transfer bytes exactly once, in order."""
import ast

from .common import *

EXPLANATION = (
    "Decided, from the branch structure of Serial.update: (R28.1) one "
    "toggle per chunk, with the data. Receive side: the write to the "
    "application pipe, the flip of last_receive_accept and the store to "
    "receive_accept are in one branch guarded by 'the request bit changed "
    "since last cycle', and the remembered request is refreshed on every "
    "connected cycle. Transmit side: a new chunk is read only when none is "
    "outstanding; last_transmit_request flips only in the branch that "
    "stored a non-empty chunk; the chunk is dropped only in the branch "
    "guarded by 'the accept bit changed'; the string and the request bit "
    "are presented again every cycle while a chunk is outstanding; (R28.2) "
    "the chunk fits: the read size is at most the capacity of the "
    "terminal's string format, and string format plus control byte fit the "
    "channel's block (the offset of the next channel); (R28.3) before the "
    "connected state the function returns after the init handshake and "
    "latches both remembered peer bits from the terminal when the "
    "handshake completes (no class-level defaults stand in for them). "
    "Declined: handshake timings, pipe back-pressure.")
ASSUMPTIONS = ["EL6002 handshake: a chunk is announced by toggling the "
               "request bit and acknowledged by toggling the accept bit"]

S = "ebpfcat.serial.Serial"


def update_shape(chk, repo, f, sym):
    ftop = body_without_docstring(f)
    # canonical shape (E0): `if self.connected: <cycle> else: <handshake>`
    split = [s for s in ftop if isinstance(s, ast.If) and match(
        "self.connected", s.test) is not None and s.orelse]
    need(len(split) == 1, f"{sym}: connected / not connected split not "
                          f"found")
    top = split[0].body          # the connected cycle
    ifs = [s for s in top if isinstance(s, ast.If)]
    ibl = split[0].orelse        # the handshake
    # ---------------------------------------------------------- R28.3
    ok = ftop.index(split[0]) == len(ftop) - 1
    chk.ob("R28.3", sym, "nothing but the init handshake runs before the "
           "connection is up", ok, split[0], "the cycle is the other branch "
           "of the connected test, nothing follows the test")
    acc = [s for s in ibl if isinstance(s, ast.If) and match(
        "self.init_accept", s.test) is not None]
    need(len(acc) == 1 and len(ibl) == 1,
         f"{sym}: handshake completion not found")
    done = acc[0].body
    for attr, src in (("last_transmit_accept", "transmit_accept"),
                      ("last_receive_request", "receive_request")):
        ok = any(match_stmt(f"self.{attr} = self.{src}", s) is not None
                 for s in done)
        chk.ob("R28.3", sym, f"{attr} is latched from the terminal when the "
               f"handshake completes", ok, acc[0],
               f"without the snapshot the first connected cycle compares "
               f"the terminal's bit with a stale default: a chunk is "
               f"accepted (or a transmit slot freed) that was never "
               f"announced")
    sc = repo.cls(S)
    for attr in ("last_transmit_accept", "last_receive_request"):
        chk.ob("R28.3", S, f"{attr} has no class-level default", attr not in
               sc.attrs, sc.attr_stmts.get(attr, sc.node),
               "the remembered peer bits exist only once latched")
    ok = any(match_stmt("self.connected = True", s) is not None for s in done
             ) and any(match_stmt("self.init_request = True", s) is not None
                       for s in acc[0].orelse)
    chk.ob("R28.3", sym, "init is requested until accepted", ok, acc[0],
           "init_request stays set until init_accept, then connected")
    ok = match_stmt("self.init_request = False", ftop[0]) is not None
    chk.ob("R28.3", sym, "the init request is withdrawn otherwise", ok, f,
           "first statement")
    # ---------------------------------------------------------- R28.1 rx
    # every connected cycle ends with the peer's request bit remembered:
    # on the CFG, each path to the exit passes the init branch's return or
    # a store to last_receive_request
    cfg = CFG(f)
    init_ids = {id(x) for b_ in ibl for x in ast.walk(b_)}
    latch = [n for n in cfg.nodes if n.kind == "stmt" and isinstance(
        n.stmt, ast.Assign) and id(n.stmt) not in init_ids and any(
            is_self_attr(t, "last_receive_request") for t in n.stmt.targets)]
    init_rets = [n for n in cfg.nodes if n.stmt is not None
                 and id(n.stmt) in init_ids]
    okl = bool(latch) and cfg.must_pass(
        cfg.entry, lambda n: n in latch or n in init_rets,
        targets=[cfg.exit])
    path = None
    if not okl:
        wpath = cfg.witness_path(cfg.entry, lambda n: n in latch
                                 or n in init_rets, targets=[cfg.exit])
        path = cfg.describe_path(wpath) if wpath else None
    chk.ob("R28.1", sym, "every connected cycle remembers the request bit "
           "it has seen", okl, latch[0].stmt if latch else f,
           "a cycle that leaves update() without latching "
           "last_receive_request sees the same toggle again next cycle: "
           "the chunk is delivered twice and the accept bit toggles twice",
           path)
    rx = [s for s in ifs if match(
        "self.last_receive_request != self.receive_request", s.test)
        is not None]
    need(len(rx) == 1, f"{sym}: receive branch not found")
    rb = rx[0].body
    w = [s for s in rb if find("os.write(self.in_write, self.in_string)", s)]
    fl = [s for s in rb if match_stmt(
        "self.last_receive_accept = not self.last_receive_accept", s)
        is not None]
    st = [s for s in rb if match_stmt(
        "self.receive_accept = self.last_receive_accept", s) is not None]
    ok = len(w) == 1 and len(fl) == 1 and len(st) == 1 and len(rb) == 3 and \
        rb.index(fl[0]) < rb.index(st[0])
    chk.ob("R28.1", sym, "receive: deliver the string, flip the accept bit "
           "and present it - together, once per announced chunk", ok, rx[0],
           "guarded by `last_receive_request != receive_request`")
    i = top.index(rx[0])
    ok = i + 1 < len(top) and match_stmt(
        "self.last_receive_request = self.receive_request", top[i + 1]) \
        is not None
    chk.ob("R28.1", sym, "the remembered request bit is refreshed every "
           "connected cycle", ok, rx[0], "unconditionally after the receive "
           "branch")
    # ---------------------------------------------------------- R28.1 tx
    ta = [s for s in ifs if match(
        "self.last_transmit_accept != self.transmit_accept", s.test)
        is not None]
    need(len(ta) == 1, f"{sym}: transmit-accept branch not found")
    ok = any(match_stmt("self.current_transmit = None", s) is not None
             for s in ta[0].body) and any(match_stmt(
                 "self.last_transmit_accept = self.transmit_accept", s)
        is not None for s in ta[0].body)
    chk.ob("R28.1", sym, "transmit: the outstanding chunk is dropped only "
           "when the accept bit changed", ok, ta[0],
           "current_transmit = None in that branch")
    clears = [s for s in ast.walk(f) if isinstance(s, ast.Assign) and any(
        is_self_attr(t, "current_transmit") for t in s.targets)
        and isinstance(s.value, ast.Constant) and s.value.value is None]
    chk.ob("R28.1", sym, "nothing else drops the outstanding chunk",
           len(clears) == 1, f, f"{len(clears)} clearing statements")
    nw = [s for s in ifs if match("self.current_transmit is None", s.test)
          is not None]
    need(len(nw) == 1, f"{sym}: new-chunk branch not found")
    reads = find("os.read(self.out_read, $n)", nw[0])
    chk.ob("R28.1", sym, "a new chunk is read only when none is "
           "outstanding", len(reads) == 1 and len(find(
               "os.read(self.out_read, $n)", f)) == 1, nw[0],
           "os.read inside `if current_transmit is None`")
    flips = [s for s in ast.walk(f) if isinstance(s, ast.Assign) and any(
        is_self_attr(t, "last_transmit_request") for t in s.targets)
        and not isinstance(s.value, ast.Constant)]
    ok = len(flips) == 1
    why = f"{len(flips)} flip statements"
    if ok:
        facts = path_facts(flips[0])
        ok = any(t and isinstance(e, ast.Name) and e.id == "data"
                 for e, t in facts) and match(
            "not self.last_transmit_request", flips[0].value) is not None
        blk = flips[0]._parent
        sib = getattr(blk, "body", [])
        ok = ok and any(match_stmt("self.current_transmit = data", s)
                        is not None for s in sib)
        why = f"guards {[unparse(e) for e, t in facts if t]}"
    chk.ob("R28.1", sym, "the request bit flips exactly where a non-empty "
           "chunk was stored", ok, flips[0] if flips else nw[0],
           why + ": flipping without data (an empty read after the "
           "application closed its end) re-announces the stale string every "
           "cycle")
    pres = [s for s in ifs if match("self.current_transmit is not None",
                                    s.test) is not None]
    ok = len(pres) == 1 and any(match_stmt(
        "self.out_string = self.current_transmit", s) is not None
        for s in pres[0].body)
    chk.ob("R28.1", sym, "the string is presented on every cycle while a "
           "chunk is outstanding", ok, pres[0] if pres else f,
           "out_string = current_transmit")
    ok = match_stmt("self.transmit_request = self.last_transmit_request",
                    top[-1]) is not None
    chk.ob("R28.1", sym, "the request bit is presented on every connected "
           "cycle", ok, top[-1], "last statement")
    order = [top.index(x) for x in (rx[0], ta[0], nw[0])] + (
        [top.index(pres[0])] if pres else [])
    chk.ob("R28.1", sym, "receive, accept, new chunk, present - in this "
           "order", order == sorted(order), f, "an accepted chunk frees the "
           "slot before the next one is read in the same cycle")
    return reads


def step_table(chk, repo, f, sym):
    """Serial.update as a step function of a finite state, by abstract
    execution over *all* values of the handshake bits and flags it reads
    (connected, init_accept, the four terminal bits and their remembered
    copies, an outstanding chunk or none) x what the application's pipe
    offers (nothing, end of file, a chunk): the state afterwards and what
    was delivered are compared with the protocol - one delivery and one
    accept toggle per announced chunk, the request bit toggled exactly
    when a new non-empty chunk was taken and none was outstanding, an
    outstanding chunk kept until the terminal's accept bit changes, peer
    bits latched when the handshake completes.  Returns the size asked
    from the pipe, or None when update() cannot be evaluated."""
    import itertools
    sc = repo.cls(S)
    B = (False, True)
    bad = []
    rows = 0
    sizes = set()
    for (conn, iacc, rreq, lrreq, lracc, tacc, ltacc, ltreq) in \
            itertools.product(B, repeat=8):
        for cur in (None, b"old"):
            for pipe in ("empty", "eof", b"new!"):
                rows += 1
                log = []

                def os_read(fd, n_, _p=pipe, _l=log):
                    _l.append(("read", fd, n_))
                    if _p == "empty":
                        raise Raised("BlockingIOError")
                    return b"" if _p == "eof" else _p

                def os_write(fd, data, _l=log):
                    _l.append(("write", fd, bytes(data)))
                    return len(data)
                st = {"connected": conn, "init_accept": iacc,
                      "receive_request": rreq, "transmit_accept": tacc,
                      "last_receive_accept": lracc,
                      "last_transmit_request": ltreq,
                      "current_transmit": cur, "in_string": b"rx",
                      "in_write": 7, "out_read": 8,
                      "receive_accept": lracc, "transmit_request": ltreq,
                      "out_string": b"??", "init_request": None}
                if conn:
                    st["last_receive_request"] = lrreq
                    st["last_transmit_accept"] = ltacc
                me = Obj(sc, dict(st))
                ev = Evaluator(repo, f._module, sc, funcs={"os": Obj(None, {
                    "read": ("hook", os_read), "write": ("hook", os_write)})})
                try:
                    ev.call_function(f, [me], cls=sc)
                except Unknown:
                    return None
                except Raised as e:
                    bad.append(f"state {st}: raises {e.what[:30]}")
                    continue
                g = me.fields
                w = dict(st)
                wlog = []
                if not conn:
                    if iacc:
                        w.update(connected=True, init_request=False,
                                 last_transmit_accept=tacc,
                                 last_receive_request=rreq)
                        wlog.append(("write", 7, b"A"))
                    else:
                        w.update(init_request=True)
                else:
                    w["init_request"] = False
                    if lrreq != rreq:
                        wlog.append(("write", 7, b"rx"))
                        w["last_receive_accept"] = not lracc
                        w["receive_accept"] = not lracc
                    w["last_receive_request"] = rreq
                    c2 = cur
                    if ltacc != tacc:
                        c2 = None
                        w["last_transmit_accept"] = tacc
                    if c2 is None:
                        wlog.append(("read", 8, None))
                        if isinstance(pipe, bytes):
                            c2 = pipe
                            w["last_transmit_request"] = not ltreq
                    w["current_transmit"] = c2
                    if c2 is not None:
                        w["out_string"] = c2
                    w["transmit_request"] = w["last_transmit_request"]
                glog = [(k, fd, None if k == "read" else d)
                        for k, fd, d in log]
                sizes |= {d for k, fd, d in log if k == "read"}
                diff = {k: (g.get(k), v) for k, v in w.items()
                        if g.get(k) != v}
                tag = (f"connected={int(conn)} init_accept={int(iacc)} "
                       f"rx request {int(lrreq)}->{int(rreq)} tx accept "
                       f"{int(ltacc)}->{int(tacc)} outstanding "
                       f"{cur!r} pipe {pipe!r}")
                if glog != wlog:
                    if len(bad) < 6:
                        bad.append(f"{tag}: pipe operations {glog}, "
                                   f"expected {wlog}")
                elif diff and len(bad) < 6:
                    k0 = sorted(diff)[0]
                    bad.append(f"{tag}: {k0} becomes {diff[k0][0]!r}, "
                               f"expected {diff[k0][1]!r}")
    chk.ob("R28.1", sym, f"update() is the protocol's step function: one "
           f"delivery and accept toggle per announced chunk, the request "
           f"bit toggled exactly with a new non-empty chunk, an outstanding "
           f"chunk kept until accepted, peer bits latched at the end of the "
           f"handshake ({rows} states x pipe conditions, by abstract "
           f"execution, exhaustive over the bits)", not bad, f,
           "; ".join(bad[:3]) or "every state of the handshake bits")
    sc_attrs = repo.cls(S)
    for attr in ("last_transmit_accept", "last_receive_request"):
        chk.ob("R28.3", S, f"{attr} has no class-level default", attr not in
               sc_attrs.attrs, sc_attrs.attr_stmts.get(attr, sc_attrs.node),
               "the remembered peer bits exist only once latched")
    if len(sizes) != 1:
        return None if not sizes else max(sizes)
    return next(iter(sizes))


def run(chk, repo):
    # the strings and handshake bits travel through PacketVar accessors:
    # their rules (shared with C19) are necessary conditions here
    from . import c19
    chk.doc("R19.2", "accessors transfer the declared bytes/bit unchanged "
                     "(shared with C19)")
    chk.doc("R19.4", "accessor closures (shared with C19)")
    c19.widths(chk, repo)
    c19.closures(chk, repo)
    # what is on the wire for a serial terminal: the frame that is
    # (re)sent carries the current handshake bits and string (shared with
    # C30), and the channel's bytes lie inside its terminal's region
    # (shared with C18)
    from . import c30, c18
    chk.doc("R30.3", "which frame is (re)sent (shared with C30)")
    c30.sends(chk, repo)
    chk.doc("R18.6", "allocation decoded independently (shared with C18)")
    c18.allocation_semantic(chk, repo)
    chk.doc("R28.1", "one toggle per chunk, with the data")
    chk.doc("R28.2", "chunk fits the terminal's string and channel block")
    chk.doc("R28.3", "initialisation")
    sym = S + ".update"
    f = repo.func(sym)
    chk.analysed(sym)
    n_read = step_table(chk, repo, f, sym)
    if n_read is None:
        # update() cannot be executed abstractly: its shape is looked at
        reads = update_shape(chk, repo, f, sym)
    else:
        reads = [(c, b_) for c, b_ in find("os.read($fd, $n)", f)]
    # ---------------------------------------------------------- R28.2
    n = n_read if n_read is not None else (
        int_const(reads[0][1]["n"]) if reads else None)
    ch = repo.cls("ebpfcat.terminals.EL6002.Channel")
    ev = Evaluator(repo, ch.module, ch)
    # every serial channel class (the EL6022's inherits from the EL6002's):
    # the string it declares - or inherits - holds a whole chunk
    for sub in repo.subclasses(ch.qualname):
        if sub is ch:
            continue
        for name in ("out_string", "in_string"):
            _, d = repo.lookup(sub, name)
            b = match("PacketDesc($sm, $pos, $fmt)", d) \
                if d is not None else None
            fmt = str_const(b["fmt"]) if b is not None else None
            cap = calcsize(fmt) - 1 if fmt and fmt.endswith("p") else None
            chk.ob("R28.2", sub.qualname, f"{name}: a chunk of {n} bytes "
                   f"fits the {fmt!r} string", cap is not None and n is not
                   None and n <= cap, d if d is not None else sub.node,
                   f"capacity {cap} bytes (a pascal string of count N "
                   f"holds N-1 bytes): longer chunks are truncated "
                   f"silently by pack()")
    for name in ("out_string", "in_string"):
        d = ch.attrs.get(name)
        b = match("PacketDesc($sm, $pos, $fmt)", d) if d is not None else None
        need(b is not None, f"EL6002.Channel.{name} not found")
        fmt = str_const(b["fmt"])
        pos = int_const(b["pos"])
        cap = calcsize(fmt) - 1 if fmt and fmt.endswith("p") else None
        if name == "out_string":
            chk.ob("R28.2", sym, f"a chunk of {n} bytes fits the terminal's "
                   f"{fmt!r} string", cap is not None and n is not None
                   and n <= cap, reads[0][0] if reads else f,
                   f"capacity {cap} bytes (pascal string: one length byte)")
        # the block of channel 1 ends where channel 2 begins
        el = repo.cls("ebpfcat.terminals.EL6002")
        c2 = el.attrs.get("channel2")
        b2 = match("Channel($a, $b, $c)", c2) if c2 is not None else None
        need(b2 is not None, "EL6002.channel2 not found")
        stride = int_const(b2["a"]) if name == "in_string" else int_const(
            b2["b"])
        ok = fmt is not None and pos is not None and stride is not None \
            and pos + calcsize(fmt) <= stride
        chk.ob("R28.2", ch.qualname, f"{name} ({fmt!r} at byte {pos}) ends "
               f"inside the channel's {stride}-byte block", ok, d,
               f"{pos} + {calcsize(fmt) if fmt else '?'} bytes: one byte "
               f"more overwrites the next channel's control byte every "
               f"cycle")
    ctl = {"transmit_request": 0, "receive_accept": 1, "init_request": 2,
           "transmit_accept": 0, "receive_request": 1, "init_accept": 2}
    fails = []
    for name, bit in ctl.items():
        b = match("PacketDesc($sm, 0, $bit)", ch.attrs.get(name))
        want_sm = "SyncManager.OUT" if name in (
            "transmit_request", "receive_accept", "init_request") else \
            "SyncManager.IN"
        if b is None or int_const(b["bit"]) != bit or unparse(b["sm"]) \
                != want_sm:
            fails.append(name)
    chk.ob("R28.2", ch.qualname, "control and status bits 0/1/2 of byte 0",
           not fails, ch.node, f"mismatching: {fails}" if fails else
           "transmit, receive, init")
    si = repo.func(S + ".__init__")
    fails = [a for a in list(ctl) + ["in_string", "out_string"] if not find(
        f"self.{a} = channel.{a}", si, mode="stmt")]
    chk.ob("R28.2", S + ".__init__", "each device variable is linked to the "
           "channel variable of the same name", not fails, si,
           f"not linked: {fails}" if fails else "8 links")
    # the application side is a byte stream: update() takes what fits the
    # terminal's string and leaves the rest for the next cycle.  A pipe in
    # packet mode (O_DIRECT) throws the rest of a write away.
    pipes = find("os.pipe2($f)", si)
    chk.floor("R28.2", "pipes of a serial device", len(pipes), 2)
    rd_ = ReachingDefs(CFG(si))
    for c, b in pipes:
        fl = b["f"]
        names = {x.attr for x in ast.walk(fl) if isinstance(x, ast.Attribute)
                 and x.attr.startswith("O_")}
        if isinstance(fl, ast.Name):
            for s_, v_ in assigned_values(si, fl.id):
                names |= {x.attr for x in ast.walk(v_) if isinstance(
                    x, ast.Attribute) and x.attr.startswith("O_")}
        ok = "O_NONBLOCK" in names and names <= {"O_NONBLOCK", "O_CLOEXEC"}
        chk.ob("R28.2", S + ".__init__", "the pipe is a non-blocking byte "
               "stream", ok, c, f"flags {sorted(names)}: in packet mode a "
               f"read shorter than what was written discards the rest, "
               f"every chunk beyond the first 22 bytes of a write is lost"
               if not ok else "os.O_NONBLOCK")
