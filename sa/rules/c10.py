"""C10 - user-space map calls never overrun Python buffers.

Symbolic size analysis of every call site of the user-space map
primitives."""
import ast

from .common import *

EXPLANATION = (
    "Decided: for every call site of the user-space map primitives "
    "(lookup_elem, lookup_and_delete_elem, update_elem, delete_elem, "
    "get_next_key) in the package, the symbolic size of each Python buffer "
    "handed to the kernel is compared with the key/value size of the map "
    "the call operates on, taken from that map's create_map call site "
    "(R10.1/R10.2); the primitives in bpf.py themselves must forward sizes "
    "unchanged and allocate result buffers of the size they are asked for "
    "(R10.2b); the per-CPU reader must size its buffer as 8-rounded value "
    "size times a CPU count derived from the *possible* CPUs (R10.3). "
    "Declined: nothing about values; what is trusted is the kernel's "
    "documented copy lengths (key_size, value_size, value_size rounded to 8 "
    "times possible CPUs for per-CPU maps).")
ASSUMPTIONS = [
    "kernel copies exactly key_size / value_size bytes per map primitive; "
    "per-CPU lookups copy round_up(value_size, 8) * num_possible_cpus",
    "struct.calcsize of a literal format is the size of pack()'s result",
    "a Structure instance's .data is bytearray(type.stack) "
    "(checked: Structure.__init__)",
]

BPF = "ebpfcat.bpf."
PRIMS = {BPF + n for n in ("lookup_elem", "lookup_and_delete_elem",
                           "update_elem", "delete_elem", "get_next_key")}


_visiting = set()


class Sym:
    """symbolic size: an int or a canonical name"""
    def __init__(self, v):
        self.v = v

    def __repr__(self):
        return str(self.v)

    def ge(self, other):
        if isinstance(self.v, int) and isinstance(other.v, int):
            return self.v >= other.v
        return self.v == other.v


def run(chk, repo):
    chk.doc("R10.1", "map kinds and their (key_size, value_size) from the "
                     "create_map call sites")
    chk.doc("R10.2", "every buffer passed to a map primitive is at least "
                     "as large as the size the kernel copies")
    chk.doc("R10.2b", "bpf.py primitives forward sizes and allocate result "
                      "buffers of the requested size")
    chk.doc("R10.3", "per-CPU value buffer = 8-rounded size x possible CPUs")
    bpf_primitives(chk, repo)
    maps = map_kinds(chk, repo)
    sites = find_calls_to(repo, PRIMS)
    sites = [(c, q) for c, q in sites if c._module.name != "ebpfcat.bpf"]
    chk.stats["call_sites"] = len(sites)
    chk.floor("R10.2", "map primitive call sites", len(sites), 12)
    for call, q in sorted(sites, key=lambda x: (x[0]._module.name,
                                                x[0].lineno)):
        check_site(chk, repo, maps, call, q.split(".")[-1])
    percpu(chk, repo)


# ------------------------------------------------------------ bpf.py itself
def bpf_primitives(chk, repo):
    rule = "R10.2b"
    cm = repo.func(BPF + "create_map")
    chk.analysed(BPF + "create_map")
    # create_map(map_type, key_size, value_size, max_entries, ...) must hand
    # key_size and value_size to the syscall unchanged
    calls = [c for c in calls_in(cm) if resolve_callee(repo, c) == BPF + "bpf"]
    need(len(calls) == 1, "create_map: expected one bpf() call")
    c = calls[0]
    params = param_names(cm)
    need(params[:4] == params[:4] and len(params) >= 4,
         "create_map signature changed")
    fmt = str_const(c.args[1]) if len(c.args) > 1 else None
    need(fmt is not None, "create_map: attribute format not literal")
    cfg = CFG(cm)
    rd = ReachingDefs(cfg)
    node = cfg.nodes_containing(c)[0]
    for idx, role in ((3, "key_size"), (4, "value_size")):
        # args: cmd, fmt, map_type, key_size, value_size, max_entries
        arg = c.args[idx] if len(c.args) > idx else None
        pname = params[idx - 2]
        ok = isinstance(arg, ast.Name) and arg.id == pname and \
            all(d.kind == "param" for d in rd.reaching(node, pname))
        chk.ob(rule, BPF + "create_map", f"{role} forwarded unchanged", ok,
               c, f"bpf() receives {unparse(arg)} for {role}; the map is "
               f"then created with a size the callers' buffers are not "
               f"computed from" if not ok else "parameter reaches the "
               "syscall attribute unchanged")
    need(fmt[:3] == "III", "create_map attr format: map_type,key,value "
                           "must be three 32-bit words")
    # _lookup_elem: result buffer has the size asked for
    lk = repo.func(BPF + "_lookup_elem")
    chk.analysed(BPF + "_lookup_elem")
    # fold the statements up to the buffer's address being taken, for int
    # sizes and for formats: the buffer must be exactly as large as asked
    p = param_names(lk)
    szp = p[-1]
    addr_st = [i for i, st in enumerate(lk.body) if any(
        isinstance(c, ast.Call) and (dotted(c.func) or "").split(".")[-1]
        in ("addressof", "addrof", "from_buffer") for c in ast.walk(st))]
    need(addr_st, "_lookup_elem: the buffer's address is never taken")
    prefix = lk.body[:addr_st[0]]
    addr_expr = [c for c in ast.walk(lk.body[addr_st[0]]) if isinstance(
        c, ast.Call) and ((dotted(c.func) or "").endswith("from_buffer")
                          or (dotted(c.func) or "") == "addrof")]
    need(addr_expr and isinstance(addr_expr[0].args[0], ast.Name),
         "_lookup_elem: c_char.from_buffer(<buffer>) not found")
    bufname = addr_expr[0].args[0].id
    ev = Evaluator(repo, lk._module)
    bad = []
    for fmt in (1, 4, 8, 24, 4096, "B", "I", "Q", "q", "64I", "<HHBB", "x"):
        env = {pp: None for pp in p}
        env[szp] = fmt
        try:
            ev.run_block(prefix, env)
            got = len(env[bufname])
        except (Unknown, Raised, KeyError, TypeError) as e:
            raise AnalysisError(f"_lookup_elem: cannot fold the allocation "
                                f"for {fmt!r}: {e}")
        want = fmt if isinstance(fmt, int) else calcsize(fmt)
        if got != want:
            bad.append(f"{fmt!r}: {got} bytes, asked for {want}")
    chk.ob(rule, BPF + "_lookup_elem", "value buffer = the size asked for "
           "(an int) or calcsize(format) (12 rows)", not bad, lk.body[
               addr_st[0]], "; ".join(bad[:4]) or "the kernel copies "
           "value_size bytes into this buffer")
    # the address handed to the kernel is that buffer's
    bcalls = [c for c in calls_in(lk) if resolve_callee(repo, c) == BPF + "bpf"]
    need(len(bcalls) == 1, "_lookup_elem: expected one bpf() call")
    # get_next_key
    gk = repo.func(BPF + "get_next_key")
    chk.analysed(BPF + "get_next_key")
    allocs = [n for n in walk_no_nested(gk) if isinstance(n, ast.Assign)
              and match("bytearray($n)", n.value) is not None]
    need(len(allocs) == 2, "get_next_key: expected two allocations")
    kp = param_names(gk)[1]
    for a in allocs:
        n = match("bytearray($n)", a.value)["n"]
        ok = (isinstance(n, ast.Name) and n.id == kp) or match(
            f"len({kp})", n) is not None
        chk.ob(rule, BPF + "get_next_key",
               f"next-key buffer sized by {unparse(n)}", ok, a,
               "the result buffer must be as large as the key (the int "
               "argument or len of the previous key)")


# ----------------------------------------------------------------- R10.1
def map_kinds(chk, repo):
    """(key_size, value_size) per map kind from its create_map call"""
    rule = "R10.1"
    kinds = {}
    sites = [(c, q) for c, q in find_calls_to(repo, {BPF + "create_map"})
             if c._module.name != "ebpfcat.bpf"]
    chk.floor(rule, "create_map call sites", len(sites), 6)
    for call, _ in sites:
        ci = repo.enclosing_class(call)
        need(ci is not None, f"create_map outside a class at "
                             f"{repo.where(call)}")
        need(len(call.args) >= 4, "create_map needs 4 positional arguments")
        ks = size_of_sizeexpr(repo, call.args[1], ci)
        vs = size_of_sizeexpr(repo, call.args[2], ci)
        kind = kind_of_class(repo, ci)
        prev = kinds.get(kind)
        if prev is not None and (repr(prev[0]) != repr(ks)
                                 or repr(prev[1]) != repr(vs)):
            chk.ob(rule, ci.qualname, f"{kind} map created with one size",
                   False, call, f"{kind}: ({ks},{vs}) here but "
                   f"({prev[0]},{prev[1]}) at another create_map site")
        kinds[kind] = (ks, vs, call)
        chk.ob(rule, func_qual(repo, call),
               f"{kind}: key_size={ks} value_size={vs}", True, call,
               "sizes taken from this create_map call")
    for k in ("array", "percpu", "hash", "dict", "progs"):
        need(k in kinds, f"no create_map site found for map kind {k}")
    return kinds


def kind_of_class(repo, ci):
    q = ci.qualname
    if repo.is_subclass(ci, "ebpfcat.arraymap.PerCPUArrayMap") or \
            q == "ebpfcat.arraymap.PerCPUReader":
        return "percpu"
    if repo.is_subclass(ci, "ebpfcat.arraymap.ArrayMap"):
        return "array"
    if q in ("ebpfcat.hashmap.HashMap", "ebpfcat.hashmap.HashGlobalVarDesc"):
        return "hash"
    if q in ("ebpfcat.hashmap.Dict", "ebpfcat.hashmap.TheDict"):
        return "dict"
    if repo.is_subclass(ci, "ebpfcat.ebpfcat.FastEtherCat"):
        return "progs"
    raise AnalysisError(f"map primitive used in unknown class {q}")


def size_of_sizeexpr(repo, e, ci):
    """a size given as a number: literal, class constant, self.size,
    <Struct>.stack"""
    v = int_const(e)
    if v is not None:
        return Sym(v)
    d = dotted(e)
    if d is not None:
        parts = d.split(".")
        if parts[-1] == "stack" and len(parts) >= 2:
            which = parts[-2].lower()
            if which in ("key", "value"):
                return Sym(which.capitalize() + ".stack")
        if d == "self.size":
            return Sym("map.size")
        if d == "self.map.size":
            return Sym("map.size")
        try:
            val = Evaluator(repo, ci.module, ci).eval(
                e, {"self": Obj(ci)})
            if isinstance(val, int):
                return Sym(val)
        except (Unknown, Raised):
            pass
    # a size the analysis cannot relate to anything else: it is kept as an
    # opaque symbol, which no other size is provably >= (the obligation
    # that needs it stays undischarged)
    return Sym("?" + unparse(e))


# ----------------------------------------------------------------- R10.2
def structure_of(repo, func, e, ci):
    """is expression e (e.g. ``key`` or ``self.value``) a Key or a Value
    structure of the enclosing TheDict?"""
    d = dotted(e)
    if d in ("self.key",):
        return "Key"
    if d in ("self.value",):
        return "Value"
    if isinstance(e, ast.Name):
        # assert isinstance(<name>, type(self.key|self.value))
        for n in walk_no_nested(func):
            if isinstance(n, ast.Assert):
                b = match(f"isinstance(@{e.id}, type($t))", n.test)
                if b is not None and dotted(b["t"]) in ("self.key",
                                                        "self.value"):
                    return dotted(b["t"]).split(".")[1].capitalize()
            # if not isinstance(<name>, type(self.key)): raise ...
            if isinstance(n, ast.If) and n.body and isinstance(
                    n.body[0], ast.Raise):
                t = n.test
                parts = t.values if isinstance(t, ast.BoolOp) and isinstance(
                    t.op, ast.Or) else [t]
                if isinstance(t, ast.BoolOp) and isinstance(t.op, ast.And) \
                        and all(match(f"{e.id} is not None", v) is not None
                                for v in t.values[:-1]):
                    # `x is not None and not isinstance(x, T)`: None has no
                    # .data, so whatever gets further is a T
                    parts = [t.values[-1]]
                for p_ in parts:
                    if isinstance(p_, ast.UnaryOp) and isinstance(
                            p_.op, ast.Not):
                        b = match(f"isinstance(@{e.id}, type($t))",
                                  p_.operand)
                        if b is not None and dotted(b["t"]) in (
                                "self.key", "self.value"):
                            return dotted(b["t"]).split(".")[1].capitalize()
    return None


def buffer_size(repo, call, e, ci, func, role):
    """symbolic size of the buffer expression e"""
    ev = Evaluator(repo, ci.module, ci)
    b = match("pack($fmt, $*args)", e)
    if b is not None:
        fmts = set()
        fe = b["fmt"]
        alts = [fe.body, fe.orelse] if isinstance(fe, ast.IfExp) else [fe]
        for a in alts:
            s = str_const(a)
            if s is None:
                # a format taken from a declaration: its size is only known
                # as calcsize(<that format>)
                return Sym(f"calcsize({unparse(a)})")
            fmts.add(calcsize(s))
        if len(fmts) != 1:
            return Sym(min(fmts))
        return Sym(fmts.pop())
    b = match("bytes($n)", e) or match("bytearray($n)", e)
    if b is not None:
        n = int_const(b["n"])
        if n is not None:
            return Sym(n)
        return size_of_sizeexpr(repo, b["n"], ci)
    if isinstance(e, ast.Attribute) and e.attr == "data":
        s = structure_of(repo, func, e.value, ci)
        if s is not None:
            return Sym(s + ".stack")
        if isinstance(e.value, ast.Name) and e.value.id in param_names(func):
            # a caller's object whose type nothing establishes: its buffer
            # is as long as it happens to be
            return Sym(f"len({unparse(e)}), `{e.value.id}` not established "
                       f"to be the map's {role} structure")
    if isinstance(e, ast.Name):
        # a local: single reaching definition
        cfg = CFG(func)
        rd = ReachingDefs(cfg)
        nodes = cfg.nodes_containing(call)
        need(nodes, "call site not in CFG")
        vals = {}
        for d in rd.reaching(nodes[0], e.id):
            if d.kind == "assign" and isinstance(d.value, ast.AST):
                if id(d.value) in _visiting:
                    continue  # a loop-carried copy of the same buffer
                _visiting.add(id(d.value))
                try:
                    # the defining call may be another site than `call`
                    dcall = d.value if isinstance(d.value, ast.Call) else call
                    sz = buffer_size(repo, dcall, d.value, ci, func, role)
                finally:
                    _visiting.discard(id(d.value))
                vals[repr(sz)] = sz
            else:
                raise AnalysisError(f"cannot size local {e.id}")
        if len(vals) == 1:
            return next(iter(vals.values()))
        if not vals:
            raise AnalysisError(f"local {e.id}: no sizable definition")
        ints = [v for v in vals.values() if isinstance(v.v, int)]
        if len(ints) == len(vals):
            return Sym(min(v.v for v in ints))
        # several definitions, not all of them numbers: the buffer is only
        # as large as the one that cannot be bounded
        return Sym("min(" + ", ".join(sorted(vals)) + ")")
    # get_next_key(...) result: as large as its second argument says
    if isinstance(e, ast.Call) and resolve_callee(repo, e) == \
            BPF + "get_next_key":
        return size_arg(repo, e.args[1], ci, func, e)
    raise AnalysisError(f"cannot size buffer {unparse(e)} "
                        f"({role}) at {repo.where(call)}")


def size_arg(repo, e, ci, func, call):
    """an argument that is either an int size or a format / buffer"""
    v = int_const(e)
    if v is not None:
        return Sym(v)
    s = str_const(e)
    if s is not None:
        return Sym(calcsize(s))
    d = dotted(e)
    if d is not None and d.endswith(".stack"):
        return size_of_sizeexpr(repo, e, ci)
    if isinstance(e, ast.BinOp) and isinstance(e.op, ast.Mult):
        return Sym("*".join(sorted([canon(e.left), canon(e.right)])))
    if d is not None and d in ("self.fmt",):
        return Sym("calcsize(self.fmt)")
    return buffer_size(repo, call, e, ci, func, "size")


def canon(e):
    d = dotted(e)
    if d in ("self.map.size", "self.size"):
        return "map.size"
    if d in ("self.map.cpu_no", "self.cpu_no"):
        return "cpu_no"
    return unparse(e)


def check_site(chk, repo, maps, call, prim):
    rule = "R10.2"
    ci = repo.enclosing_class(call)
    need(ci is not None, f"{prim} outside a class at {repo.where(call)}")
    func = repo.enclosing_function(call)
    kind = kind_of_class(repo, ci)
    ks, vs, _ = maps[kind]
    sym = func_qual(repo, call)
    chk.analysed(sym)
    need(len(call.args) >= 2, f"{prim}: too few arguments")

    def ob(role, have, want):
        ok = have.ge(want)
        chk.ob(rule, sym, f"{prim}: {role} buffer >= {want}", ok, call,
               f"{role} buffer is {have} bytes, the kernel copies {want} "
               f"({kind} map)")
    if prim == "get_next_key":
        have = size_arg(repo, call.args[1], ci, func, call)
        ob("key", have, ks)
        return
    keysz = buffer_size(repo, call, call.args[1], ci, func, "key")
    ob("key", keysz, ks)
    if prim in ("lookup_elem", "lookup_and_delete_elem"):
        need(len(call.args) >= 3, f"{prim}: no size argument")
        have = size_arg(repo, call.args[2], ci, func, call)
        if kind == "percpu":
            want = Sym("cpu_no*map.size")
        else:
            want = vs
        ob("value", have, want)
    elif prim == "update_elem":
        need(len(call.args) >= 3, f"{prim}: no value argument")
        have = buffer_size(repo, call, call.args[2], ci, func, "value")
        ob("value", have, vs)


def cpu_count_exec(chk, repo, ci, cm, rule):
    bad = []
    rows = 0
    for mask in ("0", "0-3", "0-7\n", "0,2-5", "0-1,3,5-6", "0,2,4,6",
                 "1-2,8-11,13\n", "0-127", "0-3,8-11"):
        want = 0
        for part in mask.strip().split(","):
            a, _, b = part.partition("-")
            want += int(b or a) - int(a) + 1
        opened = []

        def open_(path, *a, _m=mask, _o=opened, **k):
            _o.append(path)
            f = Obj(None, {"read": ("hook", lambda *a_: _m),
                           "readline": ("hook", lambda *a_: _m),
                           "close": ("hook", lambda: None)})
            f.fields["__enter__"] = ("hook", lambda _f=f: _f)
            f.fields["__exit__"] = ("hook", lambda *a_: None)
            return f
        made = []
        me = Obj(ci, {"size": 24, "name": "m"})
        ev = Evaluator(repo, cm._module, ci, funcs={
            "open": ("hook", open_),
            "create_map": ("hook", lambda *a, **k: made.append(a) or 11),
            "cpu_count": ("hook", lambda *a: 2),
            "os": Obj(None, {"cpu_count": ("hook", lambda *a: 2),
                             "sched_getaffinity": ("hook", lambda *a: {0}),
                             "process_cpu_count": ("hook", lambda *a: 2)})})
        ev.ctor_hooks["ebpfcat.arraymap.PerCPUReader"] = \
            lambda ev_, ci_, args, kw: Obj(None, {"args": tuple(args)})
        try:
            ev.call_function(cm, [me, Obj(None, {}), None], cls=ci)
        except (Unknown, Raised):
            return False        # not executable: the definitions are read
        rows += 1
        got = me.fields.get("cpu_no")
        if not any("cpu/possible" in str(p_) for p_ in opened):
            bad.append(f"the CPU count does not come from "
                       f"/sys/devices/system/cpu/possible (opened: "
                       f"{opened}): the kernel copies one value per "
                       f"*possible* CPU; online or affinity counts can be "
                       f"smaller")
            break
        if got != want:
            bad.append(f"mask {mask.strip()!r}: cpu_no = {got!r}, the mask "
                       f"names {want} CPUs")
    chk.ob(rule, ci.qualname + ".create_map", f"cpu_no is the number of CPUs "
           f"the kernel's possible mask names ({rows} masks by abstract "
           f"execution)", not bad, cm, "; ".join(bad[:2]) or
           "single CPUs, ranges and mixtures")
    return True


# ----------------------------------------------------------------- R10.3
def percpu(chk, repo):
    rule = "R10.3"
    ci = repo.cls("ebpfcat.arraymap.PerCPUArrayMap")
    # (a) map.size is the collect() result, which is rounded up to 8
    am = repo.cls("ebpfcat.arraymap.ArrayMap")
    init = am.methods.get("init")
    need(init is not None, "ArrayMap.init vanished")
    sets = assigned_values(init, "self.size")
    ok = len(sets) == 1 and match("self.collect($e)", sets[0][1]) is not None
    chk.ob(rule, am.qualname + ".init", "map.size = collect()", ok,
           sets[0][0] if sets else init,
           "the size used for create_map, mmap and the per-CPU stride must "
           "be what collect() returns")
    collect = am.methods.get("collect")
    need(collect is not None, "ArrayMap.collect vanished")
    chk.analysed(am.qualname + ".collect")
    rets = [n for n in walk_no_nested(collect) if isinstance(n, ast.Return)]
    need(len(rets) == 1 and rets[0].value is not None,
         "collect: expected a single return")
    cfg = CFG(collect)
    rd = ReachingDefs(cfg)
    rn = cfg.nodes_of(rets[0])[0]
    rv = rets[0].value
    # inline the last straight-line definitions; the loop variable stays
    expr = rv
    for _ in range(4):
        if isinstance(expr, ast.Name):
            ds = rd.reaching(rn, expr.id)
            if len(ds) == 1:
                d = next(iter(ds))
                if d.kind == "assign" and d.node is not None and \
                        isinstance(d.value, ast.AST):
                    expr, rn = d.value, d.node
                    continue
        break
    free = sorted({n.id for n in ast.walk(expr) if isinstance(n, ast.Name)})
    ok = False
    why = f"returned size is {unparse(expr)}"
    if len(free) == 1:
        ev = Evaluator(repo, collect._module)
        try:
            ok = all(ev.eval(expr, {free[0]: p}) == (p + 7) // 8 * 8
                     for p in range(0, 130))
        except (Unknown, Raised) as e:
            why += f" (cannot fold: {e})"
    chk.ob(rule, am.qualname + ".collect",
           "size rounded up to a multiple of 8", ok, rets[0],
           why + "; tabulated for 0..129 against ceil8")
    # (b) cpu_no comes from the possible CPUs: create_map() by abstract
    # execution, `open` being a stand-in that hands out CPU masks of every
    # shape the kernel prints
    cm = ci.methods.get("create_map")
    if cm is not None and cpu_count_exec(chk, repo, ci, cm, rule):
        return
    defs = []
    for c in [ci] + [x for x in repo.classes.values()
                     if x.module.name == "ebpfcat.arraymap"]:
        for m in c.methods.values():
            for stmt, val in assigned_values(m, "self.cpu_no"):
                defs.append((c, m, stmt, val))
    seen = set()
    defs = [d for d in defs if id(d[2]) not in seen and not seen.add(id(d[2]))]
    chk.floor(rule, "definitions of cpu_no", len(defs), 1)
    for c, m, stmt, val in defs:
        texts = {n.value for n in ast.walk(val) if isinstance(n, ast.Constant)
                 and isinstance(n.value, str)}
        called = {dotted(n.func) for n in ast.walk(val)
                  if isinstance(n, ast.Call)}
        # a helper of this package that computes the number: look into it
        for n in ast.walk(val):
            if isinstance(n, ast.Call):
                tgt = resolve_callee(repo, n)
                h_ = None
                try:
                    h_ = repo.func(tgt) if isinstance(tgt, str) else None
                except AnalysisError:
                    h_ = None
                if h_ is not None:
                    for y in ast.walk(h_):
                        if isinstance(y, ast.Constant) and isinstance(
                                y.value, str):
                            texts.add(y.value)
                        if isinstance(y, ast.Call):
                            called.add(dotted(y.func))
        # names bound by enclosing with-statements: open("...possible")
        srcs = set(texts)
        for p in parents(stmt):
            if isinstance(p, (ast.With,)):
                for it in p.items:
                    for n in ast.walk(it.context_expr):
                        if isinstance(n, ast.Constant) and isinstance(
                                n.value, str):
                            srcs.add(n.value)
                    for n in ast.walk(it.context_expr):
                        if isinstance(n, ast.Call):
                            called.add(dotted(n.func))
        bad = {x for x in called if x and x.split(".")[-1] in
               ("cpu_count", "sched_getaffinity", "process_cpu_count")}
        good = any("cpu/possible" in s for s in srcs) or any(
            x and x.split(".")[-1] in ("num_possible_cpus",
                                       "get_possible_cpus")
            for x in called)
        chk.ob(rule, c.qualname + "." + m.name,
               "cpu_no derived from the possible CPUs", good and not bad,
               stmt, f"cpu_no = {unparse(val)[:80]}: the kernel copies one "
               f"value per *possible* CPU; online/affinity counts "
               f"({sorted(x for x in bad)}) can be smaller"
               if not (good and not bad) else
               "reads /sys/devices/system/cpu/possible")
        # the mask is parsed to the number of CPUs it names: fold the
        # expression on masks of every shape the kernel prints
        if good and not bad:
            class _Sub(ast.NodeTransformer):
                n = 0

                def visit_Call(self, node):
                    self.generic_visit(node)
                    if isinstance(node.func, ast.Attribute) and \
                            node.func.attr == "read" and not node.args:
                        self.n += 1
                        return ast.copy_location(
                            ast.Name("__mask", ast.Load()), node)
                    return node
            sub = _Sub()
            expr = sub.visit(clone(val))
            if sub.n == 1:
                ev2 = Evaluator(repo, m._module)
                wrong = []
                for mask in ("0", "0-3", "0-7\n", "0,2-5", "0-1,3,5-6",
                             "0,2,4,6", "1-2,8-11,13\n", "0-127"):
                    want = 0
                    for part in mask.strip().split(","):
                        a, _, b = part.partition("-")
                        want += int(b or a) - int(a) + 1
                    try:
                        got = ev2.eval(expr, {"__mask": mask})
                    except (Unknown, Raised) as e:
                        raise AnalysisError(
                            f"{c.qualname}.{m.name}: cannot fold the CPU "
                            f"mask parser on {mask!r}: {e}")
                    if got != want:
                        wrong.append(f"{mask.strip()!r} -> {got} (has "
                                     f"{want})")
                chk.ob(rule, c.qualname + "." + m.name, "the possible-CPU "
                       "mask is parsed to the number of CPUs it names "
                       "(8 masks)", not wrong, stmt,
                       "; ".join(wrong[:4]) + ": the kernel copies one "
                       "value per possible CPU into a buffer sized by this "
                       "count" if wrong else "ranges and single ids, "
                       "separated by commas")
    # (c) the reader's stride and bound use the same size and count
    pv = repo.cls("ebpfcat.arraymap.PerCPUVar")
    gi = pv.methods.get("__getitem__")
    need(gi is not None, "PerCPUVar.__getitem__ vanished")
    strides = [n for n in walk_no_nested(gi)
               if isinstance(n, ast.BinOp) and isinstance(n.op, ast.Mult)]
    ok = any({canon_d(n.left), canon_d(n.right)} ==
             {"key", "self.descriptor.map.size"} for n in strides)
    chk.ob(rule, pv.qualname + ".__getitem__", "stride = key * map.size", ok,
           gi, "per-CPU values lie map.size (8-rounded) bytes apart")


def canon_d(e):
    return dotted(e) or unparse(e)

# added rules (appended to the explanation the evidence file carries)
EXPLANATION += (" " + 'Added during the build (DESIGN.md 4.31, second table): create_map by abstract execution with a stand-in open() over 9 CPU masks; a key/value object whose type no isinstance check establishes is an undischarged size obligation.')
