"""C01 - integer DSL expressions compute the exact value.

Tables the value semantics is built from; each row is a necessary
condition: a wrong row makes one concrete statement compute a wrong value.
"""
import ast
import itertools

from .common import *
from . import isa
from ..dsl import Ctx as Dsl, EBPF

EXPLANATION = (
    "Decided: the tables and selectors the value semantics of generated "
    "code is built from. R01.1 the Opcode members equal the eBPF ISA "
    "encoding and every opcode sum emitted (all append sites, with their "
    "optional flags and variable parts enumerated) is a set of pairwise "
    "distinct members whose sum is a valid instruction of the intended "
    "class; R01.2/R01.3 the operator algebra, folded on abstract operands "
    "for every combination of operand kinds (signed x fixed expressions, "
    "registers, Python ints/floats of either sign): each Python operator "
    "builds the ISA operation of that operator on the operands in source "
    "order, with the signedness rule of the operator; R01.4 format letter "
    "-> access size, 64-bit predicates; R01.5 the sign-extension guard, "
    "shift amount and register view tabulated over all formats x widths; "
    "R01.6 register views; R01.7 constant encoding (32-bit immediate "
    "range, two-slot 64-bit load, instruction packing); R01.8 signed "
    "division/remainder need a signed lowering; R01.9 a requested width is "
    "the width emitted; R01.10 operand search (contains) covers both "
    "operands so a destination that occurs on the right is not clobbered. "
    "Declined: that an arbitrary expression tree evaluates to the exact "
    "value (register allocation, nested width decisions, truncation on "
    "store depend on the dynamic object graph and the executed "
    "instructions: translation validation, a different family).")
ASSUMPTIONS = [
    "eBPF ISA encoding per include/uapi/linux/bpf_common.h and bpf.h",
    "which object a DSL operator builds depends only on the operand kinds "
    "enumerated (class, signed, fixed, long, int/float, sign, magnitude)",
    "struct.calcsize for format letters",
]

E = "ebpfcat.ebpf."
LETTERS = "BHIQbhiq"
ALL_LETTERS = LETTERS + "xA"


def run(chk, repo):
    d = Dsl(repo)
    r1_table(chk, repo, d)
    r1_sites(chk, repo, d)
    r2_algebra(chk, repo, d)
    r4_formats(chk, repo, d)
    r5_signext(chk, repo, d)
    r5_endian(chk, repo, d)
    r6_views(chk, repo, d)
    r7_constant(chk, repo, d)
    r8_signed_div(chk, repo, d)
    r9_width(chk, repo, d)
    r10_contains(chk, repo, d)
    chk.doc("R01.11", "the lowering of binary and unary operators is the one "
                      "analysed here")
    for base, meths in ((E + "Binary", ["calculate"]),
                        (E + "Unary", ["calculate"])):
        override_rule(chk, repo, "R01.11", base, meths,
                      "the width, sign and operand rules established for "
                      "the operator lowering (R01.2-R01.9) describe "
                      "Binary.calculate / Unary.calculate; an operator "
                      "class with a lowering of its own is outside them")
    # "each operand taking the value its own size defines": a map variable
    # has the bytes of its own format to itself (shared with C08)
    from . import c08
    chk.doc("R08.2", "a map variable's slot has the size of its access "
                     "(shared with C08)")
    chk.doc("R08.3", "one slot per visible variable (shared with C08)")
    c08.layout(chk, repo)
    c08.dedup(chk, repo)
    # an expression assigned to a hash-map variable travels through a stack
    # slot: the slot is the value's for as long as its address is in use
    from . import ebpfshared as sh
    chk.doc("R01.12", "the stack slot of a computed value outlives the use "
                      "of its address (shared with C04/C09)")
    sh.slot_escape_rule(chk, repo, "R01.12")


# ------------------------------------------------------------------ R01.1
def r1_table(chk, repo, d):
    chk.doc("R01.1", "Opcode members equal the ISA encoding; emitted opcode "
                     "sums are valid instructions")
    ci = repo.cls(E + "Opcode")
    mem = d.ev.enum_members(ci)
    for name, want in sorted(isa.EXPECTED.items()):
        have = mem.get(name)
        chk.ob("R01.1", E + "Opcode", f"{name} == {want:#x}",
               have is not None and have.value == want,
               ci.attr_stmts.get(name, ci.node),
               f"Opcode.{name} is "
               f"{have.value if have is not None else 'missing'}, the ISA "
               f"encoding is {want:#x}")
    chk.floor("R01.1", "Opcode members checked", len(isa.EXPECTED), 38)
    # the representation of sums: a set of members, value = arithmetic sum
    fl = repo.cls(E + "OpcodeFlags")
    val = fl.methods.get("value")
    ok = val is not None and bool(find(
        "sum(op.value for op in self.opcodes)", val))
    chk.ob("R01.1", E + "OpcodeFlags.value", "value is the sum of members",
           ok, val or fl.node, "an opcode sum is the arithmetic sum of its "
           "members' values")


def opcode_terms(e):
    """flatten a + chain"""
    if isinstance(e, ast.BinOp) and isinstance(e.op, ast.Add):
        return opcode_terms(e.left) + opcode_terms(e.right)
    return [e]


def r1_sites(chk, repo, d):
    """every emission site: opcode expression is a valid instruction"""
    ev = d.ev
    alu_bin = ["ADD", "SUB", "MUL", "DIV", "OR", "AND", "LSH", "RSH", "MOD",
               "XOR", "ARSH"]
    sizes = ["W", "H", "B", "DW"]
    jumps = ["JEQ", "JGT", "JGE", "JSET", "JNE", "JSGT", "JSGE", "JLT",
             "JLE", "JSLT", "JSLE"]
    mem = ev.enum_members(repo.cls(E + "Opcode"))
    sites = []
    for m in repo.production_modules():
        for c in ast.walk(m.tree):
            if isinstance(c, ast.Call) and isinstance(c.func, ast.Attribute) \
                    and c.func.attr == "append" and len(c.args) == 5 and \
                    (dotted(c.func.value) or "").split(".")[-1] in (
                        "ebpf", "self"):
                sites.append((c, c.args[0]))
            elif isinstance(c, ast.Call) and dotted(c.func) == "Instruction" \
                    and len(c.args) == 5:
                sites.append((c, c.args[0]))
    chk.floor("R01.1", "instruction emission sites", len(sites), 25)
    n = 0
    # an opcode held in a local that is bound to whole opcode expressions
    # (`opcode, dst = self.opcode + Opcode.REG, ...` in the branches, one
    # Instruction(opcode, ...) after them): every binding is looked at
    expanded = []
    for call, opx in sites:
        fn_ = repo.enclosing_function(call)
        if isinstance(opx, ast.Name) and fn_ is not None and opx.id not in \
                param_names(fn_) and opx.id != "op" and \
                local_opcode_domain(repo, call, opx.id) is None:
            vals = []
            for st in walk_no_nested(fn_):
                if not isinstance(st, ast.Assign):
                    continue
                for tg in st.targets:
                    if isinstance(tg, ast.Name) and tg.id == opx.id:
                        vals.append(st.value)
                    elif isinstance(tg, ast.Tuple) and isinstance(
                            st.value, ast.Tuple) and len(tg.elts) == len(
                                st.value.elts):
                        vals += [v for t_, v in zip(tg.elts, st.value.elts)
                                 if isinstance(t_, ast.Name)
                                 and t_.id == opx.id]
            stores_ = [x for x in ast.walk(fn_) if isinstance(x, ast.Name)
                       and x.id == opx.id and isinstance(x.ctx, ast.Store)]
            if vals and len(vals) == len(stores_):
                expanded += [(call, v) for v in vals]
                continue
        expanded.append((call, opx))
    for call, opx in expanded:
        sym = func_qual(repo, call)
        terms = opcode_terms(opx)
        # each term: constant member, optional member (M * cond), or a
        # variable part with a known domain
        choices = []
        okshape = True
        for t in terms:
            b = match("Opcode.$m", t)
            if isinstance(t, ast.Attribute) and dotted(t) and dotted(
                    t).startswith("Opcode."):
                choices.append([[t.attr]])
                continue
            if isinstance(t, ast.BinOp) and isinstance(t.op, ast.Mult) and \
                    dotted(t.left) and dotted(t.left).startswith("Opcode."):
                choices.append([[t.left.attr], []])
                continue
            txt = unparse(t)
            if "fmt_to_opcode" in txt:
                choices.append([[s] for s in sizes])
            elif txt in ("self.operator",):
                choices.append([[o] for o in alu_bin])
            elif isinstance(t, ast.Name) and t.id in param_names(
                    repo.enclosing_function(call)) and not assigned_values(
                        repo.enclosing_function(call), t.id):
                choices.append(None)   # a forwarder: checked at its callers
            elif isinstance(t, ast.Name) and t.id != "op" and \
                    t.id not in param_names(repo.enclosing_function(call)):
                dom = local_opcode_domain(repo, call, t.id)
                if dom is None:
                    okshape = False
                else:
                    choices.append([[x] for x in dom])
            elif txt in ("self.opcode",):
                choices.append([[j] for j in jumps] +
                               [[j, "SHORT"] for j in jumps])
            elif txt in ("op",):
                choices.append(None)   # re-emission of an existing opcode
            else:
                okshape = False
        if not okshape:
            raise AnalysisError(f"{sym}: opcode expression "
                                f"`{unparse(opx)}` has a part whose domain "
                                f"is not known to the rule")
        if any(c is None for c in choices):
            continue
        n += 1
        bad = []
        for combo in itertools.product(*choices):
            names = [x for part in combo for x in part]
            canon = [mem[x].canon for x in names]
            if "XADD" in names and ("H" in names or "B" in names):
                continue  # which formats reach XADD is decided by C06 R06.1
            if len(set(canon)) != len(canon):
                bad.append(f"{'+'.join(names)}: two members with one value "
                           f"(the set keeps one)")
                continue
            v = sum(mem[x].value for x in names)
            cl = isa.classify(v)
            if cl is None:
                bad.append(f"{'+'.join(names)} = {v:#x} is not an "
                           f"instruction")
                continue
            # width/source flags must act on an ALU or jump opcode
            if "LONG" in names and not cl[0].startswith("alu"):
                bad.append(f"{'+'.join(names)}: LONG on a non-ALU opcode")
            if "LONG" in names and cl[0] != "alu64":
                bad.append(f"{'+'.join(names)}: LONG does not give ALU64")
            if "REG" in names and "H" not in names and cl[0] in (
                    "alu32", "alu64", "jmp", "jmp32") and cl[2] != "X":
                bad.append(f"{'+'.join(names)}: REG does not set the X bit")
            if "SHORT" in names and cl[0] != "jmp32":
                bad.append(f"{'+'.join(names)}: SHORT does not give JMP32")
        chk.ob("R01.1", sym, f"emits `{unparse(opx)}`", not bad, call,
               "; ".join(bad[:3]) or "every combination of its parts is a "
               "set of distinct members summing to a valid instruction")
    chk.floor("R01.1", "emission sites with enumerable opcode", n, 20)


def local_opcode_domain(repo, call, name):
    """the Opcode members a local holds where `call` runs, path by path
    (sa/paths.py): `op = Opcode.STX ... op = Opcode.XADD` and a flag that
    selects the member later are the same thing"""
    from .. import paths
    f = repo.enclosing_function(call)
    vals = set()

    def on(st, p):
        node = st.context_expr if isinstance(st, ast.withitem) else st
        if any(c is call for c in ast.walk(node)):
            return paths.substitute(ast.Name(id=name, ctx=ast.Load()), p.env)
    for p in paths.explore(f, on):
        for v in p.events:
            dv = dotted(v)
            if dv and dv.startswith("Opcode."):
                vals.add(dv.split(".")[1])
            elif isinstance(v, ast.Name) and v.id == name and not any(
                    isinstance(x, ast.Name) and x.id == name and isinstance(
                        x.ctx, ast.Store) and not is_plain_const_store(x)
                    for x in ast.walk(f)):
                continue  # not bound on this path: nothing is emitted
            else:
                return None
    return sorted(vals) or None


def is_plain_const_store(name_node):
    from ..paths import is_simple_const
    st = getattr(name_node, "_parent", None)
    return isinstance(st, ast.Assign) and len(st.targets) == 1 and \
        st.targets[0] is name_node and (is_simple_const(st.value) or
                                        isinstance(st.value, ast.IfExp))


# ------------------------------------------------------------ R01.2 / R01.3
def operand_kinds(d):
    exprs = [("E", s, f) for s in (False, True) for f in (False, True)]
    regs = [("R", l, s, f) for l in (False, True) for s in (False, True)
            for f in (False, True)]
    nums = [7, -7, 2.5, -2.5, 1 << 40]
    return exprs, regs, nums


def make(d, kind, label):
    if kind[0] == "E":
        return d.expr(label, kind[1], kind[2])
    return d.register(label, kind[1], kind[2], kind[3])


def kind_str(k):
    if isinstance(k, tuple):
        if k[0] == "E":
            return f"expr(signed={int(k[1])},fixed={int(k[2])})"
        return f"reg(long={int(k[1])},signed={int(k[2])},fixed={int(k[3])})"
    return f"py {k!r}"


def norm_tree(t):
    """ADD(x, NEG(y)) == SUB(x, y); ADD(x, -c) == SUB(x, c)"""
    if isinstance(t, tuple):
        t = tuple(norm_tree(x) for x in t)
        if t[0] == "ADD" and isinstance(t[2], tuple) and t[2][0] == "NEGC":
            return ("SUB", t[1], t[2][1])
    return t


def is_signed_kind(k):
    if isinstance(k, tuple):
        return k[1] if k[0] == "E" else k[2]
    return k < 0


def is_fixed_kind(k):
    if isinstance(k, tuple):
        return k[2] if k[0] == "E" else k[3]
    return isinstance(k, float)


OPS = [ast.Add, ast.Sub, ast.Mult, ast.Div, ast.FloorDiv, ast.Mod, ast.BitOr,
       ast.BitXor, ast.BitAnd, ast.LShift, ast.RShift]
INT_ONLY = {ast.BitOr, ast.BitXor, ast.BitAnd, ast.LShift, ast.RShift}


def r2_algebra(chk, repo, d):
    chk.doc("R01.2", "each Python operator builds the ISA operation of that "
                     "operator on the operands in source order")
    chk.doc("R01.3", "signedness of the result per operator")
    exprs, regs, nums = operand_kinds(d)
    pairs = []
    for a in exprs:
        for b in exprs:
            pairs.append((a, b))
    for a in exprs + regs:
        for nmb in nums:
            pairs.append((a, nmb))
            pairs.append((nmb, a))
    rows = 0
    for op in OPS:
        fails2, fails3 = [], []
        total = 0
        for ka, kb in pairs:
            if op in INT_ONLY and (is_fixed_kind(ka) or is_fixed_kind(kb)):
                continue  # bit operations on fixed-point values: not C01
            if op in (ast.LShift, ast.RShift) and not isinstance(ka, tuple) \
                    and abs(ka) > 64:
                pass
            a = make(d, ka, "a") if isinstance(ka, tuple) else ka
            b = make(d, kb, "b") if isinstance(kb, tuple) else kb
            numsd = {}
            if not isinstance(ka, tuple):
                numsd["a"] = ka
            if not isinstance(kb, tuple):
                numsd["b"] = kb
            total += 1
            what = f"{kind_str(ka)} {op.__name__} {kind_str(kb)}"
            try:
                o = d.binop(op, a, b)
            except Raised as e:
                fails2.append(f"{what}: raises {e.what}")
                continue
            except Unknown as e:
                raise AnalysisError(f"R01.2: cannot fold {what}: {e}")
            tree, k, probs = term_with_neg(d, o, numsd)
            want = isa.PY_ALU.get(op.__name__)
            if op is ast.RShift:
                want = "ARSH" if is_signed_kind(ka) else "RSH"
            exp = (want, "a", "b")
            ok = tree == exp or (op.__name__ in isa.COMMUTATIVE and
                                 tree == (want, "b", "a"))
            if not ok:
                fails2.append(f"{what}: builds {tree}, expected {exp}")
            # signedness
            sg = d.flag(o, "signed")
            if op is ast.RShift:
                wants = bool(is_signed_kind(ka))
            elif op is ast.BitAnd:
                wants = False
            else:
                wants = bool(is_signed_kind(ka) or is_signed_kind(kb))
            alt = wants
            if op is ast.Sub and isinstance(ka, tuple) and ka[0] == "R" \
                    and not isinstance(kb, tuple):
                # `reg - c` is built as the sum of reg and the constant -c
                alt = bool(is_signed_kind(ka) or -kb < 0)
            if bool(sg) not in (wants, alt):
                fails3.append(f"{what}: result signed={sg}, expected "
                              f"{wants}")
        rows += total
        sym = E + "Expression"
        chk.ob("R01.2", sym, f"operator {op.__name__}: {total} operand-kind "
               f"combinations", not fails2, repo.cls(sym).node,
               "; ".join(fails2[:4]) or "all combinations build the ISA "
               "operation on the operands in source order")
        chk.ob("R01.3", sym, f"operator {op.__name__}: signedness", not
               fails3, repo.cls(sym).node, "; ".join(fails3[:4]) or
               "signed iff an operand is signed (left operand for >>, "
               "never for &)")
    chk.floor("R01.2", "operator x operand-kind rows folded", rows, 800)
    # unary minus and abs
    for nm, cls, wants in (("__neg__", "Negate", True),
                           ("__abs__", "Absolute", False)):
        fails = []
        for k in exprs + regs:
            a = make(d, k, "a")
            try:
                o = d.unary(nm, a)
            except (Raised, Unknown) as e:
                fails.append(f"{kind_str(k)}: {e}")
                continue
            okc = isinstance(o, Obj) and repo.is_subclass(o.ci, E + cls) \
                and o.fields.get("arg") is a
            sg = d.flag(o, "signed") if isinstance(o, Obj) else None
            if not okc:
                fails.append(f"{kind_str(k)}: builds {o!r}")
            elif bool(sg) != wants:
                fails.append(f"{kind_str(k)}: signed={sg}, expected {wants}")
        chk.ob("R01.3", E + "Expression." + nm, f"{nm} builds {cls} with "
               f"signed={wants}", not fails, repo.cls(E + cls).node,
               "; ".join(fails[:3]) or f"for all {len(exprs + regs)} operand "
               f"kinds")
    # the instruction Negate emits
    neg = repo.func(E + "Negate.calculate_unary")
    ok = bool(find("self.ebpf.append(Opcode.NEG + Opcode.LONG * long, dst, "
                   "0, 0, 0)", neg))
    chk.ob("R01.2", E + "Negate.calculate_unary", "emits NEG on dst", ok, neg,
           "unary minus is the NEG instruction of the computation width")
    # Memory.signed / Constant.signed
    fails = []
    for f in list(ALL_LETTERS) + [(3, 1)]:
        m = d.memory("m", f)
        sg = d.flag(m, "signed")
        want = isinstance(f, str) and f.islower()
        if bool(sg) != want:
            fails.append(f"fmt {f!r}: signed={sg}")
    for pf in "<>!":
        for f in "HIQhiq":
            m = d.memory("m", pf + f)
            if bool(d.flag(m, "signed")) != f.islower():
                fails.append(f"fmt {pf + f!r}")
    chk.ob("R01.3", E + "Memory.signed", "signed iff the format letter is "
           "lower case", not fails, repo.cls(E + "Memory").node,
           "; ".join(fails[:4]) or "10 letters, 18 prefixed formats, bit "
           "field")
    fails = []
    for v in (5, -5, 0, 2.5, -2.5):
        c = d.ev.construct(repo.cls(E + "Constant"), [d.ebpf, v], {})
        if bool(d.flag(c, "signed")) != (v < 0):
            fails.append(f"Constant({v})")
    chk.ob("R01.3", E + "Constant", "signed iff the value is negative",
           not fails, repo.cls(E + "Constant").node, "; ".join(fails) or
           "5 representative values")


def term_with_neg(d, o, numsd):
    """raw term, recognising a constant that is the negated operand"""
    both = dict(numsd)
    tree, k, probs = d.term(o, {"a", "b"}, both)
    # constants equal to -operand
    def fix(t):
        if isinstance(t, tuple):
            return tuple(fix(x) for x in t)
        for lab, real in numsd.items():
            if isinstance(t, (int, float)) and not isinstance(t, bool) \
                    and t == -real:
                return ("NEGC", lab)
            if isinstance(t, int) and isinstance(real, float) \
                    and t == int(real):
                return lab   # int(<float operand>): integer part, see note
        return t
    return norm_tree(fix(tree)), k, probs


# ------------------------------------------------------------------ R01.4
def r4_formats(chk, repo, d):
    chk.doc("R01.4", "format letter -> access size; 64-bit predicates")
    ev = d.ev
    f2o = repo.func(E + "fmt_to_opcode")
    chk.analysed(E + "fmt_to_opcode")
    mem = ev.enum_members(repo.cls(E + "Opcode"))
    want_size = {c: calcsize(c) for c in LETTERS}
    want_size.update({"x": 8, "A": 4})
    fails = []
    for fmt in list(ALL_LETTERS) + ["<" + c for c in "HIQhiq"] + \
            [">" + c for c in "HIQhiq"] + ["!H", (3, 1), (0, 8)]:
        try:
            r = ev.call_function(f2o, [fmt])
        except (Raised, Unknown) as e:
            fails.append(f"{fmt!r}: {e}")
            continue
        if isinstance(fmt, str):
            want = want_size[fmt[-1]]
        else:
            want = 1
        got = isa.SIZE_BYTES.get(r.value) if isinstance(r, EnumVal) else None
        if got != want:
            fails.append(f"{fmt!r} -> {r!r} ({got} bytes), expected "
                         f"{want}")
    chk.ob("R01.4", E + "fmt_to_opcode", "size modifier = access size of the "
           "format (x: 8, A: 4, bit field: 1)", not fails, f2o,
           "; ".join(fails[:4]) or "27 formats tabulated")
    # bits_to_opcode
    mc = repo.cls(E + "Memory")
    try:
        b2o = ev.class_attr(mc, "bits_to_opcode")
        ok = all(isa.SIZE_BYTES.get(v.value) * 8 == k for k, v in b2o.items()
                 ) and set(b2o) == {8, 16, 32, 64}
    except (Unknown, Raised, AttributeError, TypeError):
        ok = False
    chk.ob("R01.4", E + "Memory.bits_to_opcode", "bits -> size modifier", ok,
           mc.attr_stmts.get("bits_to_opcode", mc.node),
           "8/16/32/64 bits map to B/H/W/DW")
    # fmtsize
    fs = repo.func(E + "fmtsize")
    fails = []
    for fmt in list(LETTERS) + ["x", "<H", ">q", "64I", (3, 1)]:
        want = 8 if fmt == "x" else (calcsize(fmt) if isinstance(fmt, str)
                                     else 1)
        try:
            r = ev.call_function(fs, [fmt])
        except (Raised, Unknown) as e:
            r = e
        if r != want:
            fails.append(f"{fmt!r} -> {r!r}, expected {want}")
    chk.ob("R01.4", E + "fmtsize", "bytes reserved per format", not fails, fs,
           "; ".join(fails[:4]) or "13 formats tabulated")
    # the width with which a value is computed before it is stored
    st = repo.func(E + "Memory._set")
    calls = [c for c, b in find("$v.calculate(None, $long)", st)
             if "self" in unparse(c.args[1])]
    need(len(calls) == 1, "Memory._set: computation-width expression not "
                          "found")
    longx = calls[0].args[1]
    fails = []
    fmts = list(ALL_LETTERS) + [p + c for p in "<>!" for c in "HIQhiq"]
    for fmt in fmts:
        m = Obj(mc, {"fmt": fmt})
        try:
            r = bool(ev.eval(longx, {"self": m}))
        except (Raised, Unknown) as e:
            fails.append(f"{fmt!r}: {e}")
            continue
        want = want_size[fmt[-1]] == 8
        if r != want:
            fails.append(f"fmt {fmt!r}: computed in "
                         f"{'64' if r else '32'} bits, stored in "
                         f"{want_size[fmt[-1]]} bytes")
    chk.ob("R01.4", E + "Memory._set", "value computed in 64 bits iff the "
           "destination is 8 bytes wide", not fails, calls[0],
           "; ".join(fails[:4]) or f"{len(fmts)} formats tabulated")
    # the width reported by a load
    cal = repo.func(E + "Memory.calculate")
    ys = [y for y in walk_no_nested(cal) if isinstance(y, ast.Yield)
          and isinstance(y.value, ast.Tuple) and len(y.value.elts) == 2
          and "self" in unparse(y.value.elts[1])]
    need(len(ys) == 1, "Memory.calculate: width expression not found")
    wx = ys[0].value.elts[1]
    fails = []
    for fmt in ALL_LETTERS:
        try:
            r = bool(ev.eval(wx, {"self": Obj(mc, {"fmt": fmt})}))
        except (Raised, Unknown) as e:
            fails.append(f"{fmt!r}: {e}")
            continue
        want = want_size[fmt] == 8 or fmt == "A"
        if r != want:
            fails.append(f"fmt {fmt!r}: reported {'64' if r else '32'} bit")
    chk.ob("R01.4", E + "Memory.calculate", "a loaded value is reported 64 "
           "bit wide iff its format is 8 bytes (or a pointer, A)", not fails,
           ys[0], "; ".join(fails[:4]) or "10 letters tabulated")


    # signedness and fixed-point-ness a memory operand reports: they select
    # signed/unsigned jumps and shifts and the fixed-point scaling
    fails = []
    fmts = list(LETTERS) + ["x"] + [p + c for p in "<>!" for c in "HIQhiq"]
    for fmt in fmts:
        m = Obj(mc, {"fmt": fmt})
        for attr, want in (("signed", fmt[-1] in "bhiqx"),
                           ("fixed", fmt == "x")):
            try:
                r = ev.getattr(m, attr)
            except (Raised, Unknown) as e:
                fails.append(f"{fmt!r}.{attr}: {e}")
                continue
            if bool(r) != want:
                fails.append(f"fmt {fmt!r}: {attr} is {bool(r)}")
    for fmt in ((3, 1), (0, 8)):
        try:
            if bool(ev.getattr(Obj(mc, {"fmt": fmt}), "signed")):
                fails.append(f"bit field {fmt!r} is signed")
        except (Raised, Unknown) as e:
            fails.append(f"{fmt!r}.signed: {e}")
    chk.ob("R01.4", E + "Memory.signed", "a memory operand is signed iff its "
           "format letter is (b h i q and the fixed-point x), fixed iff x",
           not fails, mc.methods.get("signed", mc.node),
           "; ".join(fails[:4]) or f"{len(fmts) + 2} formats tabulated: "
           "signedness selects JSLT/JSGT.. and ARSH")


# ------------------------------------------------------------------ R01.5
def load_width(chk, repo, rule="R01.5"):
    """the width a value is asked for reaches the load unchanged: a
    calculate() that passes its own `long` on to load() passes the
    parameter itself (sign extension to 64 bits happens in load(), for the
    width it is told)"""
    n = 0
    for fn in repo.all_functions([repo.module("ebpfcat.ebpf")]):
        if "long" not in param_names(fn):
            continue
        calls = [c for c in walk_no_nested(fn) if isinstance(c, ast.Call)
                 and isinstance(c.func, ast.Attribute) and c.func.attr
                 == "load" and len(c.args) == 5]
        if not calls:
            continue
        cfg = CFG(fn)
        rd = ReachingDefs(cfg)
        for c in calls:
            n += 1
            a = c.args[4]
            ok = isinstance(a, ast.Name) and a.id == "long"
            why = f"`{unparse(a)}` is passed as the width"
            if ok:
                nodes = cfg.nodes_containing(c)
                need(nodes, f"{func_qual(repo, c)}: load() call not in CFG")
                ds = rd.reaching(nodes[0], "long")
                redefs = [d_ for d_ in ds if d_.node is not None]
                ok = not redefs
                why = (f"`long` is re-bound by "
                       f"`{unparse(redefs[0].node.stmt)[:50]}` before the "
                       f"load: a value asked for in 64 bits is loaded (and "
                       f"sign-extended) for a narrower width" if redefs
                       else "the parameter itself")
            chk.ob(rule, func_qual(repo, c), "load() is told the width the "
                   "caller asked for", ok, c, why)
    chk.floor(rule, "load() calls in calculate()", n, 2)


def address_width(chk, repo, rule="R01.5"):
    """the address of a memory operand is a pointer: it is computed in 64
    bits whatever width the value is wanted in (every
    `self.address.calculate(..., True)`)"""
    n = 0
    for fn in repo.all_functions([repo.module("ebpfcat.ebpf")]):
        for c in walk_no_nested(fn):
            if isinstance(c, ast.Call) and isinstance(
                    c.func, ast.Attribute) and c.func.attr == "calculate" \
                    and unparse(c.func.value).endswith("address") and len(
                        c.args) >= 2:
                n += 1
                ok = isinstance(c.args[1], ast.Constant) and \
                    c.args[1].value is True
                chk.ob(rule, func_qual(repo, c), "the address expression is "
                       "computed in 64 bits", ok, c,
                       f"`{unparse(c)[:60]}`" + ("" if ok else ": with the "
                       "width of the value a computed pointer is added up "
                       "in 32 bits and truncated"))
    chk.floor(rule, "address computations", n, 2)


def r5_signext(chk, repo, d):
    load_width(chk, repo)
    address_width(chk, repo)
    chk.doc("R01.5", "sign extension after a load: guard, shift amount, "
                     "register view")
    ev = d.ev
    ld = repo.func(E + "Expression.load")
    chk.analysed(E + "Expression.load")
    ifs = [s for s in ld.body if isinstance(s, ast.If) and any(
        isinstance(x, ast.BinOp) and isinstance(x.op, ast.RShift)
        for b in s.body for x in ast.walk(b))]
    need(len(ifs) == 1, "Expression.load: expected one guard around the "
         "sign-extending shift pair")
    guard = ifs[0]
    body = guard.body
    # statements before the guard that only re-bind locals (a default for
    # `long`, say) are folded first; instruction emission is skipped
    prelude = [s for s in ld.body[:ld.body.index(guard)]
               if not isinstance(s, ast.Expr)]
    ext = [s for s in ast.walk(guard) if isinstance(s, ast.Assign) and match(
        "(regs[dst] << shift) >> shift", s.value) is not None
        and match("regs[dst]", s.targets[0]) is not None]
    chk.ob("R01.5", E + "Expression.load", "extension is (reg << s) >> s on "
           "the loaded register", len(ext) == 1, guard,
           "a left shift followed by a right shift by the same amount in "
           "a signed register view")
    need(len(ext) == 1, "Expression.load: the shift pair was not found")
    ext = ext[0]
    names = match("(regs[dst] << shift) >> shift", ext.value)
    regs_name = names.get("~regs", "regs")
    shift_name = names.get("~shift", "shift")

    def walk_body(stmts, env, out):
        for st in stmts:
            if st is ext:
                out.append((env.get(shift_name), env.get(regs_name)))
            elif isinstance(st, ast.If):
                if ev.truth(ev.eval(st.test, env)):
                    walk_body(st.body, env, out)
                else:
                    walk_body(st.orelse, env, out)
            elif isinstance(st, ast.Expr):
                continue
            else:
                ev.run_stmt(st, env)
    fake_ebpf = Obj(None, {"sr": "sr", "sw": "sw", "r": "r", "w": "w"})
    fails = []
    rows = 0
    for fmt in list(ALL_LETTERS) + [(3, 1)]:
        for long in (True, False, None):
            rows += 1
            env = {"fmt": fmt, "long": long, "dst": 3,
                   "self": Obj(None, {"ebpf": fake_ebpf})}
            out = []
            try:
                if ev.run_block(prelude, env) is not None:
                    fails.append(f"{fmt!r}/{long}: returns before the guard")
                    continue
                long = env["long"]
                walk_body([guard], env, out)
            except (Raised, Unknown) as e:
                fails.append(f"{fmt!r}/{long}: {e}")
                continue
            g = bool(out)
            width = 64 if long else 32
            signed = isinstance(fmt, str) and fmt in "bhiq"
            bits = calcsize(fmt) * 8 if signed else None
            want = bool(signed and bits < width)
            if g != want:
                fails.append(f"fmt {fmt!r} long={long}: extends={g}"
                             f"{' by ' + str(out[0][0]) if out else ''}, "
                             f"expected {want}")
                continue
            if g:
                sh, rg = out[0]
                if sh != width - bits:
                    fails.append(f"fmt {fmt!r} long={long}: shift {sh}, "
                                 f"expected {width - bits}")
                if rg != ("sr" if long else "sw"):
                    fails.append(f"fmt {fmt!r} long={long}: view {rg}")
    chk.ob("R01.5", E + "Expression.load", f"guard/shift/view table "
           f"({rows} rows)", not fails, guard, "; ".join(fails[:4]) or
           "extends exactly the signed formats narrower than the "
           "computation width, by width - 8*size, in the signed view of "
           "that width")
    # every caller hands its own requested width on
    sites = [c for f in repo.all_functions([repo.module("ebpfcat.ebpf")])
             for c in calls_in(f) if isinstance(c.func, ast.Attribute)
             and c.func.attr == "load" and len(c.args) + len(c.keywords) >= 4]
    chk.floor("R01.5", "call sites of Expression.load", len(sites), 2)
    lparams = param_names(ld)
    need("long" in lparams, "Expression.load lost its width parameter")
    pos = lparams.index("long") - 1     # without self
    for c in sites:
        w = c.args[pos] if len(c.args) > pos else next(
            (k.value for k in c.keywords if k.arg == "long"), None)
        ok = isinstance(w, ast.Name) and w.id == "long"
        chk.ob("R01.5", func_qual(repo, c), f"`{unparse(c)[:50]}` extends to "
               f"the width its caller was asked for", ok, c,
               "the width argument is the caller's `long`" if ok else
               f"width argument is `{unparse(w) if w is not None else 'missing'}`: "
               f"a signed 1/2/4-byte value loaded for a 64-bit expression "
               f"is then extended to 32 bits only and enters as 2**32 - |v|")
    # the load itself
    ok = bool(find("self.ebpf.append(Opcode.LD + fmt_to_opcode(fmt), dst, "
                   "src, offset, 0)", ld))
    chk.ob("R01.5", E + "Expression.load", "load is LDX|MEM|size(fmt)", ok,
           ld, "the load instruction carries the format's size modifier")


class _RegVal:
    """a register view's value with the shifts applied to it"""
    def __init__(self, arr, no, trace=()):
        self.arr, self.no, self.trace = arr, no, tuple(trace)

    def __lshift__(self, k):
        return _RegVal(self.arr, self.no, self.trace + (("<<", k),))

    def __rshift__(self, k):
        return _RegVal(self.arr, self.no, self.trace + ((">>", k),))


class _RegArr:
    _sa_recorder = True

    def __init__(self, name, log):
        self.name, self.log = name, log

    def __getitem__(self, no):
        return _RegVal(self.name, no)

    def __setitem__(self, no, v):
        self.log.append(("set", self.name, no, v))


def r5_endian(chk, repo, d):
    """a load with an explicit byte order: the swap instruction
    zero-extends, so a signed value has to be sign-extended after it.
    Decided by abstract execution: the operand Memory.calculate builds for
    an endian format is constructed by the evaluator, and its
    calculate_unary is run on recording register views, for every endian
    format and both widths."""
    ev = d.ev
    mc = repo.cls(E + "Memory")
    se = repo.cls(E + "SwitchEndian")
    cal = repo.func(E + "Memory.calculate")
    items = [(w, it) for w in walk_no_nested(cal) if isinstance(
        w, (ast.With,)) for it in w.items if match(
            "$x.calculate(dst, long, force)", it.context_expr) is not None
        and any(t and match("self.has_endian()", e) is not None
                for e, t in path_facts(w))]
    need(len(items) == 1, "Memory.calculate: the byte-swapping branch was "
                          "not found")
    sx = match("$x.calculate(dst, long, force)",
               items[0][1].context_expr)["x"]
    # plain statements of the branch that run before the load is issued
    holder = items[0][0]._parent
    blk = next((getattr(holder, f_) for f_ in ("body", "orelse")
                if items[0][0] in getattr(holder, f_, [])), [])
    pre = blk[:blk.index(items[0][0])] if items[0][0] in blk else []
    cu = se.methods.get("calculate_unary")
    need(cu is not None, "SwitchEndian.calculate_unary vanished")
    chk.analysed(E + "SwitchEndian.calculate_unary")
    mem = ev.enum_members(repo.cls(E + "Opcode"))
    fails = []
    rows = 0
    for fmt in [p + c for p in "<>!" for c in "HIQhiq"]:
        for long in (True, False):
            log = []
            ebpf = Obj(None, {"append": ("hook", lambda *a: log.append(
                ("append",) + a)), "sr": _RegArr("sr", log),
                "sw": _RegArr("sw", log)})
            m = Obj(mc, {"fmt": fmt, "ebpf": ebpf,
                         "address": Opaque("address")})
            try:
                ev1 = Evaluator(repo, cal._module, mc)
                env1 = {"self": m, "dst": 3, "long": long, "force": False}
                ev1.run_block(pre, env1)
                sw = ev1.eval(sx, env1)
                if not (isinstance(sw, Obj) and sw.ci is not None
                        and repo.is_subclass(sw.ci, E + "SwitchEndian")):
                    fails.append(f"{fmt!r}: the operand built for the load "
                                 f"is {sw!r}, not a byte swap")
                    continue
                Evaluator(repo, cu._module, se).call_function(
                    cu, [sw, 3, long], cls=se)
            except (Unknown, Raised) as e:
                raise AnalysisError(f"R01.5: byte-swapped load of {fmt!r} "
                                    f"cannot be evaluated: {e}")
            rows += 1
            bits = calcsize(fmt[-1]) * 8
            width = 64 if long else 32
            tag = f"{fmt!r} computed in {width} bits"
            inner = sw.fields.get("arg")
            if not (isinstance(inner, Obj) and isinstance(
                    inner.fields.get("fmt"), str) and calcsize(
                        inner.fields["fmt"][-1]) * 8 == bits):
                fails.append(f"{tag}: raw bytes loaded as "
                             f"{getattr(inner, 'fields', {}).get('fmt')!r}")
            apps = [e for e in log if e[0] == "append"]
            want_op = "LE" if fmt[0] == "<" else "BE"
            if len(apps) != 1 or not isinstance(apps[0][1], EnumVal) or \
                    apps[0][1].name != want_op or apps[0][2:] != (
                        3, 0, 0, bits):
                fails.append(f"{tag}: swap emitted as {apps}")
            sets = [e for e in log if e[0] == "set"]
            if fmt[-1].islower() and bits < width:
                k = width - bits
                ok = len(sets) == 1 and sets[0][1] == (
                    "sr" if long else "sw") and sets[0][2] == 3 and \
                    isinstance(sets[0][3], _RegVal) and \
                    sets[0][3].no == 3 and sets[0][3].arr == sets[0][1] \
                    and sets[0][3].trace == (("<<", k), (">>", k))
                if not ok:
                    fails.append(f"{tag}: signed value not sign-extended "
                                 f"after the swap")
            elif sets:
                fails.append(f"{tag}: unexpected register update after the "
                             f"swap")
    chk.floor("R01.5", "byte-swapped loads tabulated", rows, 36)
    chk.ob("R01.5", E + "SwitchEndian.calculate_unary", "a byte-swapped "
           "signed value narrower than the computation is sign-extended "
           "after the swap (the swap zero-extends)", not fails, cu,
           "; ".join(fails[:3]) or f"{rows} rows: 18 endian formats x 2 "
           "widths, the operand as Memory.calculate builds it")


# ------------------------------------------------------------------ R01.6
def r6_views(chk, repo, d):
    chk.doc("R01.6", "register views r/sr/w/sw/x and their descriptors")
    init = repo.func(E + "EBPF.__init__")
    want = {"r": (True, False, False), "sr": (True, True, False),
            "w": (False, False, False), "sw": (False, True, False),
            "x": (True, True, True)}
    ra = repo.func(E + "RegisterArray.__init__")
    params = param_names(ra)[2:]
    need(params[:2] == ["long", "signed"], "RegisterArray.__init__ "
                                           "signature changed")
    for name, (lg, sg, fx) in want.items():
        vals = [v for s, v in assigned_values(init, f"self.{name}")]
        ok = False
        if len(vals) == 1:
            b = match("RegisterArray(self, $*a)", vals[0])
            if b is not None:
                try:
                    a = [d.ev.eval(x) for x in b["a"]] + [False]
                    ok = (bool(a[0]), bool(a[1]), bool(a[2])) == (lg, sg, fx)
                except (Unknown, Raised):
                    ok = False
        chk.ob("R01.6", E + "EBPF.__init__", f"self.{name} = "
               f"RegisterArray(long={lg}, signed={sg}, fixed={fx})", ok,
               vals[0] if vals else init, "width/signedness of the view")
    gi = repo.func(E + "RegisterArray.__getitem__")
    ok = bool(find("Register(no, self.ebpf, self.long, self.signed, "
                   "self.fixed)", gi))
    rp = param_names(repo.func(E + "Register.__init__"))
    ok = ok and rp[1:6] == ["no", "ebpf", "long", "signed", "fixed"]
    chk.ob("R01.6", E + "RegisterArray.__getitem__", "registers inherit the "
           "view's flags", ok, gi, "Register(no, ebpf, long, signed, fixed)")
    # descriptors r0.., tmp..
    m = repo.module("ebpfcat.ebpf")
    loops = []
    for s in m.tree.body:
        if isinstance(s, ast.For):
            for c, b in find("setattr(EBPF, $name, RegisterDesc($i, $arr))",
                             s):
                loops.append((s, b))
    chk.floor("R01.6", "register descriptor loops", len(loops), 5)
    for s, b in loops:
        nm = b["name"]
        pre = nm.values[0].value if isinstance(nm, ast.JoinedStr) and \
            isinstance(nm.values[0], ast.Constant) else None
        arr = str_const(b["arr"])
        chk.ob("R01.6", "ebpfcat.ebpf", f"descriptors {pre}<i> use view "
               f"{arr!r}", pre is not None and pre == arr, s,
               "the descriptor name prefix is the name of the view")
    eb = repo.cls(E + "EBPF")
    for nm, arr in (("tmp", "r"), ("stmp", "sr"), ("wtmp", "w"),
                    ("swtmp", "sw"), ("xtmp", "x")):
        v = eb.attrs.get(nm)
        ok = v is not None and match(f"TemporaryDesc(None, '{arr}')", v) \
            is not None
        chk.ob("R01.6", E + "EBPF", f"{nm} is a temporary of view {arr!r}",
               ok, v or eb.node, "temporary registers")


# ------------------------------------------------------------------ R01.7
def not_memoised(chk, repo, rule="R01.7"):
    """a Constant is scaled in place (`value *= FIXED_BASE` through
    __imul__): what is derived from its value - small_constant above all,
    which selects the immediate form - is computed when asked, never
    remembered from before the scaling"""
    cc = repo.cls(E + "Constant")
    mut = [n for n in cc.methods if n.startswith("__i") and n.endswith("__")
           and n not in ("__init__", "__index__", "__int__", "__iter__",
                         "__invert__")]
    bad = []
    n = 0
    for name, f in cc.methods.items():
        if not isinstance(f, FUNC):
            continue
        n += 1
        for dec in f.decorator_list:
            nm = (dotted(dec.func if isinstance(dec, ast.Call) else dec)
                  or "").split(".")[-1]
            if nm in ("cached_property", "cache", "lru_cache"):
                bad.append((f, f"Constant.{name} is @{nm}"))
    chk.ob(rule, E + "Constant", "nothing derived from a constant's value "
           "is memoised", not bad or not mut, bad[0][0] if bad else cc.node,
           (bad[0][1] + f": the constant is scaled in place "
            f"({', '.join(mut)}) after the first look, and the remembered "
            f"answer then selects a 32-bit immediate for a value that "
            f"needs 64") if bad and mut else f"{n} methods, plain "
           f"properties")


def r7_constant(chk, repo, d):
    not_memoised(chk, repo)
    chk.doc("R01.7", "constant encoding")
    ev = d.ev
    cc = repo.cls(E + "Constant")
    fails = []
    for v in (-(1 << 31) - 1, -(1 << 31), -1, 0, 1, (1 << 31) - 1, 1 << 31,
              (1 << 32) - 1, 1 << 32, 1 << 63, -(1 << 63)):
        c = Obj(cc, {"value": v})
        try:
            sc = bool(d.flag(c, "small_constant"))
        except AnalysisError as e:
            fails.append(str(e))
            continue
        if sc != (-(1 << 31) <= v < (1 << 31)):
            fails.append(f"{v:#x}: small_constant={sc}")
    chk.ob("R01.7", E + "Constant.small_constant", "true exactly for the "
           "signed 32-bit range", not fails, cc.methods.get(
               "small_constant", cc.node), "; ".join(fails[:4]) or
           "11 boundary values: a 32-bit immediate is sign-extended by "
           "64-bit instructions, so 2**31 must not be one")
    # the constant as constructed: its bits are the given value's, and it
    # counts as signed exactly when the given value is negative (that picks
    # ARSH / the signed comparisons for every expression it is part of)
    fails = []
    nvals = 0
    for v in (0, 1, -1, 255, -256, (1 << 31) - 1, 1 << 31, -(1 << 31),
              (1 << 32) - 1, 1 << 32, (1 << 63) - 1, 1 << 63,
              (1 << 63) + 12345, (1 << 64) - 1, 0xf000000000000000,
              -(1 << 63), 0.5, -0.5, 3.25, -1234.5):
        nvals += 1
        try:
            c = ev.construct(cc, [d.ebpf, v], {})
            sg = bool(d.flag(c, "signed"))
            val = ev.getattr(c, "value")
            fx = bool(d.flag(c, "fixed"))
        except (Raised, Unknown, AnalysisError) as e:
            fails.append(f"{v!r}: {e}")
            continue
        want = v if isinstance(v, int) else round(v * d.base)
        if sg != (v < 0):
            fails.append(f"Constant({v:#x}).signed is {sg}" if isinstance(
                v, int) else f"Constant({v}).signed is {sg}")
        elif not isinstance(val, int) or (val - want) % (1 << 64) or \
                fx != isinstance(v, float):
            fails.append(f"Constant({v!r}).value is {val!r}, fixed={fx}")
    chk.ob("R01.7", E + "Constant.__init__", f"a constant carries the bits "
           f"of the value given and is signed exactly when that is negative "
           f"({nvals} values over the 64-bit range and decimals, constructed "
           f"by abstract execution)", not fails,
           cc.methods.get("__init__", cc.node), "; ".join(fails[:3]) + (
               ": an unsigned constant taken for signed turns >> into an "
               "arithmetic shift and comparisons into signed ones" if fails
               else "") or "value = index(value), signed = value < 0")
    cal = repo.func(E + "Constant.calculate")
    chk.analysed(E + "Constant.calculate")
    ifs = [s for s in walk_no_nested(cal) if isinstance(s, ast.If)
           and match("self.small_constant", s.test) is not None]
    need(len(ifs) == 1, "Constant.calculate: small/large branch not found")
    small, large = ifs[0].body, ifs[0].orelse
    ok = len(find("self.ebpf.append(Opcode.MOV + Opcode.LONG, dst, 0, 0, "
                  "value)", small)) == 1
    chk.ob("R01.7", E + "Constant.calculate", "small: MOV64 imm", ok,
           ifs[0], "a 32-bit immediate moved with the 64-bit MOV is "
           "sign-extended to the full value")
    a1 = find("self.ebpf.append(Opcode.DW, dst, 0, 0, value & 0xffffffff)",
              large)
    a2 = find("self.ebpf.append(Opcode.W, 0, 0, 0, value >> 32)", large)
    ok = len(a1) == 1 and len(a2) == 1 and a1[0][0].lineno < a2[0][0].lineno
    chk.ob("R01.7", E + "Constant.calculate", "large: LD_IMM64 in two slots "
           "(low word, then high word)", ok, ifs[0],
           "first slot opcode DW (0x18) with the low 32 bits, second slot "
           "opcode 0 with the high 32 bits of the same value")
    vdef = assigned_values(cal, "value")
    ok = len(vdef) == 1 and match("int(self.value)", vdef[0][1]) is not None
    chk.ob("R01.7", E + "Constant.calculate", "both words from one value", ok,
           cal, "value = int(self.value)")
    store_immediate(chk, repo, d)
    asm = repo.func(E + "EBPF.assemble")
    # by abstract execution on instruction lists (negative offsets and
    # immediates, immediates of 2^31 and more, every register pair), against
    # the ISA's layout: opcode u8, dst | src << 4, offset s16, immediate s32
    import struct as _struct
    ec = repo.cls(E + "EBPF")
    lists = [[], [(0x95, 0, 0, 0, 0)],
             [(0xb7, 3, 0, 0, -1), (0x05, 0, 0, -3, 0),
              (0x18, 9, 10, 0, 0x80000000), (0x7b, 10, 1, -8, 0x7fffffff),
              (0x63, 2, 15, 0x7fff, -2147483648), (0xdb, 15, 15, -32768, 5)]]
    lists.append([(0x07, d_, s_, d_ - s_, d_ * 1000 - 5000)
                  for d_ in range(11) for s_ in range(0, 11, 5)])
    bad = []
    for lst in lists:
        insns = [Obj(None, {"opcode": Obj(None, {"value": o}), "dst": d_,
                            "src": s_, "off": off, "imm": imm})
                 for o, d_, s_, off, imm in lst]
        me = Obj(ec, {"opcodes": insns})
        try:
            # (the program was generated before: sub(EBPF, self).program()
            # is a stand-in that adds nothing)
            got = Evaluator(repo, asm._module, ec, funcs={
                "sub": ("hook", lambda *a: Obj(None, {"program": (
                    "hook", lambda *a_: None)}))}).call_function(
                asm, [me], cls=ec)
        except (Unknown, Raised) as e:
            raise AnalysisError(f"{E}EBPF.assemble: cannot be evaluated: "
                                f"{e}")
        want = b"".join(_struct.pack(
            "<BBhi", o, d_ | s_ << 4, off, imm if imm < 1 << 31
            else imm - (1 << 32)) for o, d_, s_, off, imm in lst)
        if not isinstance(got, (bytes, bytearray)) or bytes(got) != want:
            k = next((i for i in range(0, len(want), 8) if bytes(
                got or b"")[i:i + 8] != want[i:i + 8]), 0) // 8
            bad.append(f"{len(lst)} instructions: instruction {k} "
                       f"{lst[k] if lst else ''} is encoded as "
                       f"{bytes(got or b'')[8 * k:8 * k + 8].hex()}, the "
                       f"ISA says {want[8 * k:8 * k + 8].hex()}")
    chk.ob("R01.7", E + "EBPF.assemble", "instruction = <BBHI opcode, "
           "dst|src<<4, off mod 2^16, imm mod 2^32", not bad, asm,
           "; ".join(bad[:2]) or "8 bytes little endian per the ISA (4 "
           "instruction lists by abstract execution)")


def store_immediate(chk, repo, d):
    """the store-immediate shortcut of Memory._set: the 32-bit immediate
    of ST is sign-extended for 8-byte stores, so whatever predicate of the
    constant selects the shortcut must imply the signed 32-bit range
    (unless the selection also looks at the format)"""
    from .. import paths
    sym = E + "Memory._set"
    f = repo.func(sym)
    cc = repo.cls(E + "Constant")

    def on(st, p):
        for c in ast.walk(st) if not isinstance(st, ast.withitem) else \
                ast.walk(st.context_expr):
            if isinstance(c, ast.Call) and isinstance(
                    c.func, ast.Attribute) and c.func.attr == "append" \
                    and len(c.args) == 5:
                o = unparse(paths.substitute(c.args[0], p.env))
                if o.startswith("Opcode.ST +") or o.startswith(
                        "fmt_to_opcode(self.fmt) + Opcode.ST"):
                    return ("imm", c)
    attrs = set()
    guards = []
    fmt_dependent = False
    n = 0
    calls = {}
    for p in paths.explore(f, on):
        for e in p.events:
            if e[0] == "imm":
                calls[id(e[1])] = e[1]
                n += 1
    for c in calls.values():
        # the innermost test that decides for the immediate form
        guard = None
        node = stmt_of(c)
        for par in parents(node):
            if isinstance(par, ast.If) and any(
                    x is node or any(y is node for y in ast.walk(x))
                    for x in par.body):
                guard = par.test
                break
        need(guard is not None, f"{sym}: the immediate store is not "
                                f"conditional")
        guards.append(guard)
        for x in ast.walk(guard):
            if isinstance(x, ast.Attribute) and isinstance(
                    x.value, ast.Name) and x.value.id == "value":
                attrs.add(x.attr)
            if isinstance(x, ast.Attribute) and x.attr == "fmt":
                fmt_dependent = True
    chk.floor("R01.7", "paths of Memory._set that store an immediate", n, 1)
    attrs -= {"fixed", "value"}
    if fmt_dependent:
        return
    fails = []
    if not attrs:
        # the selection is spelt out in the test: the whole test is folded
        # on constants at the boundaries (the store opcode being STX)
        mem = d.ev.enum_members(repo.cls(E + "Opcode"))
        for g in guards:
            for v in (-(1 << 31) - 1, -(1 << 31), -1, 0, (1 << 31) - 1,
                      1 << 31, 0xdeadbeef, (1 << 32) - 1, 1 << 32):
                try:
                    c_ = d.ev.construct(cc, [d.ebpf, v], {})
                    sel = bool(Evaluator(repo, f._module, repo.cls(
                        E + "Memory")).eval(g, {
                            "value": c_, "opcode": mem["STX"],
                            "self": Obj(repo.cls(E + "Memory"),
                                        {"fmt": "Q", "ebpf": d.ebpf})}))
                except (Unknown, Raised) as e:
                    raise AnalysisError(
                        f"{sym}: the predicate selecting the immediate "
                        f"store (`{unparse(g)[:60]}`) cannot be folded: {e}")
                if sel and not -(1 << 31) <= v < (1 << 31):
                    fails.append(f"`{unparse(g)[:50]}` selects the "
                                 f"immediate store for {v:#x}")
        chk.ob("R01.7", sym, "the immediate store is taken only for "
               "constants in the signed 32-bit range", not fails, f,
               "; ".join(fails[:3]) + ": ST DW sign-extends its immediate, "
               "the upper half of an 8-byte variable becomes ff.." if fails
               else "the test folded over 9 boundary values")
        return
    for a in sorted(attrs):
        for v in (-(1 << 31) - 1, -(1 << 31), -1, 0, (1 << 31) - 1, 1 << 31,
                  0xdeadbeef, (1 << 32) - 1, 1 << 32):
            try:
                sel = bool(d.ev.getattr(Obj(cc, {"value": v}), a))
            except (Unknown, Raised) as e:
                raise AnalysisError(f"{sym}: cannot fold Constant.{a}: {e}")
            if sel and not -(1 << 31) <= v < (1 << 31):
                fails.append(f"Constant({v:#x}).{a} selects the immediate "
                             f"store")
    chk.ob("R01.7", sym, "the immediate store is taken only for constants "
           "in the signed 32-bit range", not fails, f,
           "; ".join(fails[:3]) + ": ST DW sign-extends its immediate, the "
           "upper half of an 8-byte variable becomes ff.." if fails else
           f"predicate(s) {sorted(attrs)} tabulated over 9 boundary values")


# ------------------------------------------------------------------ R01.8
def r8_signed_div(chk, repo, d):
    chk.doc("R01.8", "signed division and remainder need a signed lowering")
    cal = repo.func(E + "Binary.calculate")
    chk.analysed(E + "Binary.calculate")
    reads = [n for n in walk_no_nested(cal) if isinstance(n, ast.Attribute)
             and n.attr == "signed"]
    mentions = [n for n in walk_no_nested(cal) if isinstance(n, ast.Attribute)
                and n.attr in ("DIV", "MOD", "SDIV", "SMOD")]
    ok = bool(reads) and bool(mentions)
    chk.ob("R01.8", E + "Binary.calculate", "DIV/MOD lowering depends on "
           "signedness", ok, cal,
           "eBPF DIV and MOD are unsigned; Binary.calculate emits "
           "self.operator whatever self.signed says, so a division or "
           "remainder with a negative operand is computed on the unsigned "
           "bit pattern (-7 // 2 = 2147483644)" if not ok else
           "the lowering distinguishes signed division")


# ------------------------------------------------------------------ R01.9
def r9_width(chk, repo, d):
    chk.doc("R01.9", "a width the caller requested is the width emitted")
    impls = []
    for ci in repo.classes.values():
        if ci.module.name != "ebpfcat.ebpf":
            continue
        # calculate() and every other code-emitting method that is told a
        # width (get_address, calculate_unary, contains-free helpers ...)
        for name, f in ci.methods.items():
            if isinstance(f, FUNC) and "long" in param_names(f):
                impls.append((ci, f))
    chk.floor("R01.9", "methods that are told a width", len(impls), 12)
    for ci, f in impls:
        sym = ci.qualname + "." + f.name
        chk.analysed(sym)
        cfg = CFG(f)
        rd = ReachingDefs(cfg)
        rebinds = [dd for n in cfg.nodes for dd in rd.defs[n.id]
                   if dd.var == "long"]
        for dd in rebinds:
            tgt = dd.target if dd.target is not None else dd.node.stmt
            facts = path_facts(dd.node.stmt if dd.kind != "with"
                               else dd.node.stmt)
            guarded = dd.kind != "with" and any(
                t and match("long is None", e) is not None for e, t in facts)
            if guarded:
                chk.ob("R01.9", sym, "`long` replaced only when it was None",
                       True, dd.node.stmt, "the operand's width is used "
                       "only where the caller did not ask for one")
                continue
            # uses of long reachable from this definition that emit code
            bad = []
            for n in cfg.reachable(dd.node):
                if n is dd.node or n.expr is None:
                    continue
                if n.kind == "with_exit":
                    continue
                if dd not in rd.reaching(n, "long") and not any(
                        x.node is dd.node for x in rd.reaching(n, "long")):
                    continue
                for x in walk_expr(n.expr):
                    if isinstance(x, ast.Name) and x.id == "long" and \
                            isinstance(x.ctx, ast.Load):
                        par = x._parent
                        in_yield = any(isinstance(p, ast.Yield)
                                       for p in parents(x))
                        if not in_yield:
                            bad.append(n)
            chk.ob("R01.9", sym, "requested width not overwritten by the "
                   "operand's", not bad, dd.node.stmt,
                   f"`long` is re-bound by `{unparse(tgt)[:40]}` and then "
                   f"decides emitted code in `{unparse(bad[0].expr)[:50]}`: "
                   f"a 64-bit request for a 32-bit operand is computed in "
                   f"32 bits and zero-extended" if bad else
                   "the re-bound value only flows into the yield")
    # the width handed to the emitting helper is the requested one
    ucal = repo.func(E + "Unary.calculate")
    ucalls = [c for c in calls_in(ucal) if isinstance(c.func, ast.Attribute)
              and c.func.attr == "calculate_unary"]
    need(len(ucalls) == 1 and len(ucalls[0].args) == 2,
         "Unary.calculate: call of calculate_unary(dst, width) not found")
    warg = ucalls[0].args[1]
    others = sorted({n.id for n in ast.walk(warg) if isinstance(n, ast.Name)}
                    - {"long"})
    fails = []
    for L in (True, False):
        for combo in range(2 ** len(others)):
            env = {"long": L}
            for i, nm in enumerate(others):
                env[nm] = bool(combo >> i & 1)
            try:
                got = d.ev.eval(warg, env)
            except (Unknown, Raised) as e:
                raise AnalysisError(f"Unary.calculate: cannot fold the width "
                                    f"argument `{unparse(warg)}`: {e}")
            if bool(got) != L:
                fails.append(f"requested long={L}, {env}: emits for "
                             f"long={got}")
    chk.ob("R01.9", E + "Unary.calculate", "calculate_unary() receives the "
           "requested width", not fails, ucalls[0],
           "; ".join(fails[:3]) or f"`{unparse(warg)}` is the requested "
           f"width whatever the operand's width: -I in a 64-bit expression "
           f"must negate in 64 bits")
    # sibling cross-check of calculate_unary
    sibs = [(ci, ci.methods["calculate_unary"]) for ci in
            repo.classes.values() if ci.module.name == "ebpfcat.ebpf"
            and "calculate_unary" in ci.methods]
    chk.floor("R01.9", "calculate_unary implementations", len(sibs), 3)
    for ci, f in sibs:
        sym = ci.qualname + ".calculate_unary"
        views = [n for n in walk_no_nested(f) if isinstance(n, ast.Attribute)
                 and n.attr in ("r", "sr", "w", "sw", "LONG", "SHORT")
                 and (dotted(n) or "").split(".")[-2:-1] in (["ebpf"],
                                                             ["Opcode"])]
        uses_long = any(isinstance(n, ast.Name) and n.id == "long"
                        for n in walk_no_nested(f))
        width_dep = bool(views)
        ok = (not width_dep) or uses_long
        chk.ob("R01.9", sym, "width-dependent code is selected by `long`", ok,
               f, "emits code through a register view of fixed width "
               "without looking at the requested width: a 32-bit value is "
               "zero-extended in its register, so a 64-bit sign test never "
               "fires" if not ok else
               ("selects the view / LONG flag from `long`" if width_dep
                else "emits no width-dependent code"))


# ----------------------------------------------------------------- R01.10
def r10_contains(chk, repo, d):
    chk.doc("R01.10", "operand search covers all operands; a destination "
                      "that occurs on the right-hand side is not clobbered")
    ev = d.ev
    fails = []
    B = repo.cls(E + "Binary")
    for lh in (False, True):
        for rh in (False, True):
            l = d.register("l", True, False, False, no=5 if lh else 1)
            r = d.register("r", True, False, False, no=5 if rh else 2)
            o = Obj(B, {"left": l, "right": r})
            try:
                got = bool(ev.call(ev._dunder(o, "contains"), [5]))
            except (Raised, Unknown, TypeError) as e:
                fails.append(str(e))
                continue
            if got != (lh or rh):
                fails.append(f"left has r5={lh}, right has r5={rh}: "
                             f"contains(5)={got}")
    chk.ob("R01.10", E + "Binary.contains", "true iff either operand "
           "contains the register", not fails, B.methods.get("contains",
                                                             B.node),
           "; ".join(fails) or "4 rows")
    # nested: right operand is a Binary whose *left* holds the register
    inner = Obj(B, {"left": d.register("x", True, False, False, no=5),
                    "right": d.register("y", True, False, False, no=2)})
    outer = Obj(B, {"left": d.register("z", True, False, False, no=3),
                    "right": inner})
    try:
        got = bool(ev.call(ev._dunder(outer, "contains"), [5]))
    except (Raised, Unknown, TypeError):
        got = False
    chk.ob("R01.10", E + "Binary.contains", "nested right operand is "
           "searched through its left operand", got, B.methods.get(
               "contains", B.node), "r5 = r3 + (r5 * 2): the destination "
           "occurs inside the right operand")
    U = repo.cls(E + "Unary")
    u = Obj(U, {"arg": d.register("x", True, False, False, no=5)})
    try:
        got = bool(ev.call(ev._dunder(u, "contains"), [5])) and not bool(
            ev.call(ev._dunder(u, "contains"), [4]))
    except (Raised, Unknown, TypeError):
        got = False
    chk.ob("R01.10", E + "Unary.contains", "searches its argument", got,
           U.methods.get("contains", U.node), "-r5, abs(r5)")
    M = repo.cls(E + "Memory")
    mm = Obj(M, {"address": d.register("x", True, False, False, no=5),
                 "fmt": "I"})
    try:
        got = bool(ev.call(ev._dunder(mm, "contains"), [5]))
    except (Raised, Unknown, TypeError):
        got = False
    chk.ob("R01.10", E + "Memory.contains", "searches its address", got,
           M.methods.get("contains", M.node), "mI[r5]")
    # compositional: every way the DSL can nest a register inside an
    # expression, built with the repository's own operators
    def reg(no):
        return d.register(f"r{no}", True, False, False, no=no)

    def mem(addr, fmt="Q"):
        return Obj(M, {"ebpf": d.ebpf, "address": addr, "fmt": fmt})
    shapes = {
        "r5 + 8": lambda: d.binop(ast.Add, reg(5), 8),
        "r5 - 8": lambda: d.binop(ast.Sub, reg(5), 8),
        "r3 + r5": lambda: d.binop(ast.Add, reg(3), reg(5)),
        "r5 * r3": lambda: d.binop(ast.Mult, reg(5), reg(3)),
        "7 - r5": lambda: d.binop(ast.Sub, 7, reg(5)),
        "r3 + (r5 << 2)": lambda: d.binop(
            ast.Add, reg(3), d.binop(ast.LShift, reg(5), 2)),
        "(r5 & 3) | r2": lambda: d.binop(
            ast.BitOr, d.binop(ast.BitAnd, reg(5), 3), reg(2)),
        "-r5": lambda: d.unary("__neg__", reg(5)),
        "abs(r5)": lambda: d.unary("__abs__", reg(5)),
        "mQ[r5]": lambda: mem(reg(5)),
        "mQ[r5 + 8]": lambda: mem(d.binop(ast.Add, reg(5), 8)),
        "mH[r5 - 2]": lambda: mem(d.binop(ast.Sub, reg(5), 2), "H"),
        "mI[r3 + r5]": lambda: mem(d.binop(ast.Add, reg(3), reg(5)), "I"),
        "r2 + mQ[r5 + 8]": lambda: d.binop(
            ast.Add, reg(2), mem(d.binop(ast.Add, reg(5), 8))),
        "4 * mH[r5]": lambda: d.binop(ast.Mult, 4, mem(reg(5), "H")),
        "-mQ[r5 + 8]": lambda: d.unary(
            "__neg__", mem(d.binop(ast.Add, reg(5), 8))),
    }
    fails = []
    for txt, build in shapes.items():
        try:
            o = build()
            yes = bool(ev.call(ev._dunder(o, "contains"), [5]))
            no = bool(ev.call(ev._dunder(o, "contains"), [4]))
        except (Raised, Unknown, TypeError, AnalysisError) as e:
            fails.append(f"`{txt}`: cannot fold contains(): {e}")
            continue
        if not yes:
            fails.append(f"`{txt}`.contains(5) is False")
        if no:
            fails.append(f"`{txt}`.contains(4) is True")
    chk.ob("R01.10", E + "Expression.contains", f"every operand position of "
           f"every expression class is searched ({len(shapes)} shapes built "
           f"with the DSL's operators)", not fails, M.methods.get(
               "contains", M.node), "; ".join(fails[:4]) or "a register "
           "is found wherever it occurs, and only there: `r5 = r2 + mQ[r5 + "
           "8]` must not overwrite r5 before the load")
    cal = repo.func(E + "Binary.calculate")
    cfg = CFG(cal)
    tests = [n for n in cfg.nodes if n.kind == "test" and find(
        "self.right.contains(dst)", n.expr)]
    gfr = [n for n in cfg.nodes if n.kind == "with_enter" and find(
        "self.ebpf.get_free_register(dst)", n.expr)]
    ok = len(tests) == 1 and len(gfr) >= 1 and all(
        cfg.dominates(tests[0], g) for g in gfr)
    if ok:
        st = tests[0].stmt
        ok = isinstance(st, ast.If) and any(
            match_assign_none(s, "dst") for s in st.body)
    chk.ob("R01.10", E + "Binary.calculate", "a destination used by the "
           "right operand is not used for the left result", ok, cal,
           "`if self.right.contains(dst): dst = None` dominates the "
           "allocation of the result register")


def match_assign_none(s, name):
    return isinstance(s, ast.Assign) and len(s.targets) == 1 and unparse(
        s.targets[0]) == name and isinstance(s.value, ast.Constant) \
        and s.value.value is None

# added rules (appended to the explanation the evidence file carries)
EXPLANATION += (" " + 'Added during the build (DESIGN.md 4.31, second table): EBPF.assemble by abstract execution on four instruction lists against the ISA layout; (R01.11) no subclass of Binary / Unary has a calculate() of its own.')
EXPLANATION += (
    " Shared with C08 (R08.2/R08.3): the slot ArrayMap.collect reserves for "
    "a map variable has the size of the descriptor attribute lookup finds, "
    "so a load or store of one operand never covers its neighbour.")
EXPLANATION += (" Added after wave 9: (R01.5) load() is told the width the caller asked for (the `long` parameter reaches it unchanged); (R01.7) nothing derived from a Constant's value is memoised; (R01.12) the stack slot of a computed value outlives the use of its address (shared with C04/C09).")
EXPLANATION += (' Added after the last wave: (R01.5) the address of a memory operand is computed in 64 bits.')
