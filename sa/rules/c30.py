"""C30 - slow sync groups exchange process data and check working
counters."""
import ast

from .common import *

EXPLANATION = (
    "Decided: (R30.1) order within a cycle, on the CFG of "
    "SyncGroup.update_devices: the response is copied into current_data; "
    "then for every recorded counter position the response's counter is "
    "compared with the expected count with `!=` (any deviation counts one "
    "error) and the position is cleared in the frame to be sent; then "
    "every device's update() runs; current_data is returned - each step "
    "dominates the next; (R30.2) positions and expected counts come from "
    "SterilePacket.counters, which is filled by the append that every "
    "datagram - reads included - goes through, keyed at size - 2 (the "
    "working counter); (R30.3) in SyncGroupBase.run the frame that is sent "
    "again after a timeout and the frame sent after update_devices are "
    "both the latest `data` (never the pristine template, which has "
    "neither the outputs nor cleared counters); wkc_errors is reset before "
    "the loop; SyncGroup.start prepares current_data as a copy of the "
    "assembled frame. Declined: multi-cycle histories; 'from the second "
    "cycle on'.")
ASSUMPTIONS = ["every terminal that processes a datagram increments its "
               "working counter (EtherCAT)"]

C = "ebpfcat.ebpfcat."


def run(chk, repo):
    from . import c18
    chk.doc("R18.1", "the expected working counter counts exactly the "
                     "terminals that got a region in the datagram (shared "
                     "with C18)")
    c18.allocators(chk, repo)
    chk.doc("R30.5", "the cycle of SyncGroup is not replaced in a subclass")
    override_rule(chk, repo, "R30.5", "ebpfcat.ebpfcat.SyncGroup",
                  ["update_devices"], "the order copy / compare counters / "
                  "update devices / return frame established here is what "
                  "every slow group runs")
    from . import c19
    chk.doc("R19.4", "devices read and write the group's current frame on "
                     "every access (shared with C19)")
    c19.closures(chk, repo)
    chk.doc("R19.3", "offset resolution of the descriptors (shared with "
                     "C19): where a device's outputs land in the frame")
    c19.descs(chk, repo)
    from . import c12
    c12.every_frame(chk, repo)
    chk.doc("R30.4", "recorded counter positions are per packet")
    per_instance_rule(chk, repo, "R30.4", ["ebpfcat.ebpfcat.SterilePacket"], "one group checks and "
                      "clears working counters at another group's positions")
    chk.doc("R30.1", "order within a cycle")
    chk.doc("R30.2", "counter positions")
    chk.doc("R30.3", "which frame is (re)sent")
    cycle(chk, repo)
    counters(chk, repo)
    sends(chk, repo)


def devices_updated(chk, repo, rule="R30.1"):
    """every response that is handed to a slow sync group reaches every
    device: each path through SyncGroup.update_devices passes the loop that
    calls update() on the devices (a cycle in which the devices are not
    run is a cycle in which no timeout is noticed and no output follows
    its input)"""
    sym = C + "SyncGroup.update_devices"
    f = repo.func(sym)
    cfg = CFG(f)
    dl = [n for n in cfg.nodes if n.kind == "iter" and match(
        "self.devices", n.stmt.iter) is not None and find(
            f"{unparse(n.stmt.target)}.update()", n.stmt)]
    ok = bool(dl) and cfg.must_pass(cfg.entry, lambda n: n in dl,
                                    targets=[cfg.exit])
    path = None
    if dl and not ok:
        w = cfg.witness_path(cfg.entry, lambda n: n in dl,
                             targets=[cfg.exit])
        path = cfg.describe_path(w) if w else None
    chk.ob(rule, sym, "the devices are updated on every response", ok,
           dl[0].stmt if dl else f, "for dev in self.devices: dev.update() "
           "lies on every path to the return", path)


def cycle(chk, repo):
    devices_updated(chk, repo)
    sym = C + "SyncGroup.update_devices"
    f = repo.func(sym)
    chk.analysed(sym)
    cfg = CFG(f)
    cp = [n for n in cfg.nodes if n.kind == "stmt" and match_stmt(
        "self.current_data[:] = data", n.stmt) is not None]
    loops = [n for n in cfg.nodes if n.kind == "iter"]
    cl = [n for n in loops if match("self.packet.counters.items()",
                                    n.stmt.iter) is not None]
    dl = [n for n in loops if match("self.devices", n.stmt.iter) is not None]
    rets = [n for n in cfg.nodes if n.kind == "return"]
    need(len(cp) == 1 and len(cl) == 1 and len(dl) == 1 and len(rets) == 1,
         f"{sym}: copy / counter loop / device loop / return not found")
    ok = cfg.dominates(cp[0], cl[0]) and cfg.dominates(cl[0], dl[0]) and \
        cfg.dominates(dl[0], rets[0])
    chk.ob("R30.1", sym, "copy response, check counters, update devices, "
           "return - in that order", ok, f, "each step dominates the next")
    ok = unparse(rets[0].stmt.value) == "self.current_data"
    chk.ob("R30.1", sym, "the frame returned (and sent next) is "
           "current_data", ok, rets[0].stmt, "the devices wrote their "
           "outputs into it")
    lp = cl[0].stmt
    tg = lp.target
    need(isinstance(tg, ast.Tuple) and len(tg.elts) == 2,
         f"{sym}: counter loop target")
    pos, cnt = unparse(tg.elts[0]), unparse(tg.elts[1])
    ifs = [s for s in lp.body if isinstance(s, ast.If)]
    ok = len(ifs) == 1 and match(f"data[{pos}] != {cnt}", ifs[0].test) \
        is not None
    chk.ob("R30.1", sym, "the response's counter is compared with the "
           "expected count by `!=`", ok, ifs[0] if ifs else lp,
           f"test `{unparse(ifs[0].test) if ifs else '?'}`: too many "
           f"terminals answering (a duplicate address, an overlapping "
           f"logical range) is an error just like too few")
    inc = [s for s in (ifs[0].body if ifs else []) if isinstance(
        s, ast.AugAssign) and unparse(s.target) == "self.wkc_errors"
        and int_const(s.value) == 1]
    chk.ob("R30.1", sym, "a mismatch counts exactly one error", len(inc) == 1,
           ifs[0] if ifs else lp, "self.wkc_errors += 1")
    clr = [s for s in lp.body if match_stmt(
        f"self.current_data[{pos}] = 0", s) is not None]
    chk.ob("R30.1", sym, "the counter is cleared in the frame to be sent, "
           "for every datagram", len(clr) == 1, lp, "at the top level of "
           "the loop body, mismatch or not")
    up = find("dev.update()", dl[0].stmt)
    chk.ob("R30.1", sym, "every device's update() runs", len(up) == 1,
           dl[0].stmt, "for dev in self.devices")


def counters(chk, repo):
    sp = repo.cls(C + "SterilePacket")
    ap = sp.methods.get("append")
    aw = sp.methods.get("append_writer")
    need(ap is not None and aw is not None, "SterilePacket.append(_writer) "
                                            "vanished")
    rec = [s for s in walk_no_nested(ap) if isinstance(s, ast.Assign)
           and match("self.counters[$k]", s.targets[0]) is not None]
    rec_w = [s for s in walk_no_nested(aw) if isinstance(s, ast.Assign)
             and match("self.counters[$k]", s.targets[0]) is not None]
    ok = len(rec) == 1 and not rec_w
    chk.ob("R30.2", sp.qualname + ".append", "the expected count is recorded "
           "by the append every datagram goes through", ok,
           rec[0] if rec else ap,
           "recorded for writers only, read datagrams (FPRD, LRD) are never "
           "checked or cleared: their counters accumulate and a failing "
           "input terminal goes unnoticed" if not ok else
           "reads and writes alike")
    from .c11 import counter_key
    ok, why = counter_key(repo)
    chk.ob("R30.2", sp.qualname + ".append", "keyed at the working counter's "
           "position", ok, rec[0] if rec else ap, why or "size - 2 after the "
           "append")
    ok = bool(find("self.append(cmd, *args, **kwargs)", aw))
    chk.ob("R30.2", sp.qualname + ".append_writer", "writers go through "
           "append as well", ok, aw, "self.append(...)")
    si = sp.methods.get("__init__")
    ok = si is not None and bool(find("self.counters = {}", si, mode="stmt"))
    chk.ob("R30.2", sp.qualname + ".__init__", "counters start empty per "
           "packet", ok, si or sp.node, "a dict per instance")


def sends(chk, repo):
    sym = C + "SyncGroupBase.run"
    f = repo.func(sym)
    chk.analysed(sym)
    cfg = CFG(f, raises="await")
    rd = ReachingDefs(cfg)
    sn = [(n, c, b) for n in cfg.nodes if n.expr is not None
          for c, b in find("self.ec.roundtrip_packet($f, $i)", n.expr)]
    chk.floor("R30.3", "sends in SyncGroupBase.run", len(sn), 3)
    whiles = [w for w in walk_no_nested(f) if isinstance(w, ast.While)]
    need(len(whiles) == 1, f"{sym}: cycle loop not found")
    wl = whiles[0]
    inloop = {id(x) for x in ast.walk(wl)}
    for k, (n, c, b) in enumerate(sn):
        fr = unparse(b["f"])
        where = "in the cycle loop" if id(c) in inloop else "before the loop"
        ok = fr == "data" and unparse(b["i"]) == "self.packet_index"
        chk.ob("R30.3", sym, f"send #{k} ({where}) transmits the latest "
               f"frame `data`", ok, c, f"sends `{fr}`: the template frame "
               f"carries neither the outputs of the last update nor "
               f"cleared working counters" if not ok else "data")
    # what `data` can be at the sends
    for k, (n, c, b) in enumerate(sn):
        if not isinstance(b["f"], ast.Name):
            continue
        srcs = set()
        for d in rd.reaching(n, b["f"].id):
            v = d.value if isinstance(d.value, ast.AST) else None
            srcs.add(unparse(v) if v is not None else d.kind)
        ok = srcs <= {"self.asm_packet", "self.update_devices(data)"}
        chk.ob("R30.3", sym, f"send #{k}: the frame is the prepared one or "
               f"the one update_devices returned", ok, c,
               f"definitions reaching the send: {sorted(srcs)}")
    hs = [h for t in ast.walk(wl) if isinstance(t, ast.Try)
          for h in t.handlers if "TimeoutError" in unparse(h.type or
                                                          ast.Constant(""))]
    ok = len(hs) == 1 and bool(find(
        "self.ec.roundtrip_packet($f, self.packet_index)", hs[0]))
    if ok:
        # from the re-send the loop comes back to the wait without running
        # update_devices on the stale frame (`continue`, or the rest of the
        # round in an else clause: the CFG decides)
        inside = {id(x) for x in ast.walk(hs[0])}
        resend = [n for n, c, b in sn if id(c) in inside]
        upd = {n.id for n in cfg.nodes if n.expr is not None and find(
            "self.update_devices($*a)", n.expr)}
        waits = {n.id for n in cfg.nodes if n.expr is not None and find(
            "wait_for(future, $*a, $**)", n.expr)}
        ok = bool(resend) and bool(upd) and bool(waits)
        for r in resend:
            seen_, todo = set(), [r]
            hit_wait = False
            while todo and ok:
                x = todo.pop()
                for m, lab in x.succ:
                    if lab == "exc" or m.id in seen_:
                        continue
                    seen_.add(m.id)
                    if m.id in upd:
                        ok = False
                    elif m.id in waits:
                        hit_wait = True
                    else:
                        todo.append(m)
            ok = ok and hit_wait
    chk.ob("R30.3", sym, "a timeout re-sends and waits again", ok,
           hs[0] if hs else wl, "from the re-send every path reaches the "
           "next wait_for without passing update_devices")
    ud = [n for n in cfg.nodes if n.kind == "stmt" and match_stmt(
        "data = self.update_devices(data)", n.stmt) is not None]
    wf = [n for n in cfg.nodes if n.kind == "stmt" and match_stmt(
        "data = await wait_for(future, timeout=$t)", n.stmt) is not None]
    ok = len(ud) == 1 and len(wf) == 1 and cfg.dominates(wf[0], ud[0])
    chk.ob("R30.3", sym, "the response is handed to update_devices", ok, wl,
           "data = await wait_for(future); data = update_devices(data)")
    z = [n for n in cfg.nodes if n.kind == "stmt" and match_stmt(
        "self.wkc_errors = 0", n.stmt) is not None]
    wn = [n for n in cfg.nodes if n.kind == "test" and n.stmt is wl]
    ok = len(z) == 1 and len(wn) == 1 and cfg.dominates(z[0], wn[0])
    chk.ob("R30.3", sym, "the error counter is reset before the cycles "
           "start", ok, f, "wkc_errors = 0")
    st = repo.func(C + "SyncGroup.start")
    ok = bool(find("self.asm_packet = self.packet.assemble(self.packet_index,"
                   " self.ec.ethertype)", st, mode="stmt")) and bool(find(
        "self.current_data = bytearray(self.asm_packet)", st, mode="stmt"))
    chk.ob("R30.3", C + "SyncGroup.start", "current_data starts as a "
           "mutable copy of the assembled frame", ok, st,
           "bytearray(asm_packet)")
    i1 = [s.lineno for s in walk_no_nested(st) if match_stmt(
        "self.allocate()", s) is not None]
    i2 = [s.lineno for s in walk_no_nested(st) if isinstance(s, ast.Assign)
          and unparse(s.targets[0]) == "self.asm_packet"]
    chk.ob("R30.3", C + "SyncGroup.start", "the frame is assembled after "
           "the allocation", bool(i1 and i2 and i1[0] < i2[0]), st,
           "allocate(), then assemble()")

# added rules (appended to the explanation the evidence file carries)
EXPLANATION += (" " + "Added during the build (DESIGN.md 4.31, second table): every path through SyncGroup.update_devices runs the devices' update().")
