"""C20 - a terminal's FMMUs are never shared by two live mappings."""
import ast

from .common import *

EXPLANATION = (
    "Decided, on Terminal.map_fmmu: (R20.1) the slot that is claimed "
    "(fmmu_used[index] = logical) is a slot proven free on that path: for "
    "the reversed-slice search idiom `start - fmmu_used[start::-1]"
    ".index(None) - c` the tested slot is min(start, len-1) - k and the "
    "claimed one start - k - c; the rule proves them equal symbolically "
    "for every reaching definition of start (linear forms in len), or "
    "recognises the explicit `if fmmu_used[i] is None` idiom; (R20.2) a "
    "failed search raises and no handler turns it into a default slot; "
    "(R20.3) there is no await between search and claim, the claim is "
    "followed on all paths (cancellation at every await and at the yield "
    "included) by the reset of the same slot, and the FMMU register block "
    "programmed and the one deactivated are the block of that slot; "
    "(R20.4) the sync group enters one such context per terminal and sync "
    "manager through an AsyncExitStack. Declined: register writes as "
    "observed on a simulated terminal.")
ASSUMPTIONS = [
    "list slicing semantics: x[s::-1] starts at min(s, len(x)-1)",
    "FMMU register blocks are 16 bytes apart starting at 0x600 (ETG.1000.4)",
]

SYM = "ebpfcat.ethercat.Terminal.map_fmmu"


def lin_len(e, lst):
    """e as a linear form a*len(lst) + b -> (a, b) or None"""
    if match(f"len({lst})", e) is not None:
        return (1, 0)
    v = int_const(e)
    if v is not None:
        return (0, v)
    if isinstance(e, ast.BinOp) and isinstance(e.op, (ast.Add, ast.Sub)):
        l, r = lin_len(e.left, lst), lin_len(e.right, lst)
        if l is None or r is None:
            return None
        sg = 1 if isinstance(e.op, ast.Add) else -1
        return (l[0] + sg * r[0], l[1] + sg * r[1])
    return None


def start_le_last(e, lst):
    """can we prove e <= len(lst) - 1 for every non-empty list?
    returns (proved, offset d if e == len + d with d >= 0 else None)"""
    lf = lin_len(e, lst)
    if lf is not None:
        a, b = lf
        if a == 1 and b <= -1:
            return True, None
        if a == 1 and b >= 0:
            return False, b
        return False, None
    b = match("min($x, $y)", e)
    if b is not None:
        for k in ("x", "y"):
            p, _ = start_le_last(b[k], lst)
            if p:
                return True, None
    return False, None


def table_writers(chk, repo):
    """R20.7: the slot table is created (and every FMMU switched off) when
    a terminal is initialised, before anything is mapped.  Whoever
    re-creates it later wipes the claims of live mappings: their slots are
    handed out again while the old owners still use - and later
    deactivate - them."""
    chk.doc("R20.7", "the slot table is re-created by initialize() only")
    tc = repo.cls("ebpfcat.ethercat.Terminal")
    writers = {}
    for ci in [tc] + [c for c in repo.subclasses(tc.qualname) if c is not tc]:
        for name, f in ci.methods.items():
            if not isinstance(f, FUNC):
                continue
            for st in walk_no_nested(f):
                if isinstance(st, ast.Assign) and any(
                        is_self_attr(t, "fmmu_used") for t in st.targets):
                    writers[(ci.qualname, name)] = (f, st)
    chk.floor("R20.7", "functions that create the slot table", len(writers),
              1)
    allowed = {"initialize"} | {n for _, n in writers}
    bad = []
    for (cq, name), (f, st) in sorted(writers.items()):
        if name == "initialize":
            continue
        # every caller of this writer is initialize() or another writer
        for m in repo.production_modules():
            for g in [x for x in ast.walk(m.tree) if isinstance(x, FUNC)]:
                if g is f:
                    continue
                for c in calls_in(g):
                    if isinstance(c.func, ast.Attribute) and \
                            c.func.attr == name and g.name not in allowed:
                        bad.append((c, f"{repo.qualname_of(g)} calls "
                                       f"{name}()"))
    chk.ob("R20.7", tc.qualname, "the slot table is re-created only on the "
           "way through initialize()", not bad, bad[0][0] if bad else
           tc.node, (bad[0][1] + ", which replaces fmmu_used while mappings "
                     "may be live: their slots are claimed a second time")
           if bad else f"writers: {sorted(n for _, n in writers)}")


def register_writers(chk, repo):
    """R20.9: who may write the FMMU registers of a terminal (0x600-0x6ff):
    initialize() switches all of them off before anything is mapped,
    map_fmmu() programs and switches off the slot it has claimed.  A third
    writer - a clean-up that "switches everything off" - turns off the
    FMMUs of live mappings of other sync groups."""
    chk.doc("R20.9", "FMMU registers are written by initialize() and by "
                     "the owner of a slot only")
    allowed = {"ebpfcat.ethercat.Terminal.initialize",
               "ebpfcat.ethercat.Terminal.map_fmmu"}
    n = 0
    bad = []
    for m in repo.production_modules():
        if ".examples" in m.name or m.name.endswith("scripts"):
            continue
        for c in ast.walk(m.tree):
            if not (isinstance(c, ast.Call) and isinstance(
                    c.func, ast.Attribute)):
                continue
            if c.func.attr == "write" and c.args:
                addr = c.args[0]
            elif c.func.attr == "roundtrip" and len(c.args) >= 3 and \
                    unparse(c.args[0]).split(".")[-1] in (
                        "FPWR", "APWR", "BWR", "FPRW", "APRW"):
                addr = c.args[2]
            else:
                continue
            consts = [x.value for x in ast.walk(addr) if isinstance(
                x, ast.Constant) and isinstance(x.value, int)
                and not isinstance(x.value, bool)]
            if not any(0x600 <= v < 0x700 for v in consts):
                continue
            n += 1
            q = func_qual(repo, c)
            # a helper that only the allowed functions call is theirs
            if q not in allowed:
                name = q.split(".")[-1]
                callers = {func_qual(repo, x) for m2 in
                           repo.production_modules() for x in ast.walk(
                               m2.tree) if isinstance(x, ast.Call)
                           and isinstance(x.func, ast.Attribute)
                           and x.func.attr == name
                           and func_qual(repo, x) != q}
                if not callers or not callers <= allowed:
                    bad.append((c, q))
    chk.floor("R20.9", "writes of FMMU registers", n, 3)
    chk.ob("R20.9", "ebpfcat.ethercat.Terminal", "no third writer of the "
           "FMMU registers", not bad, bad[0][0] if bad else None,
           (f"{bad[0][1]} writes `{unparse(bad[0][0])[:60]}`: FMMUs of "
            f"slots it has not claimed are programmed or switched off "
            f"while another sync group's mapping is live") if bad else
           f"{n} writes, all in initialize() / map_fmmu()")


def run(chk, repo):
    register_writers(chk, repo)
    chk.doc("R20.6", "the claim discipline of map_fmmu is the only one")
    override_rule(chk, repo, "R20.6", "ebpfcat.ethercat.Terminal",
                  ["map_fmmu"], "the search for a free slot, the claim "
                  "before the first await and the release on every exit "
                  "established for Terminal.map_fmmu do not hold for a "
                  "second implementation")
    table_writers(chk, repo)
    chk.doc("R20.8", "map_fmmu on tables with live mappings, by abstract "
                     "execution: free slot claimed, held while mapped, "
                     "restored afterwards, its own register block written")
    from . import c18
    import itertools
    # (thorough tier: terminals with up to 6 FMMUs, four owner kinds)
    sizes = (1, 2, 3, 4, 5, 6) if chk.tier == "thorough" else (1, 2, 3, 4)
    owners = (None, 0, 0x5000, 0x41000) if chk.tier == "thorough" else (
        None, 0, 0x5000)
    c18.fmmu_registers(chk, repo, "R20.8", tables=[
        list(t) for n in sizes for t in itertools.product(
            owners, repeat=n)])
    chk.doc("R20.5", "the FMMU table is per terminal")
    per_instance_rule(chk, repo, "R20.5", ["ebpfcat.ethercat.Terminal"], "a claim on one terminal "
                      "occupies the same slot on every other terminal")
    chk.doc("R20.1", "claim what was tested")
    chk.doc("R20.2", "no free slot => failure")
    chk.doc("R20.3", "atomic claim, release of the own slot on all paths, "
                     "register block of that slot")
    chk.doc("R20.4", "one context per terminal and sync manager via an "
                     "AsyncExitStack")
    f = repo.func(SYM)
    chk.analysed(SYM)
    cfg = CFG(f, raises="await")
    rd = ReachingDefs(cfg)
    claims = [n for n in cfg.nodes if n.kind == "stmt" and isinstance(
        n.stmt, ast.Assign) and len(n.stmt.targets) == 1 and match(
            "self.fmmu_used[$i]", n.stmt.targets[0]) is not None
        and not (isinstance(n.stmt.value, ast.Constant)
                 and n.stmt.value.value is None)]
    rels = [n for n in cfg.nodes if n.kind == "stmt" and isinstance(
        n.stmt, ast.Assign) and len(n.stmt.targets) == 1 and match(
            "self.fmmu_used[$i]", n.stmt.targets[0]) is not None
        and isinstance(n.stmt.value, ast.Constant)
        and n.stmt.value.value is None]
    need(len(claims) == 1, f"{SYM}: expected exactly one claim statement")
    need(rels, f"{SYM}: release statement not found")
    claim = claims[0]
    idx = match("self.fmmu_used[$i]", claim.stmt.targets[0])["i"]
    lst = "self.fmmu_used"
    # ------------------------------------------------------------ R20.1
    free_tests = [n for n in cfg.nodes if n.kind == "test" and match(
        f"{lst}[{unparse(idx)}] is None", n.expr) is not None]
    if free_tests:
        # explicit-test idiom: every path to the claim must leave such a
        # test through its true edge, with the index unchanged since
        tids = {n.id for n in free_tests}
        reach = cfg.reach_edges(
            cfg.entry, lambda a, b, lab: not (a.id in tids and lab == "true"))
        ok = claim not in reach
        path = None
        if not ok:
            w = cfg.witness_path(cfg.entry, lambda n: False, targets=[claim])
            # a path that avoids the true edges
            prev = {cfg.entry.id: None}
            stack = [cfg.entry]
            while stack:
                n = stack.pop()
                for m_, lab in n.succ:
                    if n.id in tids and lab == "true":
                        continue
                    if m_.id not in prev:
                        prev[m_.id] = n
                        stack.append(m_)
            if claim.id in prev:
                p, cur = [], claim
                while cur is not None:
                    p.append(cur)
                    cur = prev[cur.id]
                path = cfg.describe_path(list(reversed(p)))
        if ok and isinstance(idx, ast.Name):
            for t in free_tests:
                if {id(x) for x in rd.reaching_after(t, idx.id)} != {
                        id(x) for x in rd.reaching(claim, idx.id)} and \
                        claim in cfg.reachable(t):
                    ok = False
                    path = "the index is re-bound between test and claim"
        chk.ob("R20.1", SYM, "claimed slot tested free (explicit test)",
               ok, claim.stmt, "every path to the claim leaves `fmmu_used[i] "
               "is None` through its true branch" if ok else
               "the claim is reachable without having found a free slot "
               "(e.g. the search loop runs out): the slot of a live mapping "
               "is taken over", path)
        search_nodes = free_tests
    else:
        need(isinstance(idx, ast.Name), f"{SYM}: claimed index is not a "
                                        f"local name")
        ds = rd.reaching(claim, idx.id)
        need(len(ds) == 1 and next(iter(ds)).kind == "assign",
             f"{SYM}: `{idx.id}` has no single definition")
        d = next(iter(ds))
        search_nodes = [d.node]
        e = d.value
        helper = None
        if isinstance(e, ast.Call) and isinstance(e.func, ast.Attribute) \
                and isinstance(e.func.value, ast.Name) and e.func.value.id \
                == "self":
            owner, helper = repo.lookup(repo.enclosing_class(f), e.func.attr)
        if helper is not None and isinstance(helper, FUNC):
            # the search lives in a helper: it must return an index only
            # from under an identity test of that slot against None, and
            # raise when it finds none
            hsym = owner.qualname + "." + e.func.attr
            hcfg = CFG(helper)
            rets = [n for n in hcfg.nodes if n.kind == "return"
                    and n.stmt.value is not None]
            need(rets, f"{hsym}: returns no index")
            bad = []
            for r in rets:
                rv = unparse(r.stmt.value)
                facts = path_facts(r.stmt)
                if not any(t and match(f"{lst}[{rv}] is None", x)
                           is not None for x, t in facts):
                    tests = [f"{unparse(x)} is {t}" for x, t in facts
                             if "fmmu_used" in unparse(x)]
                    bad.append(f"`return {rv}` under {tests or 'no test'}")
            falls = hcfg.exit in hcfg.reach_edges(
                hcfg.entry, lambda a, b, lab: a.kind not in ("return",
                                                             "raise"))
            chk.ob("R20.1", SYM, "claimed slot tested free (search helper)",
                   not bad and not falls, helper,
                   ("; ".join(bad) + ": only `is None` means free - a "
                    "mapping at logical address 0 is falsy and would be "
                    "handed out again") if bad else
                   ("the helper can fall off its end and return None"
                    if falls else f"{hsym} returns an index only where "
                    f"`fmmu_used[index] is None` held"))
            e = None
        if e is not None:
            # e == S - X[S::-1].index(None) [- C]
            c = 0
            core = e
            lf = None
            b = match(f"$s - {lst}[$t::-1].index(None) - $c", e)
            if b is not None and int_const(b["c"]) is not None:
                c = int_const(b["c"])
            else:
                b = match(f"$s - {lst}[$t::-1].index(None)", e)
                if b is None:
                    b = match(f"$s - {lst}[$t::-1].index(None) + $c", e)
                    if b is not None and int_const(b["c"]) is not None:
                        c = -int_const(b["c"])
                    else:
                        b = None
            if b is None or not same(b["s"], b["t"]):
                # another way to search: which slot it finds is decided by
                # the tables of R20.8 alone
                chk.ob("R20.1", SYM, "search idiom not the reversed-slice "
                       "one; the slot found is decided by abstract "
                       "execution (R20.8)", True, e, unparse(e))
                e = None
        if e is not None:
            s = b["s"]
            if isinstance(s, ast.Name):
                sdefs = [(x.value, x.node) for x in rd.reaching(d.node, s.id)]
                need(all(isinstance(v, ast.AST) for v, _ in sdefs),
                     f"{SYM}: start has a non-simple definition")
            else:
                sdefs = [(s, d.node)]
            chk.floor("R20.1", "reaching definitions of the search start",
                      len(sdefs), 1)
            for sv, sn in sdefs:
                proved, off = start_le_last(sv, lst)
                if proved:
                    ok = c == 0
                    why = (f"start = {unparse(sv)} <= len-1, so element k of "
                           f"the reversed slice is slot start-k; claimed "
                           f"start-k-({c})")
                elif off is not None:
                    ok = c == off + 1
                    why = (f"start = len+{off}: the slice starts at len-1, "
                           f"tested slot len-1-k; claimed len+{off}-k-({c})")
                else:
                    ok = False
                    why = (f"start = {unparse(sv)} is not provably <= len-1: "
                           f"when it is, element k of fmmu_used[start::-1] is "
                           f"slot start-k but the claim is start-k-({c}); when "
                           f"it is not, the slice starts at len-1")
                    if c == 0 and int_const(sv) is not None:
                        why = (f"start = {unparse(sv)} may exceed len-1 (a "
                               f"terminal with {int_const(sv)} FMMU(s) or less): "
                               f"then the tested slot is len-1-k but start-k is "
                               f"claimed")
                chk.ob("R20.1", SYM, f"claimed slot is the tested one for start "
                       f"= {unparse(sv)}", ok, sv, why)
    # ------------------------------------------------------------ R20.2
    sn = search_nodes[0]
    handlers = []
    child = sn.stmt
    for p in parents(sn.stmt):
        if isinstance(p, ast.Try) and any(child is x for x in p.body):
            handlers += p.handlers
        if isinstance(p, FUNC):
            break
        child = p
    bad = [h for h in handlers if h.type is None or any(
        n in unparse(h.type) for n in ("ValueError", "Exception",
                                       "BaseException"))]
    chk.ob("R20.2", SYM, "failed search is not caught", not bad, sn.stmt,
           "list.index raises ValueError when no FMMU is free and nothing "
           "converts that into a slot")
    # ------------------------------------------------------------ R20.3
    aw = [m for m in cfg.between(sn, claim) if m.expr is not None and any(
        isinstance(x, (ast.Await, ast.Yield)) for x in walk_expr(m.expr))]
    chk.ob("R20.3", SYM, "no await between search and claim", not aw,
           claim.stmt, "another task could claim the same slot in between")
    relids = {n.id for n in rels}
    ok = cfg.must_pass(claim, lambda n: n.id in relids)
    path = None
    if not ok:
        w = cfg.witness_path(claim, lambda n: n.id in relids)
        path = cfg.describe_path(w) if w else None
    chk.ob("R20.3", SYM, "every path from the claim passes the release "
           "(cancellation included)", ok, claim.stmt,
           "the slot is reset on every exit", path)
    for r in rels:
        ri = match("self.fmmu_used[$i]", r.stmt.targets[0])["i"]
        ok = same(ri, idx) and (not isinstance(idx, ast.Name) or {
            id(x) for x in rd.reaching(r, idx.id)} == {
                id(x) for x in rd.reaching(claim, idx.id)})
        chk.ob("R20.3", SYM, "release resets the slot that was claimed", ok,
               r.stmt, f"claimed [{unparse(idx)}], released [{unparse(ri)}] "
               f"with the same definition of the index")
    regs = find("self.write($addr, $*rest)", f)
    chk.floor("R20.3", "FMMU register writes", len(regs), 2)
    for call, b in regs:
        a = b["addr"]
        m1 = match(f"$base + 0x10 * {unparse(idx)}", a) or match(
            f"$base + {unparse(idx)} * 0x10", a)
        base = int_const(m1["base"]) if m1 else None
        ok = m1 is not None and base is not None and 0x600 <= base < 0x610
        chk.ob("R20.3", SYM, f"register write at {unparse(a)} addresses the "
               f"claimed FMMU", ok, call,
               "FMMU n occupies 0x600 + 0x10*n .. +0xf")
    # ------------------------------------------------------------ R20.4
    sym2 = "ebpfcat.ebpfcat.SyncGroupBase.map_fmmu"
    g = repo.func(sym2)
    chk.analysed(sym2)
    enters = find("$s.enter_async_context($t.map_fmmu($l, $w))", g)
    chk.floor("R20.4", "map_fmmu contexts entered", len(enters), 2)
    writes = sorted(unparse(b["w"]) for _, b in enters)
    chk.ob("R20.4", sym2, "one write and one read mapping per terminal",
           writes == ["False", "True"], g, f"write flags: {writes}")
    for call, b in enters:
        w = in_with_region(call, lambda e: match("AsyncExitStack()", e)
                           is not None)
        chk.ob("R20.4", sym2, f"map_fmmu(write={unparse(b['w'])}) entered "
               f"through the AsyncExitStack", w is not None, call,
               "released in reverse order on any exit")
        # the logical address comes from this terminal's own base
        guard = path_facts(stmt_of(call))
        chk.ob("R20.4", sym2, f"map_fmmu(write={unparse(b['w'])}) only for "
               f"an allocated base", any(
                   t and match(f"{unparse(b['l'])} is not None", e) is not
                   None for e, t in guard), call,
               "a mapping is requested only where the allocation produced a "
               "base for that sync manager")
    # the mappings live exactly as long as this activation: the yield is
    # inside the stack's `async with`, and the stack is not handed over to
    # longer-lived state
    ys = [y for y in walk_no_nested(g) if isinstance(y, ast.Yield)]
    need(len(ys) == 1, f"{sym2}: expected one yield")
    inside = in_with_region(ys[0], lambda e: match("AsyncExitStack()", e)
                            is not None)
    moved = [c for c in calls_in(g) if isinstance(c.func, ast.Attribute)
             and c.func.attr == "pop_all"]
    chk.ob("R20.4", sym2, "the mappings are released by the activation "
           "that entered them", inside is not None and not moved,
           moved[0] if moved else ys[0],
           "the yield lies inside `async with AsyncExitStack()`" if inside
           is not None and not moved else
           "the exit stack is detached from the activation (pop_all / "
           "yield outside its with): with two overlapping activations of "
           "one group object the older exit closes the newer one's "
           "mappings, freeing FMMUs that are still live")

# added rules (appended to the explanation the evidence file carries)
EXPLANATION += (" " + 'Added during the build (DESIGN.md 4.31, second table): (R20.8) map_fmmu by abstract execution on all slot tables of 1-4 FMMUs over {free, owner 0, owner x}: a free slot is claimed, held while mapped, restored afterwards, its own register block written - or the mapping fails.')
EXPLANATION += (' Added after wave 9: (R20.9) the FMMU registers are written by initialize() and map_fmmu() only.')
