"""C26 - the fast Motor device commands exactly its limited control law.

The statement quantifies over bit-vectors (solver territory).  The
structural clause decided here is the order in which limits are established
on the value that ends up as the command."""
import ast

from .common import *
from ..dslread import events

EXPLANATION = (
    "Decided, by a small forward analysis over the DSL event list of "
    "Motor.program: (R26.1) clamp facts. The control law is computed into "
    "a temporary; each limit is the idiom `with X > B: X = B` (or its "
    "mirror; guards are normalised as linear inequalities, X + A < W is X "
    "< W - A). Obligations: every limit tests and overwrites the variable "
    "that currently carries the command (the temporary until it is copied "
    "to the velocity output, the output afterwards); the acceleration "
    "limits are velocity_out +/- max_acceleration, where velocity_out is "
    "the output variable read before it is written in this pass, i.e. the "
    "command actually issued in the previous cycle; then the +/- "
    "max_velocity limits; last the limit-switch overrides, which store the "
    "constant 0 guarded by the switch and the sign of the current command; "
    "nothing is stored to the output after them; (R26.2) the temporary is "
    "the 64-bit signed one (stmp) and the velocity outputs of the bundled "
    "motor terminals are signed. Unknown DSL constructs touching these "
    "variables are an analysis error. Declined: the control law's values, "
    "overflow behaviour.")
ASSUMPTIONS = ["the DSL emits in Python evaluation order"]

M = "ebpfcat.devices.Motor"


def norm_guard(g):
    """(var, '>' | '<', bound text) of a clamp guard, or None"""
    if not isinstance(g, ast.Compare) or len(g.ops) != 1:
        return None
    op = {ast.Gt: ">", ast.Lt: "<", ast.GtE: ">", ast.LtE: "<"}.get(
        type(g.ops[0]))
    if op is None:
        return None
    l, r = g.left, g.comparators[0]
    if isinstance(l, ast.BinOp) and isinstance(l.op, ast.Add):
        # X + A < W   <=>   X < W - A
        return unparse(l.left), op, f"{unparse(r)} - {unparse(l.right)}"
    if isinstance(l, ast.BinOp) and isinstance(l.op, ast.Sub):
        return unparse(l.left), op, f"{unparse(r)} + {unparse(l.right)}"
    return unparse(l), op, unparse(r)


def linked_signed(chk, repo):
    """R26.2: the control law subtracts the encoder from the target and
    compares velocities with negated limits: the terminal variables that
    the package itself links to Motor.encoder and Motor.velocity (the link
    sites are read from the source, examples included) are declared with a
    signed format.  Without one the width is taken from the PDO mapping
    and the variable is unsigned: a negative position reads as a large
    positive one."""
    motor = repo.cls(M)
    n = 0
    for m in repo.production_modules():
        for fn in [x for x in ast.walk(m.tree) if isinstance(x, FUNC)]:
            made = {}
            for st in walk_no_nested(fn):
                if isinstance(st, ast.Assign) and len(st.targets) == 1 and \
                        isinstance(st.targets[0], ast.Name) and isinstance(
                            st.value, ast.Call):
                    nm = (dotted(st.value.func) or "").split(".")[-1]
                    r = repo.resolve_name(m, nm) if nm else None
                    if r and r[0] == "class":
                        made[st.targets[0].id] = r[1]
            for st in walk_no_nested(fn):
                if not (isinstance(st, ast.Assign) and len(st.targets) == 1):
                    continue
                t, v = st.targets[0], st.value
                if not (isinstance(t, ast.Attribute) and t.attr in (
                        "encoder", "velocity") and isinstance(
                            t.value, ast.Name) and isinstance(
                                v, ast.Attribute)):
                    continue
                mc = made.get(t.value.id)
                if mc is None or not repo.is_subclass(mc, M):
                    continue
                root = v.value
                chain = [v.attr]
                while isinstance(root, ast.Attribute):
                    chain.append(root.attr)
                    root = root.value
                tc = made.get(root.id) if isinstance(root, ast.Name) else None
                if tc is None:
                    continue
                # the declaration: attribute of the terminal class, or of
                # the channel class nested in it
                ci = tc
                decl = None
                for a in reversed(chain):
                    own, node = repo.lookup(ci, a)
                    if node is None:
                        break
                    if isinstance(node, ast.ClassDef):
                        ci = own.inner[a]
                        continue
                    if isinstance(node, ast.Call) and isinstance(
                            node.func, ast.Attribute) is False and (
                            dotted(node.func) or "").endswith("Struct"):
                        break
                    decl = node
                if decl is None and len(chain) == 2:
                    # a channel: `channelN = Channel(offset)` of a Struct
                    own, node = repo.lookup(tc, chain[1])
                    if isinstance(node, ast.Call):
                        r = repo.resolve_name(tc.module, (dotted(
                            node.func) or "").split(".")[-1])
                        inner = tc.inner.get((dotted(node.func) or
                                              "").split(".")[-1])
                        cci = inner or (r[1] if r and r[0] == "class"
                                        else None)
                        if cci is not None:
                            decl = repo.lookup(cci, chain[0])[1]
                if not isinstance(decl, ast.Call):
                    continue
                n += 1
                fmt = decl.args[2] if len(decl.args) > 2 else None
                for k in decl.keywords:
                    if k.arg in ("size", "fmt", "format"):
                        fmt = k.value
                ok = isinstance(fmt, ast.Constant) and isinstance(
                    fmt.value, str) and fmt.value[-1:] in ("b", "h", "i",
                                                           "q", "l")
                chk.ob("R26.2", func_qual(repo, st), f"`{unparse(v)}`, "
                       f"linked to Motor.{t.attr}, is declared signed", ok,
                       decl, f"`{unparse(decl)}`" + (
                           ": no signed format - the variable takes the "
                           "width of the PDO entry and is unsigned, the "
                           "control law sees a negative value as a large "
                           "positive one" if not ok else ""))
    chk.floor("R26.2", "terminal variables linked to Motor.encoder / "
              "Motor.velocity in the package", n, 2)


def run(chk, repo):
    linked_signed(chk, repo)
    # the control law is made of signed comparisons and loads of the
    # terminal's variables: the lowering rules those rest on are necessary
    # conditions here as well (shared with C03, C01, C19)
    from . import c03, c01, c19
    from ..dsl import Ctx as _Dsl
    chk.doc("R03.1", "comparison lowering (shared with C03)")
    chk.doc("R03.6", "operand widths of signed comparisons (shared with C03)")
    chk.doc("R01.3", "signedness of operands (shared with C01)")
    chk.doc("R19.1", "process variables keep their declared format on the "
                     "program path (shared with C19)")
    _d = _Dsl(repo)
    c03.simple_compare(chk, repo, _d)
    c03.operand_widths(chk, repo)
    c01.r2_algebra(chk, repo, _d)
    c19.start(chk, repo)
    c19.widths(chk, repo)
    c19.descs(chk, repo)
    chk.doc("R01.5", "sign extension of loaded values (shared with C01): "
                     "the previous velocity is a signed 16-bit variable "
                     "read in 64-bit arithmetic")
    c01.r5_signext(chk, repo, _d)
    chk.doc("R19.3", "offset and format resolution of the terminal "
                     "variables the motor reads and writes (shared with "
                     "C19)")
    from . import c18, c21
    chk.doc("R18.6", "allocation decoded independently (shared with C18)")
    c18.allocation_semantic(chk, repo)
    chk.doc("R21.2", "activation prelude leaves the output data alone "
                     "(shared with C21)")
    c21.activation(chk, repo)
    chk.doc("R26.1", "clamp facts along the DSL program")
    chk.doc("R26.2", "signed 64-bit temporary; signed velocity outputs")
    sym = M + ".program"
    f = repo.func(sym)
    chk.analysed(sym)
    ev = events(f)
    # the temporary
    tw = [w for w in walk_no_nested(f) if isinstance(w, ast.With)
          and len(w.items) == 1 and (dotted(w.items[0].context_expr) or ""
                                     ).startswith("self.ebpf.")
          and (dotted(w.items[0].context_expr) or "").endswith("tmp")]
    need(len(tw) == 1, f"{sym}: temporary not found")
    T = unparse(tw[0].items[0].context_expr)
    chk.ob("R26.2", sym, "the control law is computed in the signed 64-bit "
           "temporary", T == "self.ebpf.stmp", tw[0],
           f"uses {T}: proportional * (target - encoder) exceeds 32 bits "
           f"for distant targets and would wrap to the opposite direction")
    stores = [e for e in ev if e.kind == "store"]
    law = [e for e in stores if unparse(e.target) == T and not [
        g for g in e.guards if unparse(g[0]) != T]]
    need(law, f"{sym}: control law store not found")
    ok = unparse(law[0].value) == "self.proportional * (self.target - " \
        "self.encoder)"
    chk.ob("R26.1", sym, "law: proportional * (target - encoder)", ok,
           law[0].node, f"computes {unparse(law[0].value)}")
    # the output variable: the one the temporary is copied to
    copies = [e for e in stores if unparse(e.value) == T]
    need(len(copies) == 1, f"{sym}: copy of the temporary to the output not "
                           f"found")
    OUT = unparse(copies[0].target)
    chk.ob("R26.1", sym, "the command is issued through the velocity "
           "output", OUT == "self.velocity", copies[0].node, f"copied to "
           f"{OUT}")
    # walk the events in order
    cur = None
    seen_out_store = False
    phase = 0     # 0 law, 1 acceleration, 2 copy, 3 vmax, 4 switches
    facts = []
    problems = []
    n_clamps = 0
    acc = {"self.max_acceleration"}
    for e in ev:
        if e.kind != "store":
            continue
        tgt = unparse(e.target)
        gs = [g for g in e.guards if unparse(g[0]) != T]   # `with stmp:`
        if tgt not in (T, OUT):
            continue
        if e is law[0]:
            cur = T
            continue
        if e is copies[0]:
            if gs:
                problems.append("the copy to the output is conditional")
            cur = OUT
            seen_out_store = True
            facts.append("copy")
            continue
        if cur is None:
            problems.append(f"`{unparse(e.node)[:40]}` precedes the control "
                            f"law")
            continue
        n_clamps += 1
        conds = [norm_guard(g[0]) for g in gs if isinstance(g[0], ast.Compare)]
        flags = [unparse(g[0]) for g in gs if not isinstance(
            g[0], ast.Compare)]
        if len(conds) != 1 or conds[0] is None or not all(p for _, p, _ in gs):
            problems.append(f"`{unparse(e.node)[:40]}`: guard "
                            f"{e.guard_text()} is not a limit idiom")
            continue
        var, op, bound = conds[0]
        what = f"`with {' , '.join(e.guard_text()[-len(gs):])}: " \
               f"{unparse(e.node)[:40]}`"
        if var != cur:
            problems.append(
                f"{what} tests `{var}`, but the command of this pass is in "
                f"`{cur}`: `{var}` still holds "
                f"{'the previous cycle' if var == OUT else 'another'}'s "
                f"value, so the limit is decided on stale data")
            continue
        if tgt != cur:
            problems.append(f"{what} tests `{var}` but overwrites `{tgt}`")
            continue
        val = unparse(e.value)
        if flags:
            # a limit-switch override
            sw = flags[0]
            want = {"self.low_switch": "<", "self.high_switch": ">"}.get(sw)
            if want is None or op != want or bound != "0" or val != "0":
                problems.append(f"{what}: a limit switch must zero a "
                                f"command that points into it")
            else:
                facts.append(("switch", sw))
            continue
        if val != bound and not (
                set(val.replace("(", "").replace(")", "").split()) ==
                set(bound.replace("(", "").replace(")", "").split())):
            problems.append(f"{what}: clamps to `{val}` but tested against "
                            f"`{bound}`")
            continue
        if any(a in bound for a in acc):
            ref = bound.replace("self.max_acceleration", "").replace(
                "+", "").replace("-", "").strip()
            if ref != OUT:
                problems.append(
                    f"{what}: the acceleration limit is taken relative to "
                    f"`{ref}`, not to the velocity output of the previous "
                    f"cycle; what was actually commanded (after the limit "
                    f"switches) and this reference can drift apart")
                continue
            if seen_out_store:
                problems.append(f"{what}: the previous command has already "
                                f"been overwritten in this pass")
                continue
            facts.append(("acc", op))
        elif "self.max_velocity" in bound:
            facts.append(("vmax", op))
        else:
            problems.append(f"{what}: unknown limit `{bound}`")
    chk.floor("R26.1", "limit statements in Motor.program", n_clamps, 6)
    chk.ob("R26.1", sym, "every limit tests and overwrites the variable "
           "that carries this pass's command, against the right reference",
           not problems, f, "; ".join(problems[:2]) or
           f"established in order: {facts}")
    want = [("acc", ">"), ("acc", "<"), "copy", ("vmax", ">"), ("vmax", "<"),
            ("switch", "self.low_switch"), ("switch", "self.high_switch")]
    chk.ob("R26.1", sym, "limits are established in the order acceleration, "
           "velocity, limit switches", facts == want or (
               not problems and sorted(map(str, facts)) == sorted(
                   map(str, want)) and [x for x in facts if x[0] ==
                                        "switch"] == facts[-2:]), f,
           f"facts {facts}")
    # nothing is stored to the output after the switch overrides
    last_sw = max((e.node.lineno for e in stores if unparse(e.target) == OUT
                   and unparse(e.value) == "0"), default=0)
    late = [e for e in stores if unparse(e.target) == OUT
            and e.node.lineno > last_sw]
    chk.ob("R26.1", sym, "the limit-switch overrides are the last stores to "
           "the output", last_sw > 0 and not late, f,
           f"{len(late)} later stores")
    en = [e for e in stores if unparse(e.target) == "self.enable"]
    ok = len(en) == 1 and unparse(en[0].value) == "self.set_enable"
    chk.ob("R26.1", sym, "enable follows set_enable", ok, f, "enable = "
           "set_enable")
    # R26.2 signed velocity outputs
    n = 0
    for ci in repo.classes.values():
        if ci.module.name != "ebpfcat.terminals":
            continue
        v = ci.attrs.get("velocity")
        if v is None:
            continue
        b = match("ProcessDesc($i, $s, $fmt)", v)
        n += 1
        fmt = str_const(b["fmt"]) if b is not None else None
        chk.ob("R26.2", ci.qualname, "the velocity output is a signed 16/32 "
               "bit value", fmt in ("h", "i"), v, f"format {fmt!r}: the "
               f"command is negative for moves in the negative direction")
    chk.floor("R26.2", "motor terminals with a velocity output", n, 3)
    mc = repo.cls(M)
    for nm, kind in (("velocity", "TerminalVar"), ("encoder", "TerminalVar"),
                     ("low_switch", "TerminalVar"),
                     ("high_switch", "TerminalVar"),
                     ("max_velocity", "DeviceVar"),
                     ("max_acceleration", "DeviceVar"),
                     ("target", "DeviceVar"), ("proportional", "DeviceVar")):
        v = mc.attrs.get(nm)
        chk.ob("R26.2", M, f"{nm} is a {kind}", v is not None and dotted(
            getattr(v, "func", None)) == kind, v or mc.node,
            "process data / parameters of the device")
EXPLANATION += (' Added after wave 9: (R26.2) the terminal variables that the package links to Motor.encoder / Motor.velocity are declared with a signed format.')
