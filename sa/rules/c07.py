"""C07 - packet variables access exactly their declared bytes and byte
order."""
import ast

from .common import *
from . import isa
from . import ebpfshared as sh
from ..dsl import Ctx as Dsl
from .c01 import r4_formats

EXPLANATION = (
    "Decided: (R07.1/R07.5) the byte-swap lowering SwitchEndian."
    "calculate_unary, folded with a recording program object for every "
    "prefix x letter x requested width: the swap instruction (LE for '<', "
    "BE for '>' and '!'), its immediate (8 x size) and - because the swap "
    "zero-extends - the re-extension of signed formats narrower than the "
    "computation width, by width - bits, in the signed register view of "
    "that width; formats with a prefix are wrapped (switch_endian), loaded "
    "through the bare letter and stored through the last letter's size "
    "with the value computed in the destination's width; constants are "
    "re-packed; (R07.2) guard strictness of packetSize comparisons; (R07.3) "
    "address identity: PacketVar hands out its declared (format, address), "
    "PacketArray adds the position to the packet base register and nothing "
    "else, and that register (9) is the one the guard loads ctx.data into; "
    "(R07.4) prefixed formats never take the atomic-add route. Declined: "
    "byte-exact read/write results and the run/not-run behaviour on "
    "packets around the boundary.")
ASSUMPTIONS = [
    "BPF_END zero-extends its result to the swapped width",
    "struct prefixes: '<' little endian, '>' and '!' big endian",
]

E = "ebpfcat.ebpf."
X = "ebpfcat.xdp."


def run(chk, repo):
    d = Dsl(repo)
    chk.doc("R07.1", "byte-order table")
    chk.doc("R07.2", "guard strictness")
    chk.doc("R07.3", "address identity")
    chk.doc("R07.4", "no atomic add on prefixed formats")
    chk.doc("R07.5", "swap, then sign-extend")
    chk.doc("R07.6", "one implementation of the byte-order conversion")
    override_rule(chk, repo, "R07.6", E + "Expression", [
        "switch_endian"], "the swap rules established here (swap once per "
        "differing byte order, at the declared width, then sign-extend) "
        "describe Expression.switch_endian / SwitchEndian; a shortcut in a "
        "subclass - copying raw bytes between variables of one byte order, "
        "say - is outside them",
        analysed=(E + "Constant.switch_endian",))
    # who may convert: a value changes byte order where it is loaded
    # (Memory.calculate) and where it is stored (Memory._set) - nowhere
    # else; a comparison or an operator that swaps one side at assembly
    # time compares or computes on raw bytes
    allowed = {E + "Memory.calculate", E + "Memory._set",
               E + "Memory.without_endian"}
    users = []
    for fn in repo.all_functions([repo.module("ebpfcat.ebpf"),
                                  repo.module("ebpfcat.xdp"),
                                  repo.module("ebpfcat.ebpfcat")]):
        q = func_qual(repo, fn.body[0])
        for c in walk_no_nested(fn):
            if isinstance(c, ast.Call) and isinstance(
                    c.func, ast.Attribute) and c.func.attr in (
                        "switch_endian", "without_endian") and not (
                            isinstance(c.func.value, ast.Call)
                            and isinstance(c.func.value.func, ast.Name)
                            and c.func.value.func.id == "super"):
                users.append((q, c))
    chk.floor("R07.6", "byte-order conversion sites", len(users), 2)
    for q, c in users:
        chk.ob("R07.6", q, "byte order is converted at the load and at the "
               "store only", q in allowed, c,
               "Memory.calculate / Memory._set" if q in allowed else
               f"`{unparse(c)[:50]}` in {q}: one operand is converted while "
               f"the other stays raw (an ordering comparison of a "
               f"big-endian variable with a pre-swapped constant compares "
               f"byte-reversed numbers)")
    from .c01 import store_immediate, r5_endian
    # the whole load route first (operand as Memory.calculate builds it),
    # then calculate_unary on its own
    chk.doc("R01.5", "byte-swapped loads are sign-extended again (shared "
                     "with C01)")
    r5_endian(chk, repo, d)
    swap(chk, repo, d)
    wrapping(chk, repo, d)
    sh.guard_strictness(chk, repo, "R07.2")
    addresses(chk, repo, d)
    chk.doc("R01.4", "format -> access size and computation width (shared "
                     "with C01)")
    r4_formats(chk, repo, d)
    chk.doc("R01.7", "immediate stores (shared with C01)")
    store_immediate(chk, repo, d)


class View:
    """recording register view"""
    def __init__(self, name, log):
        self.name, self.log = name, log

    def obj(self):
        name, log = self.name, self.log

        def getitem(i):
            return RegVal(name, i, log).obj()

        def setitem(i, v):
            log.append(("set", name, i, v))
        return Obj(None, {"__getitem__": ("hook", getitem),
                          "__setitem__": ("hook", setitem)})


class RegVal:
    def __init__(self, view, no, log, ops=()):
        self.view, self.no, self.log, self.ops = view, no, log, ops

    def obj(self):
        def lsh(n):
            return RegVal(self.view, self.no, self.log,
                          self.ops + (("<<", n),)).obj()

        def rsh(n):
            return RegVal(self.view, self.no, self.log,
                          self.ops + ((">>", n),)).obj()
        return Obj(None, {"__lshift__": ("hook", lsh),
                          "__rshift__": ("hook", rsh), "_rv": self})


def swap(chk, repo, d):
    ev = d.ev
    se = repo.cls(E + "SwitchEndian")
    f = se.methods.get("calculate_unary")
    need(f is not None, "SwitchEndian.calculate_unary vanished")
    chk.analysed(se.qualname + ".calculate_unary")
    mem = ev.enum_members(repo.cls(E + "Opcode"))
    fails1, fails5 = [], []
    rows = 0
    for pf in "<>!":
        for letter in "HIQhiq":
            for long in (True, False):
                rows += 1
                log = []

                def append(op, dst, src, off, imm):
                    log.append(("append", op, dst, src, off, imm))
                ebpf = Obj(None, {
                    "append": ("hook", append),
                    "sr": View("sr", log).obj(), "sw": View("sw", log).obj(),
                    "r": View("r", log).obj(), "w": View("w", log).obj()})
                me = Obj(se, {"fmt": pf + letter, "ebpf": ebpf})
                what = f"{pf + letter!r} long={long}"
                try:
                    ev.call_function(f, [me, 4, long], cls=se)
                except (Raised, Unknown) as e:
                    # calculate_unary needs more of the operand than its
                    # format: R01.5 above ran it on the operand the load
                    # route builds, and stands alone
                    chk.ob("R07.1", se.qualname + ".calculate_unary",
                           "calculate_unary cannot be run on a bare "
                           "operand; decided on the whole load route "
                           "(R01.5)", True, f, f"{what}: {e}")
                    return
                bits = calcsize(letter) * 8
                width = 64 if long else 32
                apps = [x for x in log if x[0] == "append"]
                wantop = "LE" if pf == "<" else "BE"
                if len(apps) != 1 or not isinstance(apps[0][1], EnumVal) or \
                        apps[0][1].canon != wantop or apps[0][2] != 4 or \
                        apps[0][5] != bits:
                    fails1.append(f"{what}: emits {apps}")
                    continue
                sets = [x for x in log if x[0] == "set"]
                need_ext = letter.islower() and bits < width
                if not need_ext:
                    if sets:
                        fails5.append(f"{what}: extends although the value "
                                      f"fills the width")
                    continue
                want_view = "sr" if long else "sw"
                ok = len(sets) == 1 and sets[0][1] == want_view and \
                    sets[0][2] == 4 and isinstance(sets[0][3], Obj) and \
                    "_rv" in sets[0][3].fields
                if ok:
                    rv = sets[0][3].fields["_rv"]
                    ok = rv.view == want_view and rv.no == 4 and rv.ops == (
                        ("<<", width - bits), (">>", width - bits))
                    pos = [i for i, x in enumerate(log) if x[0] == "append"]
                    ok = ok and log.index(sets[0]) > pos[0]
                if not ok:
                    fails5.append(
                        f"{what}: the swap zero-extends, so a negative value "
                        f"must be sign-extended again by {width - bits} in "
                        f"{want_view}; emitted {sets!r}")
    chk.ob("R07.1", se.qualname + ".calculate_unary", f"swap opcode and "
           f"immediate ({rows} rows)", not fails1, f, "; ".join(fails1[:3])
           or "'<' -> LE, '>'/'!' -> BE, immediate = 8 x size, on the value "
           "register")
    chk.ob("R07.5", se.qualname + ".calculate_unary", f"signed formats are "
           f"re-extended after the swap ({rows} rows)", not fails5, f,
           "; ".join(fails5[:3]) or "exactly the signed letters narrower "
           "than the width, by width - bits, in the signed view of that "
           "width, after the swap")
    # append_endian (same table)
    ae = repo.func(E + "EBPF.append_endian")
    fails = []
    for fmt in ["<H", ">I", "!Q", "<q", "I", "B", (3, 1), "<BB"]:
        log = []

        def append(op, dst, src, off, imm):
            log.append((op, dst, imm))
        me = Obj(repo.cls(E + "EBPF"), {"append": ("hook", append)})
        try:
            ev.call_function(ae, [me, fmt, 4])
        except (Raised, Unknown) as e:
            if isinstance(fmt, str) and len(fmt) == 2:
                fails.append(f"{fmt!r}: {e}")
            continue
        pref = isinstance(fmt, str) and len(fmt) == 2 and fmt[0] in "<>!"
        if pref:
            want = [("LE" if fmt[0] == "<" else "BE", 4,
                     calcsize(fmt[1]) * 8)]
            got = [(o.canon, dd, i) for o, dd, i in log]
            if got != want:
                fails.append(f"{fmt!r}: {got}")
        elif log and not (isinstance(fmt, str) and len(fmt) == 2):
            fails.append(f"{fmt!r}: emits a swap for a format without "
                         f"prefix")
    chk.ob("R07.1", E + "EBPF.append_endian", "same table (8 formats)",
           not fails, ae, "; ".join(fails[:3]) or "swap only for prefixed "
           "formats")


def wrapping(chk, repo, d):
    ev = d.ev
    # Expression.switch_endian wraps exactly the prefixed formats
    fails = []
    a = d.expr("a", True, False)
    for fmt in ["I", "q", "x", (3, 1), "<H", ">q", "!I"]:
        try:
            r = ev.call(ev._dunder(a, "switch_endian"), [fmt])
        except (Raised, Unknown) as e:
            fails.append(f"{fmt!r}: {e}")
            continue
        pref = isinstance(fmt, str) and len(fmt) > 1
        wrapped = isinstance(r, Obj) and r.ci is not None and \
            repo.is_subclass(r.ci, E + "SwitchEndian")
        if pref != wrapped or (wrapped and (r.fields.get("fmt") != fmt or
                                            r.fields.get("arg") is not a)):
            fails.append(f"{fmt!r}: {r!r}")
    chk.ob("R07.1", E + "Expression.switch_endian", "wraps exactly the "
           "formats with a byte-order prefix", not fails,
           repo.func(E + "Expression.switch_endian"), "; ".join(fails[:3])
           or "7 formats")
    # Constant.switch_endian re-packs
    cc = repo.cls(E + "Constant")
    fails = []
    import struct
    for fmt, v in (("<H", 0x1234), (">H", 0x1234), ("!I", 0x12345678),
                   (">q", -2), ("I", 7), ("<I", 7)):
        c = ev.construct(cc, [d.ebpf, v], {})
        try:
            r = ev.call(ev._dunder(c, "switch_endian"), [fmt])
        except (Raised, Unknown) as e:
            fails.append(f"{fmt!r}: {e}")
            continue
        if len(fmt) == 1:
            ok = r is c
        else:
            want = struct.unpack(fmt, struct.pack(fmt[-1], v))[0]
            ok = isinstance(r, Obj) and r.fields.get("value") == want
        if not ok:
            fails.append(f"Constant({v:#x}).switch_endian({fmt!r}) -> "
                         f"{r!r}")
    chk.ob("R07.1", E + "Constant.switch_endian", "constants are re-packed "
           "in the declared order (6 rows)", not fails,
           cc.methods.get("switch_endian", cc.node), "; ".join(fails[:2]) or
           "unpack(fmt, pack(letter, value))")
    # Memory: has_endian / without_endian
    fails = []
    for fmt in ["I", "x", (3, 1), "<H", ">q", "!I"]:
        m = d.memory("m", fmt)
        try:
            he = bool(ev.call(ev._dunder(m, "has_endian"), []))
            wo = ev.call(ev._dunder(m, "without_endian"), [])
        except (Raised, Unknown) as e:
            fails.append(f"{fmt!r}: {e}")
            continue
        pref = isinstance(fmt, str) and len(fmt) > 1
        if he != pref:
            fails.append(f"{fmt!r}: has_endian={he}")
        if pref and not (isinstance(wo, Obj) and wo.fields.get("fmt") ==
                         fmt[-1] and wo.fields.get("address") is
                         m.fields["address"]):
            fails.append(f"{fmt!r}: without_endian -> {wo!r}")
        if not pref and wo is not m:
            fails.append(f"{fmt!r}: without_endian changes the object")
    chk.ob("R07.1", E + "Memory.without_endian", "a prefixed variable is "
           "loaded through its bare letter at the same address", not fails,
           repo.cls(E + "Memory").node, "; ".join(fails[:3]) or "6 formats")
    cal = repo.func(E + "Memory.calculate")
    ok = bool(find("self.without_endian().switch_endian(self.fmt)", cal))
    if ok:
        br = [s for s in walk_no_nested(cal) if isinstance(s, ast.If)
              and match("self.has_endian()", s.test) is not None]
        ok = len(br) == 1 and any(isinstance(x, ast.Return)
                                  for x in ast.walk(br[0]))
    chk.ob("R07.1", E + "Memory.calculate", "prefixed loads are load-then-"
           "swap and nothing else", ok, cal, "the prefixed branch returns "
           "after yielding the swapped value")
    st = repo.func(E + "Memory._set")
    sw = [s for s in walk_no_nested(st) if match_stmt(
        "value = value.switch_endian(self.fmt)", s) is not None]
    calc = [c for c, b in find("$v.calculate(None, $long)", st)
            if sw and unparse(b["v"]) == unparse(sw[0].targets[0])]
    ok = len(sw) == 1 and len(calc) == 1 and sw[0].lineno < calc[0].lineno
    chk.ob("R07.1", E + "Memory._set", "the value is swapped before it is "
           "computed and stored", ok, st, "value.switch_endian(fmt) "
           "precedes value.calculate")
    # R07.4
    fails = []
    for fmt in [p + c for p in "<>!" for c in "HIQhiq"]:
        m = d.memory("m", fmt)
        for dun in ("__iadd__", "__isub__"):
            try:
                r = ev.call(ev._dunder(m, dun), [5])
            except (Raised, Unknown) as e:
                continue
            if isinstance(r, Obj):
                fails.append(f"{fmt!r} {dun} -> atomic add")
    chk.ob("R07.4", E + "Memory.__iadd__", "prefixed formats never take the "
           "atomic-add route (36 rows)", not fails,
           repo.func(E + "Memory.__iadd__"), "; ".join(fails[:3]) or
           "an atomic add cannot swap bytes")


def addresses(chk, repo, d):
    pv = repo.cls(X + "PacketVar")
    f = pv.methods.get("fmt_addr")
    rets = [r for r in walk_no_nested(f) if isinstance(r, ast.Return)] \
        if f else []
    ok = len(rets) == 1 and match("(self.fmt, self.address)", rets[0].value) \
        is not None
    chk.ob("R07.3", pv.qualname + ".fmt_addr", "hands out the declared "
           "(format, address)", ok, f or pv.node, "unchanged")
    init = pv.methods.get("__init__")
    ok = init is not None and param_names(init)[1:3] == ["address", "fmt"] \
        and bool(find("self.address = address", init, mode="stmt")) and \
        bool(find("self.fmt = fmt", init, mode="stmt"))
    chk.ob("R07.3", pv.qualname + ".__init__", "stores address and format "
           "as given", ok, init or pv.node, "PacketVar(address, fmt)")
    ev = d.ev
    try:
        br = ev.class_attr(pv, "base_register")
    except Unknown:
        br = None
    chk.ob("R07.3", pv.qualname, "base register is 9", br == 9, pv.node,
           "the register PacketSize loads ctx.data into")
    pa = repo.cls(X + "PacketArray")
    for dun, pat in (("__getitem__", "self.memory[self.ebpf.r[self.no] + "
                      "pos]"),
                     ("__setitem__", "self.memory[self.ebpf.r[self.no] + "
                      "pos] = value")):
        g = pa.methods.get(dun)
        ok = g is not None and (bool(find(pat, g)) if dun == "__getitem__"
                                else bool(find(pat, g, mode="stmt")))
        chk.ob("R07.3", pa.qualname + "." + dun, "address = packet base + "
               "position", ok, g or pa.node, "nothing else is added")
    pk = repo.func(X + "Packet.__init__")
    ok = all(bool(find(f"self.p{c} = PacketArray(self.ebpf, self.no, "
                       f"self.ebpf.m{c})", pk, mode="stmt")) for c in "BHIQ")
    chk.ob("R07.3", X + "Packet.__init__", "pB/pH/pI/pQ access 1/2/4/8 "
           "bytes", ok, pk, "each accessor is bound to the memory map of "
           "its width")
    ei = repo.func(E + "EBPF.__init__")
    fails = [c for c in "BHIQbhiqx" if not find(
        f"self.m{c} = MemoryMap(self, '{c}')", ei, mode="stmt")]
    chk.ob("R07.3", E + "EBPF.__init__", "memory maps carry their own "
           "format letter", not fails, ei, f"mismatching: {fails}" if fails
           else "mB..mx")
    md = repo.func(E + "MemoryDesc.__get__")
    ms = repo.func(E + "MemoryDesc.__set__")
    pat = "Memory(instance.ebpf, fmt, instance.ebpf.r[self.base_register] " \
          "+ addr)"
    ok = bool(find(pat, md)) and bool(find(pat, ms)) and bool(find(
        "(fmt, addr) = self.fmt_addr(instance)", md, mode="stmt")) and bool(
            find("(fmt, addr) = self.fmt_addr(instance)", ms, mode="stmt"))
    chk.ob("R07.3", E + "MemoryDesc", "loads and stores use base register + "
           "fmt_addr()", ok, md, "the same (format, address) on both "
           "directions")

# added rules (appended to the explanation the evidence file carries)
EXPLANATION += (" " + 'Added during the build (DESIGN.md 4.31, second table): (R07.6) switch_endian is implemented by Expression and (analysed) Constant only; the whole load route (R01.5) is decided first, calculate_unary on its own where it can be run on a bare operand.')
