"""The eBPF instruction encoding (include/uapi/linux/bpf_common.h, bpf.h) as
a reference table - an external standard, not a copy of the repository's
numbers."""

# instruction classes
LD, LDX, ST, STX, ALU, JMP, JMP32, ALU64 = 0, 1, 2, 3, 4, 5, 6, 7
# size
W, H, B, DW = 0x00, 0x08, 0x10, 0x18
# mode
IMM, ABS, IND, MEM, ATOMIC = 0x00, 0x20, 0x40, 0x60, 0xc0
# source
K, X = 0x00, 0x08
ALU_OPS = {"ADD": 0x00, "SUB": 0x10, "MUL": 0x20, "DIV": 0x30, "OR": 0x40,
           "AND": 0x50, "LSH": 0x60, "RSH": 0x70, "NEG": 0x80, "MOD": 0x90,
           "XOR": 0xa0, "MOV": 0xb0, "ARSH": 0xc0, "END": 0xd0}
JMP_OPS = {"JA": 0x00, "JEQ": 0x10, "JGT": 0x20, "JGE": 0x30, "JSET": 0x40,
           "JNE": 0x50, "JSGT": 0x60, "JSGE": 0x70, "CALL": 0x80,
           "EXIT": 0x90, "JLT": 0xa0, "JLE": 0xb0, "JSLT": 0xc0,
           "JSLE": 0xd0}
TO_LE, TO_BE = 0x00, 0x08

# what each member of ebpfcat.ebpf.Opcode has to be, derived from the above:
# ALU ops are stored as ALU|op|K (32 bit, immediate), the width and source
# modifiers as differences of classes / the X bit, jumps as JMP|op|K.
EXPECTED = {n: ALU | v | K for n, v in ALU_OPS.items() if n != "END"}
EXPECTED.update({
    "JMP": JMP | JMP_OPS["JA"],
    "JEQ": JMP | JMP_OPS["JEQ"], "JGT": JMP | JMP_OPS["JGT"],
    "JGE": JMP | JMP_OPS["JGE"], "JSET": JMP | JMP_OPS["JSET"],
    "JNE": JMP | JMP_OPS["JNE"], "JSGT": JMP | JMP_OPS["JSGT"],
    "JSGE": JMP | JMP_OPS["JSGE"], "JLT": JMP | JMP_OPS["JLT"],
    "JLE": JMP | JMP_OPS["JLE"], "JSLT": JMP | JMP_OPS["JSLT"],
    "JSLE": JMP | JMP_OPS["JSLE"],
    "SHORT": JMP32 - JMP,
    "CALL": JMP | JMP_OPS["CALL"], "EXIT": JMP | JMP_OPS["EXIT"],
    "REG": X, "LONG": ALU64 - ALU,
    "W": W, "H": H, "B": B, "DW": DW,
    "LD": LDX | MEM | W, "ST": ST | MEM | W, "STX": STX | MEM | W,
    "XADD": STX | ATOMIC | W,
    "LE": ALU | ALU_OPS["END"] | TO_LE, "BE": ALU | ALU_OPS["END"] | TO_BE,
})

SIZE_BYTES = {W: 4, H: 2, B: 1, DW: 8}

# Python operator -> ALU operation
PY_ALU = {"Add": "ADD", "Sub": "SUB", "Mult": "MUL", "Div": "DIV",
          "FloorDiv": "DIV", "Mod": "MOD", "BitOr": "OR", "BitXor": "XOR",
          "BitAnd": "AND", "LShift": "LSH"}
COMMUTATIVE = {"Add", "Mult", "BitOr", "BitXor", "BitAnd"}

# comparison dunder -> (unsigned positive, unsigned negated, signed pos, neg)
CMP = {
    "__gt__": ("JGT", "JLE", "JSGT", "JSLE"),
    "__ge__": ("JGE", "JLT", "JSGE", "JSLT"),
    "__lt__": ("JLT", "JGE", "JSLT", "JSGE"),
    "__le__": ("JLE", "JGT", "JSLE", "JSGT"),
    "__ne__": ("JNE", "JEQ", "JNE", "JEQ"),
}


def classify(v):
    """decode an opcode byte: (class name, detail) or None if invalid"""
    c = v & 7
    if c in (ALU, ALU64):
        op = v & 0xf0
        names = {x: n for n, x in ALU_OPS.items()}
        if op not in names:
            return None
        return ("alu64" if c == ALU64 else "alu32", names[op],
                "X" if v & 8 else "K")
    if c in (JMP, JMP32):
        op = v & 0xf0
        names = {x: n for n, x in JMP_OPS.items()}
        if op not in names:
            return None
        return ("jmp" if c == JMP else "jmp32", names[op],
                "X" if v & 8 else "K")
    mode = v & 0xe0
    size = v & 0x18
    if mode not in (IMM, MEM, ATOMIC):
        return None
    kind = {LD: "ld", LDX: "ldx", ST: "st", STX: "stx"}[c]
    if mode == ATOMIC and (c != STX or size not in (W, DW)):
        return None
    if mode == IMM and not (c == LD and size in (DW, W)):
        return None
    return (kind, {IMM: "imm", MEM: "mem", ATOMIC: "atomic"}[mode],
            SIZE_BYTES[size])
