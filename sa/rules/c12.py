"""C12 - every datagram request gets exactly its own response."""
import ast

from .common import *

EXPLANATION = (
    "Decided: (R12.1) every set_result/set_exception on a request or frame "
    "future in EtherCat is guarded, on the same definition of the future "
    "and with no await in between, by a test that the future is not done - "
    "an unguarded completion lets one request's state (cancelled) turn into "
    "an InvalidStateError that the frame's error handler hands to every "
    "other request of that frame; (R12.2) the (start, stop) that slices a "
    "request's result and locates its working counter is the pair "
    "Packet.append returned for that very datagram, stored in one tuple "
    "with that request's future, and process_packet consumes the tuple in "
    "the same order; (R12.3) the overflow retry path of sendloop cannot "
    "repeat with identical state: a datagram that does not fit an empty "
    "packet fails its future instead of being retried; (R12.4) a frame "
    "future is inserted under an index proven absent and removed under the "
    "same index, and received frames are looked up at Packet.PACKET_INDEX; "
    "(R12.5) the send queue has one consumer (sendloop) and one producer "
    "(roundtrip). Declined: event-loop orderings, loss/duplication/delay "
    "histories, 'sent exactly once'.")
ASSUMPTIONS = [
    "asyncio futures raise InvalidStateError when completed twice",
    "asyncio tasks can only be pre-empted at an await",
]

ETH = "ebpfcat.ethercat."


def run(chk, repo):
    chk.doc("R12.8", "per-master and per-packet state is per instance")
    per_instance_rule(chk, repo, "R12.8", ["ebpfcat.ethercat.Packet", "ebpfcat.ethercat.EtherCat"], "requests of one "
                      "frame or master are answered from another's table")
    chk.doc("R12.1", "completion guard on request/frame futures")
    chk.doc("R12.2", "own position: tuple of (start, stop, future)")
    chk.doc("R12.3", "progress on overflow in sendloop")
    chk.doc("R12.4", "frame index ownership")
    chk.doc("R12.5", "single consumer / single producer of send_queue")
    # who-may-touch-the-queue first: the path rules below presuppose it
    r5(chk, repo)
    own_request(chk, repo)
    blocking_reads(chk, repo)
    r1(chk, repo)
    frame_answers(chk, repo)
    every_frame(chk, repo)
    refusals(chk, repo)
    r2(chk, repo)
    r3_progress(chk, repo)
    r4(chk, repo)
    from . import c11
    chk.doc("R12.6", "a rejected datagram leaves the packet untouched "
                     "(Packet.append: shared with C11 R11.2)")
    c11.accounting(chk, repo, "R12.6")
    chk.doc("R12.7", "the datagram chain: every datagram but the last "
                     "carries the 'more follows' flag, by position "
                     "(Packet.assemble: shared with C11 R11.3)")
    c11.assemble_rules(chk, repo, "R12.7")


def blocking_reads(chk, repo, rule="R12.13"):
    """sendloop waits for the queue only when nothing is waiting in the
    packet under construction: from one `send_queue.get()` the next one is
    reached only through the shipping of the packet, through the branch
    where the queue was just seen non-empty, or through the branch where
    no datagram had been collected.  (A read that may block while
    datagrams are pending delays them until an unrelated request
    arrives.)"""
    chk.doc(rule, "the queue is waited for only with nothing pending")
    sym = ETH + "EtherCat.sendloop"
    f = repo.func(sym)
    cfg = CFG(f)
    gets = [n for n in cfg.nodes if n.expr is not None and n.kind != "test"
            and find("self.send_queue.get()", n.expr)]
    if not gets:
        return      # read elsewhere: R12.5 reports that
    lst = find("$l.append(($a, $b, $f))", f)
    lname = unparse(lst[0][1]["l"]) if len(lst) == 1 else None

    rd = ReachingDefs(cfg)

    def safe_edge(a, b, lab):
        if a.expr is not None and a.kind != "test" and find(
                "self.process_packet($*x)", a.expr):
            return True         # shipped
        if a.kind == "test" and lab in ("true", "false"):
            t = a.expr
            neg = False
            while isinstance(t, ast.UnaryOp) and isinstance(t.op, ast.Not):
                t, neg = t.operand, not neg
            if isinstance(t, ast.Name) and t.id != lname:
                # a flag that holds such a test: `sent = not dgrams`
                ds = rd.reaching(a, t.id)
                vals = {unparse(d.value) for d in ds
                        if d.kind == "assign" and d.value is not None}
                if len(ds) == 1 and len(vals) == 1:
                    t = next(iter(ds)).value
                    while isinstance(t, ast.UnaryOp) and isinstance(
                            t.op, ast.Not):
                        t, neg = t.operand, not neg
            if match("self.send_queue.empty()", t) is not None:
                return (lab == "true") == neg       # seen non-empty
            if lname and match("@" + lname, t) is not None:
                return (lab == "true") == neg       # nothing collected
            if lname and match(f"len(@{lname}) == 0", t) is not None:
                return (lab == "true") != neg
        return False
    gids = {g.id for g in gets}
    for g in gets:
        seen = {}
        stack = [(g, (g,))]
        hit = None
        while stack and hit is None:
            n, path = stack.pop()
            for m_, lab in n.succ:
                if safe_edge(n, m_, lab):
                    continue
                if m_.id in gids:
                    hit = path + (m_,)
                    break
                if m_.id not in seen:
                    seen[m_.id] = True
                    stack.append((m_, path + (m_,)))
        chk.ob(rule, sym, "the next wait for a request comes only after the "
               "packet was shipped, the queue seen non-empty, or nothing "
               "collected", hit is None, g.stmt,
               "a request dropped or skipped between two reads lets the "
               "loop wait for the queue while datagrams already appended "
               "sit in the open packet" if hit else
               "every path from the read to the next read ships, or tests",
               cfg.describe_path(list(hit)) if hit else None)


def negate_(t):
    from ..normalize import negate
    return negate(clone(t))


def r3_progress(chk, repo):
    """R12.3 by a small path-sensitive exploration: the flag that decides
    whether a new request is fetched (`sent`) is tracked as a constant, and
    so is which side of the 'was the flushed packet empty' test was taken"""
    rule = "R12.3"
    sym = ETH + "EtherCat.sendloop"
    f = repo.func(sym)
    cfg = CFG(f)
    hs = [n for n in cfg.nodes if n.kind == "except" and n.tag.type is not None
          and "OverflowError" in unparse(n.tag.type)]
    need(len(hs) == 1, f"{sym}: OverflowError handler not found")
    h = hs[0]
    appends = [n for n in cfg.nodes if n.expr is not None and n.kind == "stmt"
               and find("$p.append(*$d)", n.expr)]
    gets = {n.id for n in cfg.nodes if n.expr is not None and
            find("self.send_queue.get()", n.expr)}
    need(appends and gets, f"{sym}: append/get not found")
    lst = find("$l.append(($a, $b, $f))", f)
    need(len(lst) == 1, f"{sym}: list of pending datagrams not found")
    lname = unparse(lst[0][1]["l"])
    # the flag tested before the queue is read
    flag = None
    guard = None        # the test whose true branch fetches a request
    for n in cfg.nodes:
        if n.kind != "test":
            continue
        t = n.expr
        nm = t.id if isinstance(t, ast.Name) else None
        b_ = match("$x is None", t) or match("$x is not None", t)
        if nm is None and b_ is not None and isinstance(b_["x"], ast.Name):
            nm = b_["x"].id
        if nm is None:
            continue
        for m, lab in n.succ:
            if m.id in gets and lab in ("true", "false"):
                flag = nm
                guard = t if lab == "true" else negate_(t)
    need(flag is not None, f"{sym}: the flag guarding the queue read was "
                           f"not found")

    def guard_after(value):
        """what the guard evaluates to once `flag = value` ran (None:
        not known)"""
        from ..paths import substitute, _truth
        if isinstance(value, (ast.Tuple, ast.List)) and value.elts or \
                isinstance(value, ast.Dict) and value.keys:
            # a non-empty display: true, and not None
            probe = ast.Constant(value=1)
        elif isinstance(value, ast.Constant):
            probe = value
        else:
            return None
        return _truth(substitute(guard, {flag: probe}))

    def emptiness(test):
        """which edge of this test means 'no datagram was collected'"""
        if match(f"not @{lname}", test) is not None or match(
                f"len(@{lname}) == 0", test) is not None:
            return "true"
        if match("@" + lname, test) is not None or match(
                f"len(@{lname}) > 0", test) is not None:
            return "false"
        return None
    appids = {n.id for n in appends}

    def polarity(expr):
        if same(expr, guard):
            return True
        if same(expr, negate_(guard)) or isinstance(
                guard, ast.UnaryOp) and same(expr, guard.operand):
            return False
        return None
    # the values of the guard with which the handler is entered (forward
    # from the entry; a branch of the guard test fixes its value)
    entry_vals = set()
    seen0 = set()
    st0 = [(cfg.entry, None)]
    while st0:
        n, val = st0.pop()
        if (n.id, val) in seen0:
            continue
        seen0.add((n.id, val))
        if n is h:
            entry_vals.add(val)
        if n.kind == "stmt" and isinstance(n.stmt, ast.Assign) and len(
                n.stmt.targets) == 1 and unparse(
                    n.stmt.targets[0]) == flag:
            val = guard_after(n.stmt.value)
        elif n.kind in ("stmt", "iter") and n.stmt is not None and any(
                isinstance(x, ast.Name) and x.id == flag and isinstance(
                    x.ctx, ast.Store) for x in ast.walk(n.stmt)
                if n.kind == "stmt"):
            val = None
        for m, lab in n.succ:
            v2 = val
            if n.kind == "test" and lab in ("true", "false"):
                pol = polarity(n.expr)
                if pol is not None:
                    out = (lab == "true") == pol
                    if val is not None and out != val:
                        continue
                    v2 = out
            st0.append((m, v2))
    seen = set()
    stack = [(h, v_, None, False, (h,)) for v_ in (entry_vals or {None})]
    bad = None
    failed_in_empty = []
    while stack and bad is None:
        n, val, emp, reset, path = stack.pop()
        key = (n.id, val, emp, reset)
        if key in seen:
            continue
        seen.add(key)
        if n.id in gets:
            continue   # a new request is fetched: progress
        if n.id in appids and n is not h and len(path) > 1:
            if emp == "empty":
                bad = (path, "the same datagram is appended to an empty "
                       "packet again without fetching a new request")
            elif emp is None or not reset:
                bad = (path, "the datagram is retried without establishing "
                       "that the flushed packet carried other datagrams")
            continue
        if n.expr is not None and emp == "empty" and find(
                "$f.set_exception($e)", n.expr):
            failed_in_empty.append(n)
        forks = [(val, emp)]
        if n.kind == "stmt" and isinstance(n.stmt, ast.Assign) and len(
                n.stmt.targets) == 1:
            t = unparse(n.stmt.targets[0])
            if t == flag and guard_after(n.stmt.value) is not None:
                forks = [(guard_after(n.stmt.value), emp)]
            elif t == flag and emptiness(n.stmt.value) is not None:
                # flag = not dgrams: the flag now *is* the emptiness test
                em = emptiness(n.stmt.value)
                forks = [(em == "true", "empty"), (em != "true", "nonempty")]
                if emp in ("empty", "nonempty"):
                    forks = [f_ for f_ in forks if f_[1] == emp]
            elif t == lname:
                reset = True
        for val, emp in forks:
          for m, lab in n.succ:
            if lab == "exc":
                continue
            e2 = emp
            if n.kind == "test":
                pol = polarity(n.expr)
                if pol is not None and val is not None and lab in (
                        "true", "false"):
                    if ((lab == "true") == pol) != val:
                        continue
                em = emptiness(n.expr)
                if em is not None and lab in ("true", "false"):
                    e2 = "empty" if lab == em else "nonempty"
                    if emp in ("empty", "nonempty") and e2 != emp:
                        continue
            stack.append((m, val, e2, reset, path + (m,)))
    chk.stats["paths"] += len(seen)
    chk.ob(rule, sym, "overflow retry cannot repeat with identical state",
           bad is None, h.tag,
           (bad[1] + ": a request that does not fit an empty frame spins "
            "the loop forever without reaching an await and starves the "
            "event loop") if bad else
           f"every path from the OverflowError handler back to the append "
           f"fetches a new request, or has flushed a non-empty packet "
           f"({len(seen)} states explored, flag `{flag}` tracked)",
           cfg.describe_path(bad[0]) if bad else None)
    # the request that can never fit is failed
    tests = [n for n in cfg.reachable(h) if n.kind == "test"
             and emptiness(n.expr) is not None]
    failed = bool(failed_in_empty)
    for t in tests:
        st = t.stmt
        if isinstance(st, ast.If):
            br = st.body if emptiness(st.test) == "true" else st.orelse
            if find("$f.set_exception($e)", br):
                failed = True
    chk.ob(rule, sym, "the request that cannot fit is failed", failed, h.tag,
           "in the empty-packet branch the pending future receives the "
           "exception")


def every_frame(chk, repo):
    """R12.11: a received frame whose index is waited for completes that
    wait, whatever it contains.  Abstract execution of datagram_received on
    frames with a known / unknown / already answered index and arbitrary
    content (including content equal to what was sent)."""
    import struct as _struct
    chk.doc("R12.11", "a response is delivered whatever it contains")
    ci = repo.cls(ETH + "EtherCat")
    f = ci.methods["datagram_received"]
    ev_ = Evaluator(repo, ci.module, ci)
    try:
        pix = ev_.class_attr(repo.cls(ETH + "Packet"), "PACKET_INDEX")
    except Unknown:
        raise AnalysisError("Packet.PACKET_INDEX not foldable")
    bad = []
    rows = 0
    for content in (bytes(40), bytes(range(40)), b"\xff" * 40):
        for state in ("waiting", "done", "unknown"):
            rows += 1
            data = bytearray(content)
            _struct.pack_into("<I", data, pix, 0x1234)
            data = bytes(data)
            got = []
            fut = Obj(None, {"done": ("hook", lambda _s=state: _s == "done"),
                             "set_result": ("hook", lambda v: got.append(v)),
                             "cancelled": ("hook", lambda: False),
                             "sent": data, "request": data, "frame": data})
            table = {} if state == "unknown" else {0x1234: fut}
            me = Obj(ci, {"wait_futures": table})
            try:
                ev_.call_function(f, [me, data, ("addr", 0)], cls=ci)
            except (Unknown, Raised) as e:
                raise AnalysisError(f"{ETH}EtherCat.datagram_received: "
                                    f"cannot be evaluated: {e}")
            want = [data] if state == "waiting" else []
            if got != want:
                bad.append(f"frame {content[:2].hex()}.. for a {state} "
                           f"index: delivered {len(got)} times")
    chk.ob("R12.11", ETH + "EtherCat.datagram_received", "the frame goes to "
           "the future registered under its index exactly when that future "
           "is still waiting", not bad, f, "; ".join(bad[:3]) or
           f"{rows} frames: content (zeros, pattern, equal to the request "
           f"on record) makes no difference")


def refusals(chk, repo):
    """R12.10: the send loop handles exactly one refusal of Packet.append,
    OverflowError (flush the frame and retry / fail that one request).
    Any other exception raised there ends the send loop task: every
    request queued then or later waits for ever."""
    chk.doc("R12.10", "append() refuses with OverflowError only")
    bad = []
    n = 0
    for q in (ETH + "Packet", "ebpfcat.ebpfcat.SterilePacket"):
        ci = repo.cls(q)
        for name in ("append", "append_writer"):
            f = ci.methods.get(name)
            if f is None:
                continue
            for r in [x for x in walk_no_nested(f) if isinstance(
                    x, ast.Raise)]:
                n += 1
                exc = r.exc.func if isinstance(r.exc, ast.Call) else r.exc
                if exc is None or dotted(exc) != "OverflowError":
                    bad.append((r, f"{q}.{name} raises "
                                   f"{unparse(exc) if exc is not None else 're-raise'}"))
    sl = repo.func(ETH + "EtherCat.sendloop")
    hs = [h for t in walk_no_nested(sl) if isinstance(t, ast.Try)
          for h in t.handlers if h.type is not None and find(
              "$p.append(*$d)", t.body)]
    caught = {dotted(h.type) for h in hs}
    chk.floor("R12.10", "refusals in append()", n, 1)
    chk.ob("R12.10", ETH + "Packet.append", "every refusal is the exception "
           "the send loop handles", not bad and "OverflowError" in caught,
           bad[0][0] if bad else sl, (bad[0][1] + f"; sendloop catches "
           f"{sorted(caught)} around the append") if bad else
           "OverflowError in, OverflowError handled")


def frame_answers(chk, repo, rule="R12.9"):
    """who may complete the future of a frame in flight: the response
    that carries its index (datagram_received), nobody else.  A method -
    here or in a master derived from EtherCat - that goes through
    wait_futures and completes what it finds there answers requests the
    bus may well have processed: their real responses arrive later as
    'unknown packets', and whoever reads an EtherCatError as 'not
    processed' (find_free_address) draws the wrong conclusion."""
    chk.doc(rule, "frames in flight are completed by their own response "
                  "only")
    base = repo.cls(ETH + "EtherCat")
    n = 0
    bad = []
    for ci in repo.subclasses(base.qualname):
        if ci.module.name.endswith("_test"):
            continue
        for name, f in ci.methods.items():
            if not isinstance(f, FUNC) or not find("self.wait_futures", f):
                continue
            n += 1
            done = [c for c in calls_in(f) if isinstance(
                c.func, ast.Attribute) and c.func.attr in (
                    "set_result", "set_exception", "cancel")]
            if done and name != "datagram_received":
                bad.append((done[0], f"{ci.qualname}.{name}"))
    chk.floor(rule, "methods that touch wait_futures", n, 2)
    chk.ob(rule, base.qualname, "only datagram_received completes futures "
           "taken from wait_futures", not bad, bad[0][0] if bad else
           base.node, (f"{bad[0][1]} completes the futures of frames that "
                       f"are still on the wire") if bad else
           f"{n} methods use the table")


def r1(chk, repo):
    rule = "R12.1"
    ci = repo.cls(ETH + "EtherCat")
    n = 0
    for name, f in ci.methods.items():
        sym = ci.qualname + "." + name
        sites = [c for c in calls_in(f) if isinstance(c.func, ast.Attribute)
                 and c.func.attr in ("set_result", "set_exception")]
        if not sites:
            continue
        chk.analysed(sym)
        cfg = CFG(f)
        rd = ReachingDefs(cfg)
        for c in sites:
            n += 1
            fut = c.func.value
            futs = unparse(fut)
            facts = path_facts(stmt_of(c))
            guard = [e for e, t in facts if not t and
                     match(f"{futs}.done()", e) is not None]
            ok = bool(guard)
            why = (f"`{futs}.{c.func.attr}` is reached only where "
                   f"`{futs}.done()` was tested false")
            if not ok:
                # the other spelling: complete, and ignore the refusal
                st_ = stmt_of(c)
                tr = getattr(st_, "_parent", None)
                if isinstance(tr, ast.Try) and st_ in tr.body and len(
                        tr.body) == 1 and any(
                            h.type is not None and "InvalidStateError" in
                            unparse(h.type) and not any(
                                isinstance(x, ast.Raise)
                                for b in h.body for x in ast.walk(b))
                            for h in tr.handlers):
                    chk.ob(rule, sym, f"{futs}.{c.func.attr}("
                           f"{short_args(c)}) tolerates a completed future",
                           True, c, "InvalidStateError is caught around "
                           "this one call")
                    continue
            if not ok:
                why = (f"`{futs}.{c.func.attr}(...)` is not guarded by `not "
                       f"{futs}.done()`: a request that was cancelled (or "
                       f"already answered) raises InvalidStateError here, and "
                       f"the enclosing handler then fails the other requests "
                       f"of the frame")
            if ok and isinstance(fut, ast.Name):
                tn = cfg.nodes_containing(guard[0])
                cn = cfg.nodes_containing(c)
                if tn and cn:
                    same_def = rd.reaching(tn[0], fut.id) == rd.reaching(
                        cn[0], fut.id) or {d.kind for d in rd.reaching(
                            cn[0], fut.id)} <= {"for", "unpack", "param",
                                                "assign"} and \
                        {id(d) for d in rd.reaching(cn[0], fut.id)} == \
                        {id(d) for d in rd.reaching(tn[0], fut.id)}
                    aw = [m for m in cfg.between(tn[0], cn[0])
                          if m.expr is not None and m is not tn[0] and any(
                              isinstance(x, ast.Await)
                              for x in walk_expr(m.expr))]
                    if not same_def:
                        ok = False
                        why = (f"`{futs}` is re-bound between the done() "
                               f"test and the completion")
                    elif aw:
                        ok = False
                        why = (f"an await lies between the done() test and "
                               f"the completion; another task can complete "
                               f"or cancel the future there")
            chk.ob(rule, sym, f"{futs}.{c.func.attr}({short_args(c)}) "
                   f"guarded by not done()", ok, c, why)
    chk.floor(rule, "future completion sites in EtherCat", n, 4)


def short_args(c):
    s = ", ".join(unparse(a) for a in c.args)
    s = " ".join(s.split())
    return s[:40]


def r2(chk, repo):
    rule = "R12.2"
    sym = ETH + "EtherCat.sendloop"
    f = repo.func(sym)
    chk.analysed(sym)
    cfg = CFG(f)
    rd = ReachingDefs(cfg)
    apps = find("$l.append(($a, $b, $f))", f)
    pas = [c for c, _ in find("$p.append(*$d)", f)]
    need(len(pas) >= 1, f"{sym}: packet.append(*dgram) not found")
    dropped = [c for c in pas if isinstance(getattr(c, "_parent", None),
                                            ast.Expr)]
    chk.ob(rule, sym, "the position packet.append() returns for a datagram "
           "is kept", not dropped, dropped[0] if dropped else pas[0],
           "the (start, stop) pair is discarded: whoever slices the "
           "response has to re-derive the position, and any request that "
           "is skipped there (a cancelled one) shifts every later request "
           "of the frame onto its predecessor's bytes" if dropped else
           "unpacked into start, stop")
    if dropped and len(apps) != 1:
        return
    need(len(apps) == 1, f"{sym}: expected one append of a "
                         f"(start, stop, future) tuple")
    call, b = apps[0]
    node = cfg.nodes_containing(call)[0]
    ok = True
    why = []
    srcs = []
    for i, k in enumerate(("a", "b")):
        e = b[k]
        if not isinstance(e, ast.Name):
            ok = False
            why.append(f"element {i} is not a plain name")
            continue
        ds = rd.reaching(node, e.id)
        if len(ds) != 1:
            ok = False
            why.append(f"{e.id} has {len(ds)} reaching definitions")
            continue
        d = next(iter(ds))
        if d.kind != "unpack" or d.value[2] != i or match(
                "$p.append(*$d)", d.value[1]) is None:
            ok = False
            why.append(f"{e.id} is not element {i} of the pair returned by "
                       f"packet.append(*dgram)")
        else:
            srcs.append(d.value[1])
    if len(srcs) == 2 and srcs[0] is not srcs[1]:
        ok = False
        why.append("start and stop come from different append calls")
    chk.ob(rule, sym, "(start, stop) stored is the pair append returned for "
           "this datagram", ok, call, "; ".join(why) or
           "both elements are unpacked from one packet.append(*dgram) call "
           "in the same iteration")
    # ... and it was returned: where the append raised (packet full) the
    # names still hold the pair of the datagram before
    if srcs:
        src_nodes = cfg.nodes_containing(srcs[0])
        hs = [n_ for n_ in cfg.nodes if n_.kind == "except"
              and n_.tag.type is not None
              and "OverflowError" in unparse(n_.tag.type)]
        stale = None
        for h_ in hs:
            seen_, todo_ = set(), [h_]
            while todo_ and stale is None:
                x_ = todo_.pop()
                for m_, lab_ in x_.succ:
                    if m_.id in seen_ or m_ in src_nodes:
                        continue
                    seen_.add(m_.id)
                    if m_ is node:
                        stale = h_
                        break
                    todo_.append(m_)
        chk.ob(rule, sym, "the pair is stored only where the append "
               "succeeded", stale is None, call,
               "the tuple is appended on a path from the OverflowError "
               "handler that does not pass the packet.append again: the "
               "request that did not fit is recorded with the positions of "
               "its predecessor and is answered with that datagram's bytes"
               if stale is not None else "no path from the handler reaches "
               "the store without a new append")
    # the future of the tuple is the one that came with this datagram
    fe = b["f"]
    okf = False
    whyf = "future of the tuple is not unpacked from the queue item"
    if isinstance(fe, ast.Name) and srcs:
        dg = match("$p.append(*$d)", srcs[0])["d"]
        fds = rd.reaching(node, fe.id)
        if isinstance(dg, ast.Name):
            dds = rd.reaching(cfg.nodes_containing(srcs[0])[0], dg.id)
            fsrc = {id(d.value[1]) for d in fds if d.kind == "unpack"}
            dsrc = {id(d.value[1]) for d in dds if d.kind == "unpack"}
            okf = bool(fsrc) and fsrc == dsrc and all(
                d.kind == "unpack" for d in fds | dds)
            if okf:
                whyf = ("datagram and future are unpacked from the same "
                        "queue item")
    chk.ob(rule, sym, "future stored belongs to the datagram appended", okf,
           call, whyf)
    # consumer: process_packet
    sym2 = ETH + "EtherCat.process_packet"
    g = repo.func(sym2)
    chk.analysed(sym2)
    loops = [n for n in walk_no_nested(g) if isinstance(n, ast.For)
             and isinstance(n.target, ast.Tuple) and len(n.target.elts) == 3
             and all(isinstance(e, ast.Name) for e in n.target.elts)]
    loops = [l for l in loops if find("$f.set_result($x)", l)]
    need(len(loops) == 1, f"{sym2}: consumer loop not found")
    lp = loops[0]
    s, e, fu = (x.id for x in lp.target.elts)
    res = find(f"{fu}.set_result($x)", lp)
    ok = all(match(f"$d[{s}:{e}]", bb["x"]) is not None for _, bb in res)
    chk.ob(rule, sym2, "result is the slice [start:stop] of the response",
           ok, res[0][0], "set_result receives data[start:stop] with the "
           "loop's own start/stop")
    wk = find(f"unpack_from('<H', $d, {e})", lp)
    chk.ob(rule, sym2, "working counter read at stop", len(wk) == 1, lp,
           "the 16-bit working counter follows the datagram's data")
    datas = {unparse(bb["d"]) for _, bb in wk} | {
        unparse(match(f"$d[{s}:{e}]", bb["x"])["d"]) for _, bb in res
        if match(f"$d[{s}:{e}]", bb["x"])}
    chk.ob(rule, sym2, "counter and data come from the same frame",
           len(datas) == 1, lp, f"frames used: {sorted(datas)}")


def r3(chk, repo):
    rule = "R12.3"
    sym = ETH + "EtherCat.sendloop"
    f = repo.func(sym)
    cfg = CFG(f)
    hs = [n for n in cfg.nodes if n.kind == "except" and n.tag.type is not None
          and "OverflowError" in unparse(n.tag.type)]
    need(len(hs) == 1, f"{sym}: OverflowError handler not found")
    h = hs[0]
    appends = [n for n in cfg.nodes if n.expr is not None and n.kind == "stmt"
               and find("$p.append(*$d)", n.expr)]
    gets = [n for n in cfg.nodes if n.expr is not None and
            find("self.send_queue.get()", n.expr)]
    need(appends and gets, f"{sym}: append/get not found")
    getids = {n.id for n in gets}

    def progress(n):
        # the retry either fetched a new request, or went through a test
        # on the list of datagrams collected so far
        if n.id in getids:
            return True
        if n.kind == "test" and "dgrams" in {x.id for x in ast.walk(n.expr)
                                           if isinstance(x, ast.Name)}:
            return True
        return False
    # name of the list: from the append of the tuple
    lst = find("$l.append(($a, $b, $f))", f)
    lname = unparse(lst[0][1]["l"]) if lst else "dgrams"

    def progress2(n):
        if n.id in getids:
            return True
        return n.kind == "test" and lname in {
            x.id for x in ast.walk(n.expr) if isinstance(x, ast.Name)}
    ok = cfg.must_pass(h, progress2, targets=appends)
    path = None
    if not ok:
        w = cfg.witness_path(h, progress2, targets=appends)
        path = cfg.describe_path(w) if w else None
    # alternative (b): producer rejects what can never fit
    if not ok:
        rt = repo.func(ETH + "EtherCat.roundtrip")
        put = [n for n in walk_no_nested(rt) if isinstance(n, ast.Call) and
               isinstance(n.func, ast.Attribute) and n.func.attr in (
                   "put_nowait", "put")]
        for p in put:
            facts = path_facts(stmt_of(p))
            pre = [s for s in walk_no_nested(rt) if isinstance(s, ast.Raise)
                   and s.lineno < p.lineno and "MAXSIZE" in unparse(
                       [e for e, t in path_facts(s)])]
            if pre:
                ok = True
    chk.ob(rule, sym, "overflow retry cannot repeat with an empty packet",
           ok, h.tag, "after an OverflowError the same datagram is appended "
           "again to a fresh packet; unless the path back to the append "
           "distinguishes 'nothing else was in the packet' (and fails the "
           "request) a datagram larger than a frame is retried forever "
           "without reaching an await" if not ok else
           "every path from the handler back to the append either fetches "
           "a new request or passes the emptiness test that fails the "
           "request", path)
    if ok:
        # the branch taken for an empty list completes the future
        tests = [n for n in cfg.reachable(h) if n.kind == "test" and lname in
                 {x.id for x in ast.walk(n.expr) if isinstance(x, ast.Name)}]
        body_ok = False
        for t in tests:
            st = t.stmt
            if isinstance(st, ast.If):
                br = st.body if match(f"not @{lname}", st.test) is not None \
                    or match(f"len(@{lname}) == 0", st.test) is not None \
                    else st.orelse
                if find("$f.set_exception($e)", br):
                    body_ok = True
        chk.ob(rule, sym, "the request that cannot fit is failed", body_ok,
               h.tag, "in the empty-packet branch the pending future "
               "receives the exception")


def quiet_completion(chk, repo):
    """R12.1: distributing one frame's response must not stop at a request
    that was given up: on a request's future, process_packet and
    datagram_received ask only done() / cancelled() and complete it with
    set_result / set_exception under that guard - result() and exception()
    raise CancelledError for a cancelled request, which ends the
    distribution for every request behind it in the frame"""
    for q in (ETH + "EtherCat.process_packet",
              ETH + "EtherCat.datagram_received"):
        f = repo.func(q)
        bad = [c for c in calls_in(f) if isinstance(c.func, ast.Attribute)
               and c.func.attr in ("result", "exception") and not c.args
               and "future" in unparse(c.func.value).lower()]
        chk.ob("R12.1", q, "a request's future is only asked done() / "
               "cancelled() while responses are distributed", not bad,
               bad[0] if bad else f,
               f"`{unparse(bad[0])}` raises CancelledError for a request "
               f"that was cancelled: the requests behind it in the frame "
               f"never complete" if bad else "no result() / exception()")


def index_spaces(chk, repo):
    """R12.4: a frame is matched to its request by its index alone.  Three
    kinds of frames are in flight under one master - datagram frames
    (random index drawn in roundtrip_packet), slow sync groups (a counter
    starting at SyncGroup.packet_index) and fast sync groups (their slot in
    the program table, below MAX_PROGS): the three index spaces are
    disjoint - MAX_PROGS <= SyncGroup.packet_index < lowest random index"""
    C_ = "ebpfcat.ebpfcat."
    ev = Evaluator(repo, repo.module("ebpfcat.ebpfcat"))
    try:
        mp = ev.class_attr(repo.cls(C_ + "FastEtherCat"), "MAX_PROGS")
        slow = ev.class_attr(repo.cls(C_ + "SyncGroup"), "packet_index")
    except Unknown as e:
        raise AnalysisError(f"R12.4: MAX_PROGS / packet_index: {e}")
    rp = repo.func(ETH + "EtherCat.roundtrip_packet")
    los = []
    ev2 = Evaluator(repo, rp._module, repo.cls(ETH + "EtherCat"))
    for c in calls_in(rp):
        nm = (dotted(c.func) or "").split(".")[-1]
        if nm in ("randint", "randrange") and c.args:
            try:
                a0 = c.args[0]
                if isinstance(a0, ast.Starred):
                    lo = ev2.eval(a0.value, {"self": Obj(repo.cls(
                        ETH + "EtherCat"), {})})[0]
                else:
                    lo = ev2.eval(a0, {"self": Obj(repo.cls(
                        ETH + "EtherCat"), {})})
                los.append(lo)
            except (Unknown, Raised, TypeError, IndexError) as e:
                raise AnalysisError(f"R12.4: index draw `{unparse(c)}`: {e}")
    # ... and by abstract execution: the indices the first frames of a
    # new master go out with, every draw giving the lowest number of its
    # range
    eci = repo.cls(ETH + "EtherCat")
    seen = []
    try:
        def lowest(*a, **k):
            return a[0] if len(a) > 1 else 0
        ev3 = Evaluator(repo, rp._module, eci, funcs={
            "randint": ("hook", lowest), "randrange": ("hook", lowest),
            "Future": ("hook", lambda *a: Obj(None, {
                "add_done_callback": ("hook", lambda cb: None)}))})
        me = ev3.construct(eci, ["eth0"], {})
        me.fields["transport"] = Obj(None, {
            "sendto": ("hook", lambda *a: None)})
        pk = Obj(None, {"assemble": ("hook", lambda i, *a: seen.append(i)
                                     or b"")})
        for _ in range(3):
            ev3.call_function(rp, [me, pk], cls=eci)
    except (Unknown, Raised):
        seen = []
    los += [i for i in seen if isinstance(i, int)]
    need(los, "R12.4: the index of a datagram frame could not be "
              "established (no random draw found in roundtrip_packet, and "
              "it cannot be evaluated)")
    lo = min(los)
    ok = isinstance(mp, int) and isinstance(slow, int) and mp <= slow < lo
    chk.ob("R12.4", C_ + "FastEtherCat", "index spaces of fast groups, slow "
           "groups and datagram frames are disjoint", ok,
           repo.cls(C_ + "FastEtherCat").attr_stmts.get("MAX_PROGS"),
           f"fast groups use 0..{mp}-1, slow groups count up from {slow}, "
           f"datagram frames draw from {lo}" + ("" if ok else
           ": a late frame of one kind completes a request of another "
           "kind with its bytes"))


def r4(chk, repo):
    index_spaces(chk, repo)
    quiet_completion(chk, repo)
    rule = "R12.4"
    sym = ETH + "EtherCat.roundtrip_packet"
    f = repo.func(sym)
    chk.analysed(sym)
    cfg = CFG(f)
    ins = [n for n in cfg.nodes if n.kind == "stmt" and isinstance(
        n.stmt, ast.Assign) and len(n.stmt.targets) == 1 and match(
            "self.wait_futures[$i]", n.stmt.targets[0]) is not None]
    need(len(ins) == 1, f"{sym}: insertion into wait_futures not found")
    i = match("self.wait_futures[$i]", ins[0].stmt.targets[0])["i"]
    iname = unparse(i)

    def edge_ok(a, b, label):
        if a.kind == "test" and label in ("true", "false"):
            facts = []
            from .common import _decompose
            _decompose(a.expr, label == "true", facts)
            for e, t in facts:
                if (not t and match(f"{iname} in self.wait_futures", e)
                        is not None) or (t and match(
                            f"{iname} not in self.wait_futures", e)
                        is not None):
                    return False
        if a.kind == "assert" and match(
                f"{iname} not in self.wait_futures", a.stmt.test) is not None:
            return False
        return True
    reach = cfg.reach_edges(cfg.entry, edge_ok)
    ok = ins[0] not in reach
    chk.ob(rule, sym, "index proven absent before insertion", ok, ins[0].stmt,
           "every path to `wait_futures[index] = future` leaves a loop "
           "`while index in wait_futures` or passes `assert index not in "
           "wait_futures`; otherwise a live frame's future is overwritten "
           "and its requests never complete")
    aw = [n for n in walk_no_nested(f) if isinstance(n, ast.Await)]
    chk.ob(rule, sym, "no await between test and insertion", not aw, f,
           "roundtrip_packet is synchronous up to the insertion")
    cbs = find("$f.add_done_callback(lambda $*_: self.wait_futures.pop($k))",
               f)
    if not cbs:
        cbs = [(c, {"k": c.args[0].body.args[0]}) for c, _ in find(
            "$f.add_done_callback($cb)", f) if isinstance(
                c.args[0], ast.Lambda) and match(
                    "self.wait_futures.pop($k)", c.args[0].body) is not None]
    if not cbs:
        # partial(self.<method>, index): the method pops its first argument
        ci_ = repo.enclosing_class(f)
        for c, b_ in find("$f.add_done_callback($cb)", f):
            cb = b_["cb"]
            if isinstance(cb, ast.Call) and (dotted(cb.func) or "").split(
                    ".")[-1] == "partial" and len(cb.args) == 2 and \
                    isinstance(cb.args[0], ast.Attribute) and unparse(
                        cb.args[0].value) == "self" and ci_ is not None:
                _, m_ = repo.lookup(ci_, cb.args[0].attr)
                if isinstance(m_, FUNC) and len(param_names(m_)) >= 2 and \
                        find(f"self.wait_futures.pop({param_names(m_)[1]}, "
                             f"$*d)", m_):
                    cbs.append((c, {"k": cb.args[1]}))
    ok = len(cbs) == 1 and unparse(cbs[0][1]["k"]) == iname
    # ... decided by abstract execution where that is possible: the request
    # is entered under its index, and the callback the future is given
    # takes out exactly that entry
    try:
        eci_ = repo.cls(ETH + "EtherCat")
        held = []
        futs = []

        def mkfut(*a):
            fo = Obj(None, {})
            fo.fields["add_done_callback"] = ("hook", lambda cb, _h=held:
                                              _h.append(cb))
            futs.append(fo)
            return fo
        evx = Evaluator(repo, f._module, eci_, funcs={
            "randint": ("hook", lambda *a: 4242),
            "randrange": ("hook", lambda *a: 4242),
            "Future": ("hook", mkfut)})
        mex = evx.construct(eci_, ["eth0"], {})
        other = Obj(None, {"_": "another request"})
        wf = evx.getattr(mex, "wait_futures")
        wf[5000] = other
        mex.fields["transport"] = Obj(None, {"sendto": ("hook",
                                                        lambda *a: None)})
        pkx = Obj(None, {"assemble": ("hook", lambda i, *a: b"")})
        evx.call_function(f, [mex, pkx], cls=eci_)
        wf = evx.getattr(mex, "wait_futures")
        entered = dict(wf) == {5000: other, 4242: futs[0]} if futs else False
        if entered and len(held) == 1:
            evx.call(held[0], [futs[0]])
            ok = dict(evx.getattr(mex, "wait_futures")) == {5000: other}
        else:
            ok = False
    except (Unknown, Raised, IndexError, TypeError):
        pass
    chk.ob(rule, sym, "done-callback removes the same index", ok, f,
           "the entry is removed under the index it was inserted with")
    sym2 = ETH + "EtherCat.datagram_received"
    g = repo.func(sym2)
    chk.analysed(sym2)
    up = find("unpack_from('<I', $d, Packet.PACKET_INDEX)", g)
    chk.ob(rule, sym2, "index read at Packet.PACKET_INDEX", len(up) == 1, g,
           "the received frame's identification is read where assemble() "
           "put it")
    lk = find("self.wait_futures.get($i)", g)
    chk.ob(rule, sym2, "frame future looked up by that index", len(lk) == 1,
           g, "lookup in wait_futures")


def own_request(chk, repo, rule="R12.12"):
    """every roundtrip() call has a future of its own and queues one
    request carrying it: the future awaited is created in the call, and the
    put into send_queue lies on every path to the await"""
    chk.doc(rule, "one request, one future, one datagram")
    sym = ETH + "EtherCat.roundtrip"
    f = repo.func(sym)
    chk.analysed(sym)
    cfg = CFG(f, raises="await")
    rd = ReachingDefs(cfg)
    aws = [n for n in cfg.nodes if n.expr is not None and any(
        isinstance(x, ast.Await) and isinstance(x.value, ast.Name)
        for x in walk_expr(n.expr))]
    need(len(aws) >= 1, f"{sym}: the await of the request's future was not "
                        f"found")
    for a in aws:
        nm = [x.value.id for x in walk_expr(a.expr) if isinstance(
            x, ast.Await) and isinstance(x.value, ast.Name)][0]
        ds = rd.reaching(a, nm)
        fresh = bool(ds) and all(d.kind == "assign" and match(
            "Future()", d.value) is not None for d in ds)
        srcs = sorted({unparse(d.value) if d.kind == "assign" and
                       d.value is not None else d.kind for d in ds})
        chk.ob(rule, sym, f"the future awaited (`{nm}`) is created by this "
               f"call", fresh, a.stmt, f"`{nm}` comes from {srcs}" + (
                   "" if fresh else ": a future shared between requests "
                   "ties their outcomes together (cancelling one caller "
                   "cancels the other) and the second request is never "
                   "sent"))

        def is_put(n, _nm=nm):
            return n.expr is not None and any(
                isinstance(c, ast.Call) and isinstance(
                    c.func, ast.Attribute) and c.func.attr in (
                        "put_nowait", "put") and "send_queue" in unparse(
                            c.func.value) and any(
                                isinstance(x, ast.Name) and x.id == _nm
                                for arg in c.args for x in ast.walk(arg))
                for c in walk_expr(n.expr))
        ok = cfg.must_pass(cfg.entry, is_put, targets=[a])
        path = None
        if not ok:
            w = cfg.witness_path(cfg.entry, is_put, targets=[a])
            path = cfg.describe_path(w) if w else None
        chk.ob(rule, sym, "every path to the await queues a request "
               "carrying that future", ok, a.stmt, "send_queue.put_nowait("
               "... future) before `await future`", path)


def r5(chk, repo):
    rule = "R12.5"
    gets, puts = [], []
    for m in repo.production_modules():
        for c in ast.walk(m.tree):
            if isinstance(c, ast.Call) and isinstance(c.func, ast.Attribute) \
                    and isinstance(c.func.value, ast.Attribute) \
                    and c.func.value.attr == "send_queue":
                if c.func.attr in ("get", "get_nowait"):
                    gets.append(c)
                elif c.func.attr in ("put", "put_nowait"):
                    puts.append(c)
    chk.floor(rule, "send_queue get sites", len(gets), 1)
    chk.floor(rule, "send_queue put sites", len(puts), 1)
    for c in gets:
        q = func_qual(repo, c)
        chk.ob(rule, q, "send_queue consumed only by sendloop",
               q == ETH + "EtherCat.sendloop", c,
               "a second consumer would steal requests and break FIFO order")
    for c in puts:
        q = func_qual(repo, c)
        chk.ob(rule, q, "send_queue filled only by roundtrip",
               q == ETH + "EtherCat.roundtrip", c,
               "requests enter the queue in submission order at one place")
    # the table of frames in flight holds their futures itself
    ini = repo.func(ETH + "EtherCat.__init__")
    wf = assigned_values(ini, "self.wait_futures")
    ok = len(wf) == 1 and (match("{}", wf[0][1]) is not None or match(
        "dict()", wf[0][1]) is not None)
    chk.ob("R12.4", ETH + "EtherCat.__init__", "wait_futures is a plain "
           "dict", ok, wf[0][0] if wf else ini, "the table is what keeps a "
           "frame's future (and the task distributing its response) alive "
           "until the response arrives; a weak or bounded mapping drops "
           "frames in flight, and every request in them never completes"
           if not ok else "{}")
    # FIFO: a plain asyncio Queue
    con = repo.func(ETH + "EtherCat.connect")
    mk = assigned_values(con, "self.send_queue")
    ok = len(mk) == 1 and match("Queue()", mk[0][1]) is not None
    chk.ob(rule, ETH + "EtherCat.connect", "send_queue is a FIFO Queue", ok,
           con, "asyncio.Queue preserves submission order (LifoQueue / "
           "PriorityQueue would not)")

# added rules (appended to the explanation the evidence file carries)
EXPLANATION += (" " + 'Added during the build (DESIGN.md 4.31, second table): (R12.12) the future awaited by roundtrip is created in the call and queued on every path; (R12.13) the queue is waited for only with nothing pending; the fetch guard of R12.3 generalised; wait_futures is a plain dict.')
EXPLANATION += (' Added after wave 8: (R12.4) the index of a datagram frame is also established by abstract execution of roundtrip_packet on a new master with every random draw giving the lowest number of its range.')
EXPLANATION += (' Added after wave 10: the done-callback of roundtrip_packet is decided by abstract execution (the entry made under the drawn index is the one the callback removes).')
