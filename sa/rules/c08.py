"""C08 - array-map variables read back the same on both sides."""
import ast

from .common import *
from .c02 import rounding, reads

EXPLANATION = (
    "Re-based during the build (DESIGN.md 4.31): R08.2/R08.3/R08.5/R08.6 are decided by abstract execution of ArrayMap.collect, SimulatedEBPF.__init__ and unpack on stated finite families of program hierarchies and formats (bounded, not a proof over all layouts). "
    "Decided: (R08.1) a single source of layout: program side and Python "
    "side both take (format, offset) from fmt_addr(), which returns the "
    "offset collect() stored under the descriptor's own name; (R08.2) the "
    "slot reserved by collect() is fmtsize(format) of the same descriptor, "
    "slots are laid out largest first (natural alignment), the map size is "
    "rounded up to 8 and is what create_map and mmap use; (R08.3) one slot "
    "per visible variable: every function that walks a class MRO and keeps "
    "a seen-set of names initialises it once per program object, outside "
    "the loop over classes, walks from the most derived class, tests and "
    "adds each name; (R08.4) base registers: a variable's base register is "
    "its map's, ArrayMap.init moves the looked-up pointer into exactly that "
    "register and marks it owned, and the map kinds' base registers differ "
    "from each other, from the packet base, the frame pointer and the "
    "helper-call registers; (R08.5) per-CPU reads are offset by key x "
    "8-rounded size and bounded by the CPU count; (R08.6) scalars and "
    "tuples are packed/unpacked symmetrically; fixed-point values are "
    "rounded, not truncated (shared with C02). Declined: actual read-back "
    "equality through mmap and the kernel.")
ASSUMPTIONS = ["struct sizes; array-map value layout is what user space "
               "mmaps"]

A = "ebpfcat.arraymap."
E = "ebpfcat.ebpf."


def run(chk, repo):
    chk.doc("R08.1", "single source of layout")
    chk.doc("R08.2", "reservation = access size")
    chk.doc("R08.3", "one slot per visible variable (MRO de-duplication)")
    chk.doc("R08.4", "base registers")
    chk.doc("R08.5", "per-CPU stride")
    chk.doc("R08.6", "scalar/tuple symmetry and fixed-point rounding")
    layout(chk, repo)
    dedup(chk, repo)
    bases(chk, repo)
    percpu(chk, repo)
    decoders(chk, repo)
    values(chk, repo)
    # what the program reads is the value that was stored: loads of signed
    # formats are sign-extended, also after a byte swap (shared with C01)
    from ..dsl import Ctx as _Dsl
    from . import c01 as _c01
    chk.doc("R01.5", "sign extension of loads and byte-swapped loads (shared "
                     "with C01)")
    _d = _Dsl(repo)
    _c01.r5_signext(chk, repo, _d)
    _c01.r5_endian(chk, repo, _d)
    # how many per-CPU values there are (shared with C10): the reader's
    # index range and stride
    from . import c10
    chk.doc("R10.3", "per-CPU value count and stride (shared with C10)")
    c10.percpu(chk, repo)
    from . import c29
    c29.no_memo(chk, repo)
    c29.map_route(chk, repo, "R08.7")


def layout(chk, repo):
    d = repo.cls(A + "ArrayGlobalVarDesc")
    fa = d.methods.get("fmt_addr")
    need(fa is not None, "ArrayGlobalVarDesc.fmt_addr vanished")
    rets = [r for r in walk_no_nested(fa) if isinstance(r, ast.Return)]
    ok = len(rets) == 1 and match(
        "(self.fmt, ebpf.__dict__[self.name])", rets[0].value) is not None
    chk.ob("R08.1", d.qualname + ".fmt_addr", "offset is what collect() "
           "stored under the variable's name", ok, fa,
           "(fmt, instance.__dict__[name])")
    sn = d.methods.get("__set_name__")
    ok = sn is not None and bool(find("self.name = name", sn, mode="stmt"))
    chk.ob("R08.1", d.qualname + ".__set_name__", "the descriptor knows its "
           "own name", ok, sn or d.node, "self.name = name")
    for meth in ("unpack", "__set__"):
        f = d.methods.get(meth)
        ok = f is not None and bool(find(
            "(fmt, addr) = self.fmt_addr(instance)", f, mode="stmt"))
        chk.ob("R08.1", d.qualname + "." + meth, "Python side uses "
               "fmt_addr()", ok, f or d.node, "no second offset computation")
    # enumerate all buffer accesses in the module: offsets come from addr
    m = repo.module("ebpfcat.arraymap")
    acc = []
    for c in ast.walk(m.tree):
        if isinstance(c, ast.Call) and dotted(c.func) in ("unpack_from",
                                                          "pack_into"):
            acc.append(c)
    chk.floor("R08.1", "buffer accesses in arraymap", len(acc), 2)
    for c in acc:
        off = c.args[2] if len(c.args) > 2 else None
        ok = isinstance(off, ast.Name) and off.id == "addr"
        chk.ob("R08.1", func_qual(repo, c), f"`{unparse(c)[:40]}` reads at "
               f"the variable's offset", ok, c, "offset argument is addr")
    st = d.methods["__set__"]
    ok = bool(find("instance.ebpf.__dict__[self.map.name][addr:addr + "
                   "len(b)] = b", st, mode="stmt"))
    chk.ob("R08.1", d.qualname + ".__set__", "writes len(packed) bytes at "
           "the variable's offset", ok, st, "slice [addr:addr+len(b)]")
    # collect
    am = repo.cls(A + "ArrayMap")
    col = am.methods.get("collect")
    need(col is not None, "ArrayMap.collect vanished")
    chk.analysed(am.qualname + ".collect")
    layout_semantic(chk, repo)
    cm = am.methods.get("create_map")
    ok = cm is not None and bool(find(
        "create_map(MapType.ARRAY, 4, self.size, 1, MapFlags.MMAPABLE)", cm)
    ) and bool(find("mmap(fd, self.size)", cm))
    chk.ob("R08.2", am.qualname + ".create_map", "value size and mapping "
           "length are the collected size", ok, cm or am.node,
           "one array element of self.size bytes, mmap of the same length")
    ini = am.methods.get("init")
    ok = ini is not None and bool(find("self.size = self.collect(ebpf)", ini,
                                       mode="stmt"))
    chk.ob("R08.2", am.qualname + ".init", "size = collect()", ok,
           ini or am.node, "the size the layout needs")
    # fmtsize agrees with pack (x is 8 bytes, stored as q)
    ev = Evaluator(repo, "ebpfcat.ebpf")
    fs = repo.func(E + "fmtsize")
    fails = []
    # single letters, arrays, the native long, and tuples whose native
    # layout has padding (pack()/unpack_from() on the Python side use the
    # format as declared, i.e. native alignment)
    for fmt in list("BHIQbhiqlL") + ["64I", "3H", "x", "BI", "HQ", "BH",
                                     "BQ", "bq", "IQ", "HI", "BHB", "QB"]:
        want = 8 if fmt == "x" else calcsize(fmt)
        try:
            got = ev.call_function(fs, [fmt])
        except (Raised, Unknown) as e:
            got = str(e)
        if got != want:
            fails.append(f"{fmt!r}: {got}")
    chk.ob("R08.2", E + "fmtsize", "reservation equals what pack() writes "
           "(23 formats, tuples with native padding included)", not fails, fs, "; ".join(fails) or "calcsize, 8 "
           "for x")


def _prog(classes, subs=()):
    """an abstract program object: class hierarchy given as the list of
    class dictionaries, most derived first"""
    return Obj(None, {
        "__class__": Obj(None, {"__mro__": tuple(
            Obj(None, {"__dict__": dict(d)}) for d in classes)}),
        "__dict__": {}, "subprograms": list(subs)})


def layout_semantic(chk, repo):
    """R08.2 / R08.3 by abstract execution (sa/evalx.py) of
    ArrayMap.collect on a family of program objects: the rule looks at the
    layout that comes out, not at how collect() is written"""
    import itertools
    am = repo.cls(A + "ArrayMap")
    dc = repo.cls(A + "ArrayGlobalVarDesc")
    col = am.methods["collect"]
    sym = am.qualname + ".collect"
    ev = Evaluator(repo, am.module, am)
    fsz = lambda f: 8 if f == "x" else calcsize(f)
    pool = ["B", "H", "I", "Q", "x"]
    problems = {"overlap": [], "align": [], "bounds": [], "foreign": [],
                "missing": [], "size": []}
    runs = 0
    scalar = set(pool)
    combos = list(itertools.product(pool, repeat=3)) + list(
        itertools.permutations(["64I", "3H", "BI", "HQ", "B", "Q"], 3)) + [
        c for c in itertools.permutations(
            ["5B", "3B", "3H", "I", "H", "Q", "7s"], 3)
        if any(f in ("5B", "3B", "7s") for f in c)]
    for fa, fb, fc in combos:
        for shadow in ("B", "Q"):
            me, other = Obj(am, {}), Obj(am, {})
            d = lambda m, f: Obj(dc, {"map": m, "fmt": f})
            sub = _prog([{"s1": d(me, fc), "s2": d(other, "Q"),
                          "s3": d(me, "B")}])
            top = _prog([{"a": d(me, fa), "b": d(me, fb), "n": 7,
                          "o": d(other, "I")},
                         {"a": d(me, shadow), "c": d(me, fc)}], [sub])
            visible = {(0, "a"): fa, (0, "b"): fb, (0, "c"): fc,
                       (1, "s1"): fc, (1, "s3"): "B"}
            try:
                total = ev.call_function(col, [me, top], cls=am)
            except (Unknown, Raised) as e:
                raise AnalysisError(f"{sym}: cannot be evaluated: {e}")
            runs += 1
            tag = f"a:{fa} b:{fb} c:{fc} shadowed a:{shadow}"
            dicts = [top.fields["__dict__"], sub.fields["__dict__"]]
            spans = []
            for (pi, name), fmt in visible.items():
                pos = dicts[pi].get(name)
                if not isinstance(pos, int) or isinstance(pos, bool):
                    problems["missing"].append(f"{tag}: {name} has no "
                                               f"offset")
                    continue
                spans.append((pos, pos + fsz(fmt), name, fmt))
                if fmt in scalar and {fa, fb, fc} <= scalar and \
                        pos % fsz(fmt):
                    problems["align"].append(
                        f"{tag}: {name} ({fmt}) at {pos}")
            for name in ("o", "s2", "n"):
                if name in dicts[0] or name in dicts[1]:
                    problems["foreign"].append(
                        f"{tag}: {name} was given an offset")
            spans.sort()
            for x, y in zip(spans, spans[1:]):
                if y[0] < x[1]:
                    problems["overlap"].append(
                        f"{tag}: {x[2]} ({x[3]}) [{x[0]},{x[1]}) and "
                        f"{y[2]} ({y[3]}) [{y[0]},{y[1]})")
            if not isinstance(total, int) or total % 8 or (
                    spans and total < max(e for _, e, _, _ in spans)):
                problems["bounds"].append(
                    f"{tag}: size {total}, last slot ends at "
                    f"{max(e for _, e, _, _ in spans) if spans else 0}")
    chk.floor("R08.2", "layouts tabulated", runs, 250)
    chk.ob("R08.2", sym, "no two variables of a map overlap, each reserving "
           "fmtsize(format) of its visible declaration", not problems[
               "overlap"], col, "; ".join(problems["overlap"][:2]) or
           f"{runs} program hierarchies (scalar, array and tuple formats "
           f"x 3 variables, a shadowed declaration, a subprogram, a second "
           f"map)")
    chk.ob("R08.2", sym, "every slot is naturally aligned", not problems[
        "align"], col, "; ".join(problems["align"][:3]) or "offset % size "
           "== 0: the verifier rejects misaligned map accesses")
    chk.ob("R08.2", sym, "the size returned covers every slot and is a "
           "multiple of 8", not problems["bounds"], col,
           "; ".join(problems["bounds"][:3]) or "what create_map and mmap "
           "use")
    chk.ob("R08.3", sym, "every visible variable of this map has a slot, "
           "in its own program object", not problems["missing"], col,
           "; ".join(problems["missing"][:3]) or "top program and "
           "subprogram")
    chk.ob("R08.3", sym, "variables of other maps and plain attributes are "
           "left alone", not problems["foreign"], col,
           "; ".join(problems["foreign"][:3]) or "`v.map is self`")


def dedup(chk, repo):
    """one slot per visible name: by abstract execution of the two
    functions that walk a class hierarchy"""
    am = repo.cls(A + "ArrayMap")
    se = repo.cls(E + "SimulatedEBPF")
    sym = se.qualname + ".__init__"
    init = se.methods["__init__"]
    chk.analysed(sym)
    bad = []
    for order in (0, 1):
        calls = []

        def mkmap(tag, size):
            def collect(*a):
                calls.append(tag)
                return size
            return Obj(am, {"collect": ("hook", collect)})
        M1, M2, M0, M3 = (mkmap("derived a", 8), mkmap("derived b", 16),
                          mkmap("shadowed a", 24), mkmap("base c", 32))
        dd = {"a": M1, "b": M2, "x": 5} if order == 0 else \
            {"x": 5, "b": M2, "a": M1}
        arrays = []

        def get_array(size):
            arrays.append(size)
            return ("array", size)
        me = Obj(se, {"__class__": Obj(None, {"__name__": "D", "__mro__": (
            Obj(None, {"__dict__": dd}),
            Obj(None, {"__dict__": {"a": M0, "c": M3}}))}),
            "get_array": ("hook", get_array)})
        try:
            Evaluator(repo, se.module, se).call_function(init, [me], cls=se)
        except (Unknown, Raised) as e:
            raise AnalysisError(f"{sym}: cannot be evaluated: {e}")
        got = {k: me.fields.get(k) for k in "abc"}
        want = {"a": ("array", 8), "b": ("array", 16), "c": ("array", 32)}
        if got != want or sorted(calls) != ["base c", "derived a",
                                            "derived b"]:
            bad.append(f"maps laid out: {calls}; arrays: {got}")
    chk.ob("R08.3", sym, "each visible map is laid out once, the most "
           "derived declaration of a name wins", not bad, init,
           "; ".join(bad[:2]) or "a map attribute overridden in a subclass "
           "is collected once; the shadowed declaration is not")
    chk.analysed(am.qualname + ".collect")


def bases(chk, repo):
    ev = Evaluator(repo, "ebpfcat.arraymap")
    regs = {}
    for q in (A + "ArrayMap", A + "PerCPUArrayMap"):
        ci = repo.cls(q)
        try:
            regs[q] = ev.class_attr(ci, "base_register")
        except Unknown:
            regs[q] = None
    own = {q: ("base_register" in repo.cls(q).attrs) for q in regs}
    vals = list(regs.values())
    ok = all(isinstance(v, int) for v in vals) and len(set(vals)) == len(vals)
    chk.ob("R08.4", A + "PerCPUArrayMap", "map kinds use different base "
           "registers", ok, repo.cls(A + "PerCPUArrayMap").node,
           f"{regs}: a program with both kinds of map would load both value "
           f"pointers into one register; the later one wins and the other "
           f"map's variables are addressed in the wrong map")
    for q, v in regs.items():
        ok = isinstance(v, int) and v in (6, 7, 8)
        chk.ob("R08.4", q, f"base register r{v} is callee-saved and not the "
               f"packet base / frame pointer", ok, repo.cls(q).node,
               "r6-r8 survive helper calls; r9 is the packet, r10 the "
               "frame, r0-r5 are clobbered by calls")
    d = repo.cls(A + "ArrayGlobalVarDesc")
    init = d.methods.get("__init__")
    ok = init is not None and bool(find(
        "self.base_register = map.base_register", init, mode="stmt"))
    chk.ob("R08.4", d.qualname + ".__init__", "a variable's base register is "
           "its map's", ok, init or d.node, "copied from the map")
    ini = repo.func(A + "ArrayMap.init")
    mv = find("ebpf.r[self.base_register] = ebpf.r0", ini, mode="stmt")
    own_ = find("ebpf.owners.add(self.base_register)", ini)
    chk.ob("R08.4", A + "ArrayMap.init", "the looked-up value pointer is "
           "moved into the map's base register, which stays owned",
           len(mv) == 1 and len(own_) == 1, ini,
           "r[base] = r0; owners.add(base)")
    key = find("ebpf.mI[ebpf.r10 + stack] = 0", ini, mode="stmt")
    chk.ob("R08.4", A + "ArrayMap.init", "element 0 of the array is looked "
           "up", len(key) == 1, ini, "the map has one element holding all "
           "variables")


def decoders(chk, repo, rule="R08.6"):
    """who may decode: the bytes of an array or hash map are turned into
    values in one place per map kind (ArrayGlobalVarDesc.unpack,
    HashGlobalVarDesc.__get__) - which is where the layout (address,
    format) and the fixed-point scale are applied.  Another function that
    unpacks bytes itself is allowed only as a helper of these (all its
    callers are decoders); a second read route - an iterator, a bulk
    reader - has to go through them."""
    chk.doc(rule, "one decoder per map kind")
    allowed = {A + "ArrayGlobalVarDesc.unpack",
               "ebpfcat.hashmap.HashGlobalVarDesc.__get__"}
    mods = [repo.module("ebpfcat.arraymap"), repo.module("ebpfcat.hashmap")]

    def decodes(fn):
        for c in walk_no_nested(fn):
            if isinstance(c, ast.Call):
                nm = (dotted(c.func) or "").split(".")[-1]
                if nm in ("unpack", "unpack_from", "iter_unpack",
                          "from_bytes") and not (
                        isinstance(c.func, ast.Attribute) and isinstance(
                            c.func.value, ast.Name) and c.func.value.id
                        in ("self",) or isinstance(c.func, ast.Attribute)
                        and unparse(c.func.value).endswith("descriptor")):
                    return c
        return None
    found = 0
    funcs = [(func_qual(repo, fn.body[0]), fn)
             for fn in repo.all_functions(mods)]
    for q, fn in funcs:
        c = decodes(fn)
        if c is None:
            continue
        found += 1
        ok = q in allowed
        why = "the decoder of its map kind"
        if not ok:
            # a helper: every call of it comes from a decoder
            name = q.split(".")[-1]
            callers = [q2 for q2, f2 in funcs if f2 is not fn and any(
                isinstance(x, ast.Call) and (dotted(x.func) or "").split(
                    ".")[-1] == name for x in walk_no_nested(f2))]
            ok = bool(callers) and all(q2 in allowed for q2 in callers)
            why = (f"helper of {sorted(callers)}" if ok else
                   f"`{unparse(c)[:60]}` decodes map bytes on a route of "
                   f"its own (called from {sorted(callers) or 'outside'}): "
                   f"the fixed-point scale and the layout rules established "
                   f"for the decoder do not hold for it")
        chk.ob(rule, q, "map bytes are decoded by the map kind's decoder "
               "only", ok, c, why)
    chk.floor(rule, "functions that decode map bytes", found, 2)
    encoders(chk, repo, rule)


def encoders(chk, repo, rule="R08.6"):
    """who may encode: values are put into an array or hash map from user
    space in one place per map kind (ArrayGlobalVarDesc.__set__,
    HashGlobalVarDesc.__set__; TheDict.__setitem__ stores raw structure
    bytes) - where the fixed-point scale, the format and the layout are
    applied.  Another function that writes map values itself is allowed
    only as a helper of these; a second write route - start values entered
    at creation, a bulk writer - has to go through them."""
    allowed = {A + "ArrayGlobalVarDesc.__set__",
               "ebpfcat.hashmap.HashGlobalVarDesc.__set__",
               "ebpfcat.hashmap.TheDict.__setitem__"}
    mods = [repo.module("ebpfcat.arraymap"), repo.module("ebpfcat.hashmap")]

    def encodes(fn):
        for c in walk_no_nested(fn):
            if isinstance(c, ast.Call):
                nm = (dotted(c.func) or "").split(".")[-1]
                if nm in ("update_elem", "pack_into"):
                    return c
            if isinstance(c, ast.Assign) and any(
                    isinstance(t, ast.Subscript) and isinstance(
                        t.slice, ast.Slice) for t in c.targets) and any(
                    isinstance(x, ast.Call) and (dotted(x.func) or "").split(
                        ".")[-1] in ("pack", "to_bytes")
                    for x in walk_no_nested(fn)):
                return c
        return None
    found = 0
    funcs = [(func_qual(repo, fn.body[0]), fn)
             for fn in repo.all_functions(mods)]
    for q, fn in funcs:
        c = encodes(fn)
        if c is None:
            continue
        found += 1
        ok = q in allowed
        why = "the encoder of its map kind"
        if not ok:
            name = q.split(".")[-1]
            callers = [q2 for q2, f2 in funcs if f2 is not fn and any(
                isinstance(x, ast.Call) and (dotted(x.func) or "").split(
                    ".")[-1] == name for x in walk_no_nested(f2))]
            ok = bool(callers) and all(q2 in allowed for q2 in callers)
            why = (f"helper of {sorted(callers)}" if ok else
                   f"`{unparse(c)[:60]}` writes map values on a route of "
                   f"its own (called from {sorted(callers) or 'outside'}): "
                   f"the fixed-point scale and the format rules established "
                   f"for the encoder do not hold for it")
        chk.ob(rule, q, "map values are encoded by the map kind's encoder "
               "only", ok, c, why)
    chk.floor(rule, "functions that encode map values", found, 3)


def percpu(chk, repo):
    pv = repo.cls(A + "PerCPUVar")
    gi = pv.methods.get("__getitem__")
    need(gi is not None, "PerCPUVar.__getitem__ vanished")
    ok = bool(find("$d[key * self.descriptor.map.size:]", gi))
    chk.ob("R08.5", pv.qualname + ".__getitem__", "value of CPU n lies n x "
           "map.size bytes into the buffer", ok, gi, "the kernel's per-CPU "
           "stride is the 8-rounded value size")
    # abstract execution of __getitem__ for every index around the range
    bad_ = []
    for key in (-2, -1, 0, 1, 3, 4, 5):
        seen_ = []
        desc_ = Obj(None, {"map": Obj(None, {"cpu_no": 4, "size": 24,
                                             "name": "m"}),
                           "unpack": ("hook", lambda inst, data, *rest:
                                      ("value", len(data)) if not rest
                                      else ("value", len(data), rest))})
        me_ = Obj(pv, {"descriptor": desc_, "instance": Obj(None, {
            "ebpf": Obj(None, {"m": Obj(None, {"data": bytes(96)})})})})
        try:
            r_ = Evaluator(repo, pv.module, pv).call_function(
                gi, [me_, key], cls=pv)
            if not 0 <= key < 4:
                bad_.append(f"index {key} of 4 CPUs is accepted")
            elif r_ != ("value", 96 - 24 * key):
                bad_.append(f"index {key}: reads {r_!r}")
        except Raised as e:
            if 0 <= key < 4 or not e.what.startswith("IndexError"):
                bad_.append(f"index {key}: {e.what[:30]}")
        except Unknown as e:
            raise AnalysisError(f"{pv.qualname}.__getitem__: cannot be "
                                f"evaluated: {e}")
    ok = not bad_
    chk.ob("R08.5", pv.qualname + ".__getitem__", "index bounded by the CPU "
           "count", ok, gi, "; ".join(bad_[:3]) or "0 <= key < cpu_no, else "
           "IndexError (7 indices evaluated)")
    # that the size collect() returns is a multiple of 8 covering every
    # slot (the per-CPU stride) is decided on the computed layouts: R08.2
    # "the size returned covers every slot and is a multiple of 8"
    am = repo.cls(A + "ArrayMap")
    dc = repo.cls(A + "ArrayGlobalVarDesc")
    col = am.methods["collect"]
    bad = []
    for k in range(0, 20):
        me = Obj(am, {})
        top = _prog([{f"v{i}": Obj(dc, {"map": me, "fmt": "B"})
                      for i in range(k)}])
        try:
            total = Evaluator(repo, am.module, am).call_function(
                col, [me, top], cls=am)
        except (Unknown, Raised) as e:
            raise AnalysisError(f"ArrayMap.collect: cannot be evaluated: "
                                f"{e}")
        if not isinstance(total, int) or total % 8 or total < k:
            bad.append(f"{k} bytes of variables: size {total!r}")
    chk.ob("R08.5", A + "ArrayMap.collect", "map size is rounded up to 8",
           not bad, col, "; ".join(bad[:3]) or "0..19 one-byte variables: "
           "the size is the next multiple of 8 or more")


def values(chk, repo):
    d = repo.cls(A + "ArrayGlobalVarDesc")
    up = d.methods["unpack"]
    # abstract execution of unpack() on a packed buffer, per format
    import struct as _struct
    bad = []
    for fmt, vals in (("B", (200,)), ("h", (-3,)), ("I", (70000,)),
                      ("q", (-5,)), ("BI", (7, 9)), ("hb", (-2, 3)),
                      ("3H", (1, 2, 3)), ("x", (2.5,))):
        addr = 8
        if fmt == "x":
            raw = _struct.pack("q", int(vals[0] * 100000))
        else:
            raw = _struct.pack(fmt, *vals)
        data = bytes(addr) + raw + bytes(8)
        me = Obj(d, {"fmt": fmt, "name": "v", "fmt_addr": ("hook",
                     lambda inst, _f=fmt, _a=addr: (_f, _a))})
        try:
            got = Evaluator(repo, d.module, d).call_function(
                up, [me, Obj(None, {}), data], cls=d)
        except (Unknown, Raised) as e:
            raise AnalysisError(f"{d.qualname}.unpack: cannot be evaluated "
                                f"for {fmt!r}: {e}")
        want = vals[0] if len(vals) == 1 else vals
        if got != want or type(got) is not type(want):
            bad.append(f"{fmt!r} packed from {vals}: reads {got!r}")
    chk.ob("R08.6", d.qualname + ".unpack", "one-element formats yield the "
           "scalar, others the tuple, x the scaled float", not bad, up,
           "; ".join(bad[:3]) or "8 formats packed by struct and read back "
           "through unpack()")
    st = d.methods["__set__"]
    ifs = [s for s in walk_no_nested(st) if isinstance(s, ast.If)
           and match("not isinstance(value, tuple)", s.test) is not None]
    ok = len(ifs) == 1 and bool(find("pack(fmt, *value)", st))
    chk.ob("R08.6", d.qualname + ".__set__", "scalars are wrapped, tuples "
           "packed element-wise", ok, st, "pack(fmt, *value)")
    gt = d.methods["__get__"]
    ok = bool(find("instance.ebpf.loaded", gt)) and bool(find(
        "instance.ebpf.loaded", st))
    chk.ob("R08.6", d.qualname, "both directions switch on `loaded` between "
           "the Python side and code generation", ok, gt,
           "loaded -> map buffer, else emit code")
    from ..dsl import Ctx as Dsl
    dd = Dsl(repo)
    chk.doc("R02.2", "fixed-point rounding (shared with C02)")
    chk.doc("R02.3", "fixed-point read (shared with C02)")
    rounding(chk, repo, dd)
    reads(chk, repo, dd)

# added rules (appended to the explanation the evidence file carries)
EXPLANATION += (" " + 'Added during the build (DESIGN.md 4.31, second table): (R08.6) who-may-decode rule; odd-size formats in the layout family; sign-extension tables of C01 shared (what the program reads is what was stored).')
EXPLANATION += (" Added after wave 8: (R08.6) who may encode: map values are written from user space by the descriptors' __set__ and TheDict.__setitem__ only, or by helpers only they call.")
EXPLANATION += (' Added after wave 9: (R08.7) DeviceVar goes to the map for exactly the sync group classes that are programs (shared with C29).')
