"""C08 - array-map variables read back the same on both sides."""
import ast

from .common import *
from .c02 import rounding, reads

EXPLANATION = (
    "Decided: (R08.1) a single source of layout: program side and Python "
    "side both take (format, offset) from fmt_addr(), which returns the "
    "offset collect() stored under the descriptor's own name; (R08.2) the "
    "slot reserved by collect() is fmtsize(format) of the same descriptor, "
    "slots are laid out largest first (natural alignment), the map size is "
    "rounded up to 8 and is what create_map and mmap use; (R08.3) one slot "
    "per visible variable: every function that walks a class MRO and keeps "
    "a seen-set of names initialises it once per program object, outside "
    "the loop over classes, walks from the most derived class, tests and "
    "adds each name; (R08.4) base registers: a variable's base register is "
    "its map's, ArrayMap.init moves the looked-up pointer into exactly that "
    "register and marks it owned, and the map kinds' base registers differ "
    "from each other, from the packet base, the frame pointer and the "
    "helper-call registers; (R08.5) per-CPU reads are offset by key x "
    "8-rounded size and bounded by the CPU count; (R08.6) scalars and "
    "tuples are packed/unpacked symmetrically; fixed-point values are "
    "rounded, not truncated (shared with C02). Declined: actual read-back "
    "equality through mmap and the kernel.")
ASSUMPTIONS = ["struct sizes; array-map value layout is what user space "
               "mmaps"]

A = "ebpfcat.arraymap."
E = "ebpfcat.ebpf."


def run(chk, repo):
    chk.doc("R08.1", "single source of layout")
    chk.doc("R08.2", "reservation = access size")
    chk.doc("R08.3", "one slot per visible variable (MRO de-duplication)")
    chk.doc("R08.4", "base registers")
    chk.doc("R08.5", "per-CPU stride")
    chk.doc("R08.6", "scalar/tuple symmetry and fixed-point rounding")
    layout(chk, repo)
    dedup(chk, repo)
    bases(chk, repo)
    percpu(chk, repo)
    values(chk, repo)


def layout(chk, repo):
    d = repo.cls(A + "ArrayGlobalVarDesc")
    fa = d.methods.get("fmt_addr")
    need(fa is not None, "ArrayGlobalVarDesc.fmt_addr vanished")
    rets = [r for r in walk_no_nested(fa) if isinstance(r, ast.Return)]
    ok = len(rets) == 1 and match(
        "(self.fmt, ebpf.__dict__[self.name])", rets[0].value) is not None
    chk.ob("R08.1", d.qualname + ".fmt_addr", "offset is what collect() "
           "stored under the variable's name", ok, fa,
           "(fmt, instance.__dict__[name])")
    sn = d.methods.get("__set_name__")
    ok = sn is not None and bool(find("self.name = name", sn, mode="stmt"))
    chk.ob("R08.1", d.qualname + ".__set_name__", "the descriptor knows its "
           "own name", ok, sn or d.node, "self.name = name")
    for meth in ("unpack", "__set__"):
        f = d.methods.get(meth)
        ok = f is not None and bool(find(
            "(fmt, addr) = self.fmt_addr(instance)", f, mode="stmt"))
        chk.ob("R08.1", d.qualname + "." + meth, "Python side uses "
               "fmt_addr()", ok, f or d.node, "no second offset computation")
    # enumerate all buffer accesses in the module: offsets come from addr
    m = repo.module("ebpfcat.arraymap")
    acc = []
    for c in ast.walk(m.tree):
        if isinstance(c, ast.Call) and dotted(c.func) in ("unpack_from",
                                                          "pack_into"):
            acc.append(c)
    chk.floor("R08.1", "buffer accesses in arraymap", len(acc), 2)
    for c in acc:
        off = c.args[2] if len(c.args) > 2 else None
        ok = isinstance(off, ast.Name) and off.id == "addr"
        chk.ob("R08.1", func_qual(repo, c), f"`{unparse(c)[:40]}` reads at "
               f"the variable's offset", ok, c, "offset argument is addr")
    st = d.methods["__set__"]
    ok = bool(find("instance.ebpf.__dict__[self.map.name][addr:addr + "
                   "len(b)] = b", st, mode="stmt"))
    chk.ob("R08.1", d.qualname + ".__set__", "writes len(packed) bytes at "
           "the variable's offset", ok, st, "slice [addr:addr+len(b)]")
    # collect
    am = repo.cls(A + "ArrayMap")
    col = am.methods.get("collect")
    need(col is not None, "ArrayMap.collect vanished")
    chk.analysed(am.qualname + ".collect")
    app = find("collection.append((fmtsize(v.fmt), prog, k))", col)
    chk.ob("R08.2", am.qualname + ".collect", "reserves fmtsize(format) of "
           "the descriptor it records", len(app) == 1, col,
           "(fmtsize(v.fmt), prog, k)")
    srt = find("collection.sort(key=lambda t: t[0], reverse=True)", col)
    chk.ob("R08.2", am.qualname + ".collect", "largest first", len(srt) == 1,
           col, "sizes are powers of two: descending order aligns every "
           "slot naturally")
    adv = [s for s in walk_no_nested(col) if isinstance(s, ast.For)
           and match("collection", s.iter) is not None]
    ok = len(adv) == 1 and bool(find("prog.__dict__[name] = position",
                                     adv[0], mode="stmt")) and bool(find(
        "position += size", adv[0], mode="stmt"))
    if ok:
        body = adv[0].body
        i1 = [i for i, s in enumerate(body) if match_stmt(
            "prog.__dict__[name] = position", s) is not None]
        i2 = [i for i, s in enumerate(body) if match_stmt(
            "position += size", s) is not None]
        ok = i1 and i2 and i1[0] < i2[0]
    chk.ob("R08.2", am.qualname + ".collect", "offset recorded, then "
           "advanced by the reserved size", bool(ok), col,
           "position is stored before it is advanced")
    cm = am.methods.get("create_map")
    ok = cm is not None and bool(find(
        "create_map(MapType.ARRAY, 4, self.size, 1, MapFlags.MMAPABLE)", cm)
    ) and bool(find("mmap(fd, self.size)", cm))
    chk.ob("R08.2", am.qualname + ".create_map", "value size and mapping "
           "length are the collected size", ok, cm or am.node,
           "one array element of self.size bytes, mmap of the same length")
    ini = am.methods.get("init")
    ok = ini is not None and bool(find("self.size = self.collect(ebpf)", ini,
                                       mode="stmt"))
    chk.ob("R08.2", am.qualname + ".init", "size = collect()", ok,
           ini or am.node, "the size the layout needs")
    # fmtsize agrees with pack (x is 8 bytes, stored as q)
    ev = Evaluator(repo, "ebpfcat.ebpf")
    fs = repo.func(E + "fmtsize")
    fails = []
    # single letters, arrays, the native long, and tuples whose native
    # layout has padding (pack()/unpack_from() on the Python side use the
    # format as declared, i.e. native alignment)
    for fmt in list("BHIQbhiqlL") + ["64I", "3H", "x", "BI", "HQ", "BH",
                                     "BQ", "bq", "IQ", "HI", "BHB", "QB"]:
        want = 8 if fmt == "x" else calcsize(fmt)
        try:
            got = ev.call_function(fs, [fmt])
        except (Raised, Unknown) as e:
            got = str(e)
        if got != want:
            fails.append(f"{fmt!r}: {got}")
    chk.ob("R08.2", E + "fmtsize", "reservation equals what pack() writes "
           "(23 formats, tuples with native padding included)", not fails, fs, "; ".join(fails) or "calcsize, 8 "
           "for x")


def dedup(chk, repo):
    sites = [(A + "ArrayMap.collect", True),
             (E + "SimulatedEBPF.__init__", False)]
    for sym, per_prog in sites:
        f = repo.func(sym)
        chk.analysed(sym)
        mro_loops = [s for s in walk_no_nested(f) if isinstance(s, ast.For)
                     and "__mro__" in unparse(s.iter)]
        need(len(mro_loops) == 1, f"{sym}: MRO loop not found")
        ml = mro_loops[0]
        ok_order = unparse(ml.iter).endswith("__mro__")
        chk.ob("R08.3", sym, "classes are walked from the most derived one",
               ok_order, ml, f"iterates `{unparse(ml.iter)}`: the first "
               f"class that declares a name is the one attribute lookup "
               f"finds; walking in another order records a shadowed "
               f"declaration's size")
        inner = [s for s in ast.walk(ml) if isinstance(s, ast.For)
                 and "__dict__" in unparse(s.iter)]
        need(len(inner) == 1, f"{sym}: loop over class attributes not found")
        tests = [t for t in ast.walk(inner[0]) if isinstance(t, ast.Compare)
                 and len(t.ops) == 1 and isinstance(t.ops[0], ast.NotIn)
                 and isinstance(t.left, ast.Name)
                 and isinstance(t.comparators[0], ast.Name)]
        ok = len(tests) == 1
        sname = unparse(tests[0].comparators[0]) if ok else None
        chk.ob("R08.3", sym, "a name already seen is skipped", ok, inner[0],
               "`k not in seen` guards the collection: an attribute "
               "overridden in a subclass is laid out once")
        if not ok:
            continue
        adds = find(f"{sname}.add({unparse(tests[0].left)})", inner[0])
        chk.ob("R08.3", sym, "every collected name is remembered",
               len(adds) == 1, inner[0], f"{sname}.add(k)")
        inits = [s for s in walk_no_nested(f) if isinstance(s, ast.Assign)
                 and unparse(s.targets[0]) == sname]
        ok = len(inits) == 1 and match("set()", inits[0].value) is not None
        where_ok = False
        if ok:
            p = inits[0]._parent
            inside_mro = any(q is ml for q in parents(inits[0]))
            if per_prog:
                prog_loops = [q for q in parents(ml) if isinstance(q, ast.For)]
                where_ok = not inside_mro and bool(prog_loops) and \
                    p is prog_loops[0]
            else:
                where_ok = not inside_mro
        chk.ob("R08.3", sym, "the seen-set lives across the classes of one "
               "program object", ok and where_ok, inits[0] if inits else f,
               "initialised once per object, outside the loop over its MRO "
               "(re-initialising it per class collects an overridden "
               "variable twice; the name then points at the smaller slot)")


def bases(chk, repo):
    ev = Evaluator(repo, "ebpfcat.arraymap")
    regs = {}
    for q in (A + "ArrayMap", A + "PerCPUArrayMap"):
        ci = repo.cls(q)
        try:
            regs[q] = ev.class_attr(ci, "base_register")
        except Unknown:
            regs[q] = None
    own = {q: ("base_register" in repo.cls(q).attrs) for q in regs}
    vals = list(regs.values())
    ok = all(isinstance(v, int) for v in vals) and len(set(vals)) == len(vals)
    chk.ob("R08.4", A + "PerCPUArrayMap", "map kinds use different base "
           "registers", ok, repo.cls(A + "PerCPUArrayMap").node,
           f"{regs}: a program with both kinds of map would load both value "
           f"pointers into one register; the later one wins and the other "
           f"map's variables are addressed in the wrong map")
    for q, v in regs.items():
        ok = isinstance(v, int) and v in (6, 7, 8)
        chk.ob("R08.4", q, f"base register r{v} is callee-saved and not the "
               f"packet base / frame pointer", ok, repo.cls(q).node,
               "r6-r8 survive helper calls; r9 is the packet, r10 the "
               "frame, r0-r5 are clobbered by calls")
    d = repo.cls(A + "ArrayGlobalVarDesc")
    init = d.methods.get("__init__")
    ok = init is not None and bool(find(
        "self.base_register = map.base_register", init, mode="stmt"))
    chk.ob("R08.4", d.qualname + ".__init__", "a variable's base register is "
           "its map's", ok, init or d.node, "copied from the map")
    ini = repo.func(A + "ArrayMap.init")
    mv = find("ebpf.r[self.base_register] = ebpf.r0", ini, mode="stmt")
    own_ = find("ebpf.owners.add(self.base_register)", ini)
    chk.ob("R08.4", A + "ArrayMap.init", "the looked-up value pointer is "
           "moved into the map's base register, which stays owned",
           len(mv) == 1 and len(own_) == 1, ini,
           "r[base] = r0; owners.add(base)")
    key = find("ebpf.mI[ebpf.r10 + stack] = 0", ini, mode="stmt")
    chk.ob("R08.4", A + "ArrayMap.init", "element 0 of the array is looked "
           "up", len(key) == 1, ini, "the map has one element holding all "
           "variables")


def percpu(chk, repo):
    pv = repo.cls(A + "PerCPUVar")
    gi = pv.methods.get("__getitem__")
    need(gi is not None, "PerCPUVar.__getitem__ vanished")
    ok = bool(find("$d[key * self.descriptor.map.size:]", gi))
    chk.ob("R08.5", pv.qualname + ".__getitem__", "value of CPU n lies n x "
           "map.size bytes into the buffer", ok, gi, "the kernel's per-CPU "
           "stride is the 8-rounded value size")
    ifs = [s for s in walk_no_nested(gi) if isinstance(s, ast.If)]
    ok = len(ifs) == 1 and match("0 <= key < len(self)", ifs[0].test) \
        is not None
    ln = pv.methods.get("__len__")
    ok = ok and ln is not None and bool(find(
        "self.descriptor.map.cpu_no", ln))
    chk.ob("R08.5", pv.qualname + ".__getitem__", "index bounded by the CPU "
           "count", ok, gi, "0 <= key < cpu_no, else IndexError")
    col = repo.func(A + "ArrayMap.collect")
    # the last re-definition of the running position from itself, folded for
    # every position 0..64: it must be the next multiple of 8 (whatever the
    # idiom: (p + 7) // 8 * 8, (p + 7) & -8, -(-p // 8) * 8 ...)
    ok, why, at = False, "no statement rounds the running position", col
    ev = Evaluator(repo, col._module)
    for st in [s for s in walk_no_nested(col) if isinstance(s, ast.Assign)
               and len(s.targets) == 1 and isinstance(s.targets[0], ast.Name)]:
        nm = st.targets[0].id
        used = {n.id for n in ast.walk(st.value) if isinstance(n, ast.Name)}
        if used != {nm}:
            continue
        try:
            tab = [ev.eval(st.value, {nm: v}) for v in range(65)]
        except (Unknown, Raised):
            continue
        if tab == list(range(65)):
            continue
        at = st
        ok = tab == [(v + 7) // 8 * 8 for v in range(65)]
        why = f"`{unparse(st)}` for sizes 0..64 gives " + (
            "the next multiple of 8" if ok else str(tab[:10]) + "...")
    chk.ob("R08.5", A + "ArrayMap.collect", "map size is rounded up to 8",
           ok, at, why)


def values(chk, repo):
    d = repo.cls(A + "ArrayGlobalVarDesc")
    up = d.methods["unpack"]
    ok = bool(find("len(ret) == 1", up)) and bool(find("ret[0]", up))
    chk.ob("R08.6", d.qualname + ".unpack", "one-element formats yield the "
           "scalar, others the tuple", ok, up, "len(ret) == 1 -> ret[0]")
    st = d.methods["__set__"]
    ifs = [s for s in walk_no_nested(st) if isinstance(s, ast.If)
           and match("not isinstance(value, tuple)", s.test) is not None]
    ok = len(ifs) == 1 and bool(find("pack(fmt, *value)", st))
    chk.ob("R08.6", d.qualname + ".__set__", "scalars are wrapped, tuples "
           "packed element-wise", ok, st, "pack(fmt, *value)")
    gt = d.methods["__get__"]
    ok = bool(find("instance.ebpf.loaded", gt)) and bool(find(
        "instance.ebpf.loaded", st))
    chk.ob("R08.6", d.qualname, "both directions switch on `loaded` between "
           "the Python side and code generation", ok, gt,
           "loaded -> map buffer, else emit code")
    from ..dsl import Ctx as Dsl
    dd = Dsl(repo)
    chk.doc("R02.2", "fixed-point rounding (shared with C02)")
    chk.doc("R02.3", "fixed-point read (shared with C02)")
    rounding(chk, repo, dd)
    reads(chk, repo, dd)
