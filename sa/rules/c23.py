"""C23 - processes sharing an interface coordinate the dispatcher safely."""
import ast

from .common import *

EXPLANATION = (
    "Decided: (R23.1) exclusive creation: ethertype lock files are opened "
    "in mode 'x' and a collision re-draws the ethertype; the installer is "
    "elected by os.rename of a private directory that already holds the "
    "participant's lock file (rename replaces an *empty* directory "
    "silently, so the token must be non-empty) onto the well-known name, "
    "and only the winner's branch creates the program table, attaches and "
    "pins; the loser opens the pinned table; (R23.2) the FMMU bitmap: "
    "every write to the shared file lies between lockf(LOCK_EX) and "
    "lockf(LOCK_UN) of the same descriptor (lock-held state on the CFG), "
    "in __init__ and in remove; the creator's initial bitmap marks exactly "
    "the window it takes for itself (folded: bit of base_addr >> 22); "
    "(R23.3) tear down before releasing the election token: detaching the "
    "dispatcher and unpinning the table must not come after the successful "
    "rmdir of the lock directory; (R23.4) failure cleanup in both start-up "
    "branches; (R23.7) the netlink helper completes a refused attach "
    "request with an exception (kernel answers by abstract execution). "
    "The creator's unlocked initial write and the detach after "
    "rmdir are recorded findings. Declined: interleavings and crash points "
    "as such.")
ASSUMPTIONS = [
    "rename(2) onto an existing non-empty directory fails, onto an empty "
    "one succeeds; open(..., 'x') is O_EXCL",
    "lockf locks exclude other processes",
]

C = "ebpfcat.ebpfcat.ParallelEtherCat"
F = "ebpfcat.lock.FMMULock"


def run(chk, repo):
    chk.doc("R23.1", "exclusive creation and installer election")
    chk.doc("R23.2", "FMMU bitmap writes under the lock; initial bitmap")
    chk.doc("R23.3", "tear down before releasing the election token")
    chk.doc("R23.4", "failure cleanup")
    # (the who-may and model rules first: they do not depend on the shape
    # of run(), and what they find stands when a shape rule gives up)
    fs_effects(chk, repo)
    netlink_answers(chk, repo)
    errno_classes(chk, repo)
    election(chk, repo)
    bitmap(chk, repo)
    teardown(chk, repo)


def netlink_answers(chk, repo):
    """R23.7: the installer learns from the netlink answer whether the
    dispatcher got attached (ParallelEtherCat.run cleans up and gives the
    election back on an exception, and goes on as a participant
    otherwise).  XDRFD.datagram_received, by abstract execution on the
    messages a kernel sends: an NLMSG_ERROR with a non-zero code (the
    kernel reports -errno) completes the request with an exception, the
    acknowledgement (code 0) and NLMSG_DONE with a result."""
    chk.doc("R23.7", "a refused attach request is seen as a failure")
    sym = "ebpfcat.xdp.XDRFD.datagram_received"
    ci = repo.cls("ebpfcat.xdp.XDRFD")
    f = ci.methods.get("datagram_received")
    need(f is not None, f"{sym}: not found")
    chk.analysed(sym)

    def msg(type_, flags, payload=b""):
        return struct.pack("IHHII", 16 + len(payload), type_, flags, 1,
                           77) + payload

    def err(code):
        return msg(2, 0, struct.pack("iIHHII", code, 52, 19, 5, 1, 0))
    cases = [("acknowledgement (NLMSG_ERROR, code 0)", err(0), "result")]
    for code, nm in ((-16, "EBUSY"), (-95, "EOPNOTSUPP"), (-1, "EPERM"),
                     (-22, "EINVAL"), (-19, "ENODEV")):
        cases.append((f"NLMSG_ERROR with code {code} (-{nm})", err(code),
                      "exception"))
    cases.append(("NLMSG_DONE", msg(3, 2), "result"))
    cases.append(("a multipart message followed by an error -16",
                  msg(16, 2, b"\0" * 16) + err(-16), "exception"))
    cases.append(("a multipart message followed by NLMSG_DONE",
                  msg(16, 2, b"\0" * 16) + msg(3, 2), "result"))
    bad = []
    for name, data, want in cases:
        got = []
        fut = Obj(None, {
            "set_result": ("hook", lambda v, _g=got: _g.append("result")),
            "set_exception": ("hook", lambda e, _g=got: _g.append(
                "exception")),
            "done": ("hook", lambda _g=got: bool(_g))})
        me = Obj(ci, {"future": fut})
        os_ = Obj(None, {"strerror": ("hook", lambda n: f"error {n}")})
        try:
            Evaluator(repo, ci.module, ci, funcs={"os": os_}).call_function(
                f, [me, data, (0, 0)], cls=ci)
        except Raised:
            pass
        except Unknown as e:
            raise AnalysisError(f"{sym}: cannot be evaluated: {e}")
        if got != [want]:
            bad.append(f"{name}: the request is completed with "
                       f"{got or 'nothing'}, expected one {want}")
    chk.ob("R23.7", sym, f"a netlink answer completes the pending request "
           f"once: with an exception for an error code, with a result for "
           f"the acknowledgement and NLMSG_DONE ({len(cases)} answers by "
           f"abstract execution)", not bad, f, "; ".join(bad[:2]) + (
               ": the installer takes a refused attach for a success, pins "
               "the table and lets every participant run without a "
               "dispatcher" if bad else "") or "as the kernel reports them")


FS_ALLOWED = {
    ("get_ethertype", "open", "own lock file"),
    ("run", "tempfile.mkdtemp", "lock area"),
    ("run", "os.rename", "private directory"),
    ("run", "shutil.rmtree", "private directory"),
    ("run", "shutil.rmtree", "lock directory"),
    ("run", "os.remove", "own lock file"),
    ("run", "os.remove", "pinned table"),
    ("run", "os.rmdir", "lock directory"),
    ("run", "os.makedirs", "pinned table"),     # the bpf directory
}
FS_CALLS = {"os.remove", "os.unlink", "os.rename", "os.replace", "os.rmdir",
            "os.mkdir", "os.makedirs", "os.removedirs", "os.truncate",
            "shutil.rmtree", "shutil.move", "tempfile.mkdtemp", "os.link",
            "os.symlink"}


def fs_effects(chk, repo):
    """R23.6 (an effect rule): the election protocol analysed here is a
    protocol over a handful of file-system operations - create the private
    directory, rename it into place, create / remove the own lock file,
    remove the directory, remove the pin.  Every operation of ParallelEtherCat
    that changes the lock area is one of these, in the method it belongs
    to; another one (re-creating the directory from a joiner, removing files
    found by listing it) is a step the protocol's argument does not
    cover."""
    chk.doc("R23.6", "file-system effects on the lock area are the "
                     "protocol's own")
    ci = repo.cls(C)
    n = 0
    known = {m_ for m_, _, _ in FS_ALLOWED}
    for name, f in sorted(ci.methods.items()):
        if not isinstance(f, FUNC):
            continue
        # a helper with one call site in a method of the protocol is a
        # part of that method: its operations are looked at there, with
        # the arguments of that call in the place of its parameters
        as_name, subst = name, {}
        if name not in known:
            sites = [(g_name, c_) for g_name, g in ci.methods.items()
                     if isinstance(g, FUNC) and g is not f
                     for c_ in calls_in(g) if isinstance(
                         c_.func, ast.Attribute) and c_.func.attr == name
                     and unparse(c_.func.value) in ("self", "cls", ci.name,
                                                    "type(self)")]
            if len(sites) == 1 and sites[0][0] in known:
                as_name = sites[0][0]
                ps = param_names(f)
                if ps and ps[0] in ("self", "cls") and not any(
                        unparse(d) == "staticmethod"
                        for d in f.decorator_list):
                    ps = ps[1:]
                for p_, a_ in zip(ps, sites[0][1].args):
                    subst[p_] = unparse(a_)
                for k_ in sites[0][1].keywords:
                    if k_.arg:
                        subst[k_.arg] = unparse(k_.value)
        for c in calls_in(f):
            callee = dotted(c.func) or ""
            mode = None
            if callee == "open":
                mode = str_const(c.args[1]) if len(c.args) > 1 else "r"
                for k in c.keywords:
                    if k.arg == "mode":
                        mode = str_const(k.value)
                if not mode or not set(mode) & set("wxa+"):
                    continue
            elif callee not in FS_CALLS:
                continue
            txt = " ".join(unparse(a) for a in c.args) + " " + " ".join(
                unparse(k.value) for k in c.keywords)
            for p_, a_ in subst.items():
                import re as _re
                txt = _re.sub(rf"\b{_re.escape(p_)}\b", a_, txt)
            if "lockfile" in txt or ".lock'" in txt or '.lock"' in txt \
                    or ".lock}" in txt:
                kind = "own lock file"
            elif "tmpdir" in txt:
                kind = "private directory"
            elif "lockdir" in txt:
                kind = "lock directory"
            elif "programs" in txt:
                kind = "pinned table"
            elif "/run/lock" in txt:
                kind = "lock area"
            else:
                kind = f"`{txt.strip()[:40]}`"
            n += 1
            ok = (as_name, callee, kind) in FS_ALLOWED
            chk.ob("R23.6", f"{C}.{name}", f"{callee} on the {kind}", ok, c,
                   "a step of the election protocol" if ok else
                   f"`{unparse(c)[:60]}` in {name}(): not one of the "
                   f"protocol's operations (create / rename the private "
                   f"directory, create / remove the own lock file, remove "
                   f"the directory and the pin in run()); what it does to "
                   f"another participant's files or to the election token "
                   f"is outside the argument made for the protocol")
    chk.floor("R23.6", "file-system operations of ParallelEtherCat", n, 8)


OS_SUBCLASSES = {"FileNotFoundError", "FileExistsError", "BlockingIOError",
                 "PermissionError", "InterruptedError", "TimeoutError",
                 "IsADirectoryError", "NotADirectoryError",
                 "ProcessLookupError", "ChildProcessError",
                 "ConnectionError", "BrokenPipeError"}


def errno_classes(chk, repo):
    """R23.5: the joiner of a running master waits for the installer's
    program table with `except FileNotFoundError` around obj_get().  Python
    picks the errno-specific subclass only when OSError itself is
    instantiated: the syscall wrapper has to raise OSError(errno, ...), a
    subclass of its own would fall through every such handler"""
    chk.doc("R23.5", "bpf() failures arrive as errno-specific OSErrors")
    bm = repo.module("ebpfcat.bpf")
    prims = {st.name for st in bm.tree.body if isinstance(st, FUNC)}
    users = []
    for m in repo.production_modules():
        for t in [x for x in ast.walk(m.tree) if isinstance(x, ast.Try)]:
            hs = [h for h in t.handlers if h.type is not None and any(
                (dotted(x) or "").split(".")[-1] in OS_SUBCLASSES
                for x in ([h.type] if not isinstance(h.type, ast.Tuple)
                          else h.type.elts))]
            if not hs:
                continue
            called = {(dotted(c.func) or "").split(".")[-1]
                      for b in t.body for c in ast.walk(b)
                      if isinstance(c, ast.Call)}
            if called & prims:
                users.append((t, hs[0], sorted(called & prims)))
    chk.floor("R23.5", "errno-specific handlers around bpf primitives",
              len(users), 1)
    f = repo.func("ebpfcat.bpf.bpf")
    chk.analysed("ebpfcat.bpf.bpf")
    raises = [r for r in walk_no_nested(f) if isinstance(r, ast.Raise)
              and r.exc is not None]
    need(raises, "ebpfcat.bpf.bpf: no raise found")
    bad = [r for r in raises if not (isinstance(r.exc, ast.Call) and dotted(
        r.exc.func) == "OSError" and len(r.exc.args) >= 2 and find(
            "get_errno()", r.exc.args[0]))]
    chk.ob("R23.5", "ebpfcat.bpf.bpf", "a failing bpf() raises OSError(errno,"
           " ...) itself", not bad, bad[0] if bad else f,
           (f"raises `{unparse(bad[0].exc)[:50]}`: "
            f"`except {unparse(users[0][1].type)}` around "
            f"{users[0][2]} in {repo.where(users[0][0])} no longer sees the "
            f"missing object; the joiner of a starting master fails instead "
            f"of waiting for the program table") if bad else
           f"{len(users)} handler(s) rely on the errno-specific subclass")


def election(chk, repo):
    sym = C + ".get_ethertype"
    f = repo.func(sym)
    chk.analysed(sym)
    opens = [c for c in calls_in(f) if dotted(c.func) == "open"]
    ok = len(opens) == 1 and len(opens[0].args) >= 2 and str_const(
        opens[0].args[1]) == "x"
    chk.ob("R23.1", sym, "the ethertype lock file is created exclusively",
           ok, opens[0] if opens else f,
           f"open mode {unparse(opens[0].args[1]) if opens and len(opens[0].args) > 1 else '?'}"
           f": a test-then-create lets two participants take the same "
           f"ethertype and receive each other's frames")
    hs = [h for t in walk_no_nested(f) if isinstance(t, ast.Try)
          for h in t.handlers if h.type is not None and unparse(h.type)
          == "FileExistsError"]
    ok = len(hs) == 1 and bool(find(
        "self.ethertype = randrange($a, $b)", hs[0], mode="stmt"))
    chk.ob("R23.1", sym, "a collision re-draws the ethertype", ok,
           hs[0] if hs else f, "except FileExistsError: new random "
           "ethertype, try again")
    # somebody else's lock file is never touched: on a collision the only
    # reaction is another ethertype
    fs = [c for h in hs for c in calls_in(h) if (dotted(c.func) or "") in (
        "os.remove", "os.unlink", "os.rename", "os.replace", "shutil.rmtree",
        "os.rmdir", "os.truncate")]
    for h in hs:
        for c in calls_in(h):
            q = resolve_callee(repo, c)
            if q and repo.has(q) and isinstance(repo.get(q), FUNC):
                fs += [x for x in calls_in(repo.get(q)) if (
                    dotted(x.func) or "") in ("os.remove", "os.unlink",
                                              "os.rename", "os.replace")]
    chk.ob("R23.1", sym, "a lock file that exists is left alone", not fs,
           fs[0] if fs else (hs[0] if hs else f),
           f"`{unparse(fs[0])[:50]}` in the collision handler: whether the "
           f"file is stale is decided before the removal and nothing ties "
           f"the two together, so a file that another starter has just "
           f"re-created for itself is removed and two participants end up "
           f"with one ethertype" if fs else "collision -> new ethertype")
    ex = find("os.path.exists($p)", f) + find("os.path.isfile($p)", f)
    chk.ob("R23.1", sym, "no existence test stands in for the exclusive "
           "open", not ex, ex[0][0] if ex else f, "check-then-act")
    sym = C + ".run"
    f = repo.func(sym)
    chk.analysed(sym)
    cfg = CFG(f, raises="call")
    mk = [n for n in cfg.nodes if n.kind == "stmt" and match_stmt(
        "tmpdir = tempfile.mkdtemp(dir='/run/lock')", n.stmt) is not None]
    need(len(mk) == 1, f"{sym}: private directory not found")
    tmpdir = mk[0].stmt.targets[0].id
    ren = [n for n in cfg.nodes if n.expr is not None and find(
        f"os.rename(@{tmpdir}, $target)", n.expr)]
    need(len(ren) == 1, f"{sym}: election not found")
    lockdir = unparse(find(f"os.rename(@{tmpdir}, $target)",
                           ren[0].expr)[0][1]["target"])
    tok = [n for n in cfg.nodes if n.expr is not None and find(
        f"self.get_ethertype(@{tmpdir})", n.expr)]
    ok = len(tok) == 1 and cfg.dominates(mk[0], tok[0]) and cfg.dominates(
        tok[0], ren[0]) and tok[0] is not ren[0]
    chk.ob("R23.1", sym, "the directory renamed onto the well-known name "
           "already holds the participant's lock file", ok, ren[0].stmt,
           "rename silently replaces an empty directory: with an empty "
           "token two starters both win the election and both install a "
           "dispatcher")
    tr = ren[0].stmt._parent
    need(isinstance(tr, ast.Try) and tr.orelse and tr.handlers,
         f"{sym}: election try/except/else shape")
    h = tr.handlers[0]
    ok = unparse(h.type) == "OSError" and bool(find(
        f"shutil.rmtree(@{tmpdir})", h))
    chk.ob("R23.1", sym, "the loser removes its private directory and takes "
           "a lock file in the winner's", ok and bool(find(
               f"self.get_ethertype(@{lockdir})", h)), h,
           "rmtree(tmpdir); get_ethertype(lockdir)")
    win = tr.orelse
    ok = bool(find("create_map(MapType.PROG_ARRAY, 4, 4, self.MAX_PROGS)",
                   win)) and bool(find("self.ebpf.attach(self.addr[0])",
                                       win)) and bool(find(
        "obj_pin(programs, self.programs)", win))
    lose = h.body
    ok = ok and not find("create_map($*a)", lose) and not find(
        "$x.attach($*a)", lose) and bool(find("obj_get(programs)", lose))
    chk.ob("R23.1", sym, "only the election winner creates, attaches and "
           "pins; the loser opens the pinned table", ok, tr,
           "winner: else branch of the rename; loser: its OSError handler")
    # R23.4
    for nm, blk, want in (("loser", lose, "os.remove(f'{lockdir}/"
                           "{lockfile}')"),
                          ("winner", win, "shutil.rmtree(lockdir)")):
        ts = [t for s in blk for t in ast.walk(s) if isinstance(t, ast.Try)]
        ok = False
        for t in ts:
            for hh in t.handlers:
                if hh.type is not None and unparse(hh.type) == "Exception" \
                        and find(want, hh) and any(
                            isinstance(x, ast.Raise) and x.exc is None
                            for x in hh.body):
                    ok = True
        chk.ob("R23.4", sym, f"start-up failure of the {nm} removes what it "
               f"created", ok, tr, f"except Exception: {want}; raise")
    ys = [y for y in walk_no_nested(f) if isinstance(y, ast.Yield)]
    need(len(ys) == 1, f"{sym}: expected one yield")
    lf = [n for n in cfg.nodes if n.kind == "stmt" and isinstance(
        n.stmt, ast.Assign) and unparse(n.stmt.targets[0]) in (
            "self.mbx_lock_file", "self.fmmu_lock_file")]
    yn = cfg.nodes_containing(ys[0])
    ok = len(lf) == 2 and all(cfg.dominates(x, yn[0]) for x in lf)
    chk.ob("R23.1", sym, "the shared mailbox and FMMU lock files are opened "
           "before the caller runs", ok, f, "LockFile / FMMULock")


def _lock_wrapper(repo, func, expr, fdname):
    """is `expr` a call self.<m>(...) of a @contextmanager method that takes
    LOCK_EX on fd before its yield and LOCK_UN after it (Min et al.: a
    wrapper counts as the operation)"""
    if repo is not None and isinstance(expr, ast.Call) and isinstance(
            expr.func, ast.Name) and len(expr.args) == 1 and unparse(
                expr.args[0]) == fdname:
        # a context-manager class instantiated on the descriptor:
        # __enter__ takes LOCK_EX on the fd it was given, __exit__ LOCK_UN
        mod = getattr(func, "_module", None)
        ci_ = repo.classes.get(f"{mod.name}.{expr.func.id}") \
            if mod is not None else None
        if ci_ is not None and "__enter__" in ci_.methods and \
                "__exit__" in ci_.methods and "__init__" in ci_.methods:
            p0 = param_names(ci_.methods["__init__"])[1:2]
            st_ = [unparse(t) for s_ in walk_no_nested(
                ci_.methods["__init__"]) if isinstance(s_, ast.Assign)
                and isinstance(s_.value, ast.Name) and p0
                and s_.value.id == p0[0] for t in s_.targets
                if is_self_attr(t)]
            if len(st_) == 1:
                ex_ = [c for c, b in find("fcntl.lockf($fd, $flags, $*r)",
                                          ci_.methods["__enter__"])
                       if unparse(b["fd"]) == st_[0]
                       and "LOCK_EX" in unparse(b["flags"])]
                un_ = [c for c, b in find("fcntl.lockf($fd, $flags, $*r)",
                                          ci_.methods["__exit__"])
                       if unparse(b["fd"]) == st_[0]
                       and "LOCK_UN" in unparse(b["flags"])]
                if ex_ and un_:
                    return True
        return False
    if repo is None or not (isinstance(expr, ast.Call) and isinstance(
            expr.func, ast.Attribute) and isinstance(
                expr.func.value, ast.Name) and expr.func.value.id == "self"):
        return False
    ci = repo.enclosing_class(func)
    if ci is None:
        return False
    owner, m = repo.lookup(ci, expr.func.attr)
    if m is None or not isinstance(m, FUNC) or not any(
            "contextmanager" in unparse(d) for d in m.decorator_list):
        return False
    ys = [y for y in walk_no_nested(m) if isinstance(y, ast.Yield)]
    if len(ys) != 1:
        return False
    ex = [c for c, b in find("fcntl.lockf($fd, $flags, $*r)", m)
          if unparse(b["fd"]) == fdname and "LOCK_EX" in unparse(b["flags"])]
    un = [c for c, b in find("fcntl.lockf($fd, $flags, $*r)", m)
          if unparse(b["fd"]) == fdname and "LOCK_UN" in unparse(b["flags"])]
    return bool(ex) and bool(un) and all(
        c.lineno < ys[0].lineno for c in ex) and all(
        c.lineno > ys[0].lineno for c in un)


def lock_state(cfg, fdname, repo=None, func=None):
    """for every node: is a LOCK_EX of fd held on every path to it?
    forward must-analysis"""
    def kind(n):
        if n.expr is None:
            return None
        if n.kind == "with_enter" and _lock_wrapper(repo, func, n.expr,
                                                    fdname):
            return "ex"
        if n.kind == "with_exit" and _lock_wrapper(repo, func, n.expr,
                                                   fdname):
            return "un"
        if n.kind in ("with_enter", "with_exit"):
            return None
        for c, b in find("fcntl.lockf($fd, $flags, $*r)", n.expr):
            if unparse(b["fd"]) != fdname:
                continue
            fl = unparse(b["flags"])
            if "LOCK_UN" in fl:
                return "un"
            if "LOCK_EX" in fl:
                return "ex"
        return None
    held = {n.id: None for n in cfg.nodes}
    held[cfg.entry.id] = False
    work = [cfg.entry]
    while work:
        n = work.pop()
        h = held[n.id]
        k = kind(n)
        out = True if k == "ex" else (False if k == "un" else h)
        for m, lab in n.succ:
            o = h if (lab == "exc" and k == "ex") else out
            new = o if held[m.id] is None else (held[m.id] and o)
            if new != held[m.id]:
                held[m.id] = new
                work.append(m)
    return held


def bitmap(chk, repo):
    for meth in ("__init__", "remove"):
        sym = F + "." + meth
        f = repo.func(sym)
        chk.analysed(sym)
        cfg = CFG(f, raises="call")
        held = lock_state(cfg, "self.fd", repo, f)
        writes = [n for n in cfg.nodes if n.expr is not None and (
            find("os.write(self.fd, $*a)", n.expr) or find(
                "os.pwrite(self.fd, $*a)", n.expr) or find(
                    "os.ftruncate(self.fd, $*a)", n.expr))]
        chk.floor("R23.2", f"writes to the shared file in {meth}",
                  len(writes), 1)
        if meth == "__init__":
            # the free test and the claim are one critical section
            def in_loop(st):
                return isinstance(st, ast.While) or any(
                    isinstance(p_, ast.While) for p_ in parents(st))
            tests = [n for n in cfg.nodes if n.kind == "test" and in_loop(
                n.stmt) and any(isinstance(x, ast.BinOp)
                                and isinstance(x.op, ast.BitAnd)
                                for x in ast.walk(n.expr))]
            need(len(tests) == 1, f"{sym}: the search for a free window "
                                  f"was not found")
            tn = tests[0]
            claims = [n for n in writes if "pwrite" in unparse(n.expr)
                      and tn in cfg.coreachable(n)]
            need(claims, f"{sym}: the write that marks the window was not "
                         f"found")
            cl = claims[-1]
            unl = [m_ for m_ in cfg.between(tn, cl) if m_.expr is not None
                   and (find("fcntl.lockf(self.fd, fcntl.LOCK_UN, $*r)",
                             m_.expr) or (m_.kind == "with_exit" and
                                          _lock_wrapper(repo, f, m_.expr,
                                                        "self.fd")))]
            ok = bool(held[tn.id]) and bool(held[cl.id]) and not unl
            chk.ob("R23.2", sym, "the window is tested free and marked "
                   "under one hold of the lock", ok, tn.stmt,
                   "the bitmap the search looks at was read under a lock "
                   "that is no longer held when the bit is set: two "
                   "joiners that draw the same window both find it free "
                   "and both mark it" if not ok else
                   "search loop and pwrite lie between one LOCK_EX and its "
                   "LOCK_UN")
        percall = {}
        for k, n in enumerate(writes):
            # the instance is named by what is called, not by the argument
            # text (a magic number may get a name one day)
            c0 = [c for c in ast.walk(n.expr) if isinstance(c, ast.Call)
                  and (dotted(c.func) or "").startswith("os.")]
            fn = dotted(c0[0].func) if c0 else "write"
            percall[fn] = percall.get(fn, 0) + 1
            txt = f"{fn} #{percall[fn]}"
            facts = [unparse(e) for e, t in path_facts(n.stmt)]
            branch = "creator" if any(
                isinstance(p, ast.Try) and n.stmt in p.orelse
                for p in parents(n.stmt)) else "opener" \
                if meth == "__init__" else "remove"
            chk.ob("R23.2", sym, f"{branch}: {txt} under the exclusive "
                   f"lock", bool(held[n.id]), n.stmt,
                   "the write holds no lock: a participant that has opened "
                   "the freshly created file and allocated its window in "
                   "the meantime is overwritten, and the same window is "
                   "handed out twice" if not held[n.id] else
                   "between lockf(LOCK_EX) and lockf(LOCK_UN)")
        reads = [n for n in cfg.nodes if n.expr is not None and find(
            "os.pread(self.fd, $*a)", n.expr)]
        for n in reads:
            chk.ob("R23.2", sym, "the bitmap is read under the lock",
                   bool(held[n.id]), n.stmt, "read-modify-write is one "
                   "critical section")
        uns = [n for n in cfg.nodes if n.expr is not None and find(
            "fcntl.lockf(self.fd, fcntl.LOCK_UN)", n.expr)]
        exs = [n for n in cfg.nodes if n.expr is not None and find(
            "fcntl.lockf(self.fd, fcntl.LOCK_EX)", n.expr)]
        wrapped = any(n.kind == "with_enter" and _lock_wrapper(
            repo, f, n.expr, "self.fd") for n in cfg.nodes)
        ok = (bool(exs) or wrapped) and all(cfg.must_pass(
            e, lambda m: m in uns, first_edge="next") for e in exs)
        chk.ob("R23.2", sym, "the lock is released on every path", ok, f,
               "unlock in a finally")
    # the creator's initial bitmap marks its own window
    f = repo.func(F + ".__init__")
    ev = Evaluator(repo, f._module)
    tr = [t for t in walk_no_nested(f) if isinstance(t, ast.Try)
          and t.orelse]
    need(len(tr) >= 1, f"{F}.__init__: creator branch not found")
    cr = tr[0].orelse
    w = find("os.write(self.fd, $b)", cr)
    ba = [s for s in cr if isinstance(s, ast.Assign) and unparse(
        s.targets[0]) == "self.base_addr"]
    ok = len(w) == 1 and len(ba) == 1
    why = "creator branch shape"
    if ok:
        try:
            bm = ev.eval(w[0][1]["b"])
            base = ev.eval(ba[0].value)
            win = base >> 22
            setbits = [i for i in range(len(bm) * 8)
                       if bm[i // 8] & (1 << (i % 8))]
            ok = len(bm) == 64 and setbits == [win] and base == win << 22
            why = (f"bitmap marks windows {setbits}, the creator uses "
                   f"window {win} (base {base:#x})")
        except (Unknown, Raised, TypeError) as e:
            ok, why = False, str(e)
    chk.ob("R23.2", F + ".__init__", "the creator marks exactly the window "
           "it takes", ok, w[0][0] if w else f, why + ": an unmarked window "
           "is handed to a later participant as well")
    # the joiner's side and remove(), by abstract execution with stand-ins
    # for os / fcntl / randrange: which bit is tested, marked, cleared,
    # which window base results, and that all of it happens between
    # LOCK_EX and LOCK_UN
    fc = repo.cls(F)
    init, rm = fc.methods["__init__"], fc.methods["remove"]

    def world(bitmap, draws):
        log = []
        file_ = bytearray(bitmap)

        def os_open(path, flags, *a):
            log.append(("open", flags))
            if not any(e[0] == "opened" for e in log):
                log.append(("opened",))
                raise Raised("FileExistsError: exists")
            return 5

        def pread(fd, n, off):
            log.append(("pread", n, off))
            return bytes(file_[off:off + n])

        def pwrite(fd, data, off):
            log.append(("pwrite", bytes(data), off))
            file_[off:off + len(data)] = data
            return len(data)
        def open_(path, mode="r", *a, **k):
            # a second descriptor of a file: POSIX record locks belong to
            # the process and the file, closing any descriptor of the
            # file drops them
            log.append(("fopen", path, mode))

            def close_():
                log.append(("fclose", path))
            fo = Obj(None, {
                "read": ("hook", lambda *a_: bytes(file_[:a_[0]] if a_
                                                   else file_)),
                "close": ("hook", close_)})
            fo.fields["__enter__"] = ("hook", lambda _f=fo: _f)
            fo.fields["__exit__"] = ("hook", lambda *a_: close_())
            return fo
        seq = list(draws)
        os_ = Obj(None, {
            "open": ("hook", os_open), "pread": ("hook", pread),
            "pwrite": ("hook", pwrite),
            "ftruncate": ("hook", lambda fd, n: log.append(("trunc", n))),
            "write": ("hook", lambda fd, d: log.append(("write", bytes(d)))),
            "close": ("hook", lambda fd: log.append(("close",))),
            "remove": ("hook", lambda p_: log.append(("unlink", p_))),
            "unlink": ("hook", lambda p_: log.append(("unlink", p_))),
            "makedirs": ("hook", lambda *a, **k: None),
            "O_CREAT": 64, "O_RDWR": 2, "O_EXCL": 128, "O_CLOEXEC": 524288})
        fcntl_ = Obj(None, {
            "lockf": ("hook", lambda fd, fl, *a: log.append(("lockf", fl))),
            "LOCK_EX": 2, "LOCK_UN": 8, "LOCK_NB": 4})
        funcs = {"os": os_, "fcntl": fcntl_, "open": ("hook", open_),
                 "randrange": ("hook", lambda *a: seq.pop(0))}
        return log, file_, funcs
    bad = []
    # the ways the package itself opens the map: every further argument a
    # call site passes is tried with a true value as well (a flag that
    # lets one participant start from a clean map, say)
    extra = [{}]
    pn = param_names(init)
    for m_ in repo.production_modules():
        for c_ in ast.walk(m_.tree):
            if isinstance(c_, ast.Call) and (dotted(c_.func) or "").split(
                    ".")[-1] == "FMMULock":
                for k_ in c_.keywords:
                    if k_.arg and k_.arg in pn and {k_.arg: True} not in \
                            extra:
                        extra.append({k_.arg: True})
                for i_, a_ in enumerate(c_.args[1:], 2):
                    if i_ < len(pn) and {pn[i_]: True} not in extra:
                        extra.append({pn[i_]: True})
    for taken, draws, kw in [(t_, d_, k_) for k_ in extra for t_, d_ in (
            ((1,), (1, 1, 300)), ((1, 7, 8), (8, 7, 9)),
            ((1,), (511,)), ((1, 2, 3), (3, 2, 1, 64)))]:
        bm = bytearray(64)
        for t_ in taken:
            bm[t_ // 8] |= 1 << (t_ % 8)
        log, file_, funcs = world(bm, draws)
        me = Obj(fc, {})
        try:
            Evaluator(repo, fc.module, fc, funcs=funcs).call_function(
                init, [me, "/run/x/y.fmmu"], dict(kw), cls=fc)
        except (Unknown, Raised) as e:
            raise AnalysisError(f"{F}.__init__: cannot be evaluated: {e}")
        if kw:
            taken = tuple(taken) + (f"opened with {kw}",)
        won = [d for d in draws if d not in taken][0]
        want = bytearray(bm)
        want[won // 8] |= 1 << (won % 8)
        if bytes(file_) != bytes(want) or me.fields.get("base_addr") != \
                won << 22:
            setbits = [i for i in range(512) if file_[i // 8] >> (i % 8) & 1]
            bad.append(f"windows {taken} taken, draws {draws}: map marks "
                       f"{setbits}, base_addr "
                       f"{me.fields.get('base_addr')!r}")
        held_ = False
        for e in log:
            if e[0] == "lockf":
                held_ = e[1] == 2
            if e[0] == "fclose" and held_ and e[1] == "/run/x/y.fmmu":
                bad.append(f"windows {taken}: a second descriptor of the "
                           f"map file is closed while the lock is held - "
                           f"that drops the process's record lock on the "
                           f"file, the rest of the read-modify-write runs "
                           f"unprotected")
                break
        io = [e for e in log if e[0] in ("pread", "pwrite", "trunc", "lockf")]
        ex = [i for i, e in enumerate(io) if e == ("lockf", 2)]
        un = [i for i, e in enumerate(io) if e == ("lockf", 8)]
        if not ex or not un or any(not ex[0] < i < un[-1] for i, e in
                                   enumerate(io) if e[0] != "lockf"):
            bad.append(f"windows {taken}: bitmap accessed outside "
                       f"LOCK_EX..LOCK_UN ({[e[0] for e in io]})")
    chk.ob("R23.2", F + ".__init__", "an opener draws until it finds an "
           "unmarked window, marks it and uses it, under the lock",
           not bad, init, "; ".join(bad[:2]) or "4 bitmaps / draw "
           "sequences evaluated: exactly the first free draw is marked, "
           "base = window << 22")
    bad = []
    for mine, others in ((5, (1, 4, 6)), (9, (8, 10, 1)), (511, (1,)),
                         (64, (65, 1))):
        bm = bytearray(64)
        for t_ in (mine,) + others:
            bm[t_ // 8] |= 1 << (t_ % 8)
        log, file_, funcs = world(bm, ())
        log.append(("opened",))
        me = Obj(fc, {"fd": 5, "base_addr": mine << 22,
                      "filename": "/run/x/y.fmmu"})
        try:
            Evaluator(repo, fc.module, fc, funcs=funcs).call_function(
                rm, [me], cls=fc)
        except (Unknown, Raised) as e:
            raise AnalysisError(f"{F}.remove: cannot be evaluated: {e}")
        want = bytearray(bm)
        want[mine // 8] &= ~(1 << (mine % 8)) & 0xff
        if bytes(file_) != bytes(want):
            setbits = [i for i in range(512) if file_[i // 8] >> (i % 8) & 1]
            bad.append(f"window {mine} of {sorted((mine,) + others)} "
                       f"removed: map marks {setbits}")
        if any(e[0] == "unlink" for e in log):
            bad.append(f"window {mine} removed: the shared bitmap file is "
                       f"deleted while the windows {sorted(others)} are "
                       f"marked in it")
    chk.ob("R23.2", F + ".remove", "remove clears the participant's own "
           "bit", not bad, rm, "; ".join(bad[:2]) or "4 bitmaps evaluated: "
           "only bit base_addr >> 22 changes")


def teardown(chk, repo):
    sym = C + ".run"
    f = repo.func(sym)
    cfg = CFG(f, raises="call")
    rmd = [n for n in cfg.nodes if n.expr is not None and find(
        "os.rmdir(lockdir)", n.expr)]
    det = [n for n in cfg.nodes if n.expr is not None and find(
        "self.ebpf.detach($*a)", n.expr)]
    need(rmd and det, f"{sym}: rmdir / detach not found")
    after = [d for d in det if any(
        d in cfg.reach_edges(r, lambda a, b, lab: not (a is r and lab ==
                                                      "exc"))
        and cfg.dominates(r, d) for r in rmd)]
    ok = not after
    chk.ob("R23.3", sym, "the dispatcher is detached before the election "
           "token is released", ok, det[0].expr,
           "detach (and unpin) run only after os.rmdir(lockdir) succeeded: "
           "once the directory is gone a newcomer wins the election and "
           "installs its dispatcher, which the leaver then detaches"
           if not ok else "detach precedes rmdir")
    ys = [y for y in walk_no_nested(f) if isinstance(y, ast.Yield)]
    fin = None
    child = ys[0]
    for p in parents(ys[0]):
        if isinstance(p, ast.Try) and p.finalbody:
            fin = p
            break
    ok = fin is not None and bool(find("os.remove(f'{lockdir}/{lockfile}')",
                                       fin.finalbody)) and bool(find(
        "v.cancel()", fin.finalbody))
    chk.ob("R23.4", sym, "leaving cancels the groups and removes the own "
           "lock file", ok, fin or f, "in the finally around the yield")
    if fin is not None:
        l1 = [c.lineno for c, b in find("v.cancel()", fin.finalbody)]
        l2 = [c.lineno for c, b in find(
            "os.remove(f'{lockdir}/{lockfile}')", fin.finalbody)]
        chk.ob("R23.4", sym, "groups are cancelled before the lock file "
               "goes", bool(l1 and l2 and l1[0] < l2[0]), fin,
               "cancel, then remove")
    ok = bool(find("self.mbx_lock_file.remove()", f)) and bool(find(
        "self.fmmu_lock_file.remove()", f)) and bool(find(
        "os.remove(programs)", f))
    chk.ob("R23.4", sym, "the last leaver removes the pinned table and the "
           "shared lock files", ok, f, "in the else of the rmdir")
    shared_files(chk, repo, "R23.4")


def shared_files(chk, repo, rule):
    """the shared mailbox-counter and FMMU lock files outlive every
    participant but the last: their removal is reachable only through the
    success edge of os.rmdir(lockdir) (also used by C15)"""
    sym = C + ".run"
    f = repo.func(sym)
    cfg = CFG(f, raises="call")
    rmd = [n for n in cfg.nodes if n.expr is not None and find(
        "os.rmdir(lockdir)", n.expr)]
    need(rmd, f"{sym}: os.rmdir(lockdir) not found")
    rids = {n.id for n in rmd}   # the finally block is laid out per exit
    rem = [n for n in cfg.nodes if n.expr is not None and (
        find("self.mbx_lock_file.remove()", n.expr) or find(
            "self.fmmu_lock_file.remove()", n.expr))]
    need(rem, f"{sym}: removal of the shared lock files not found")
    # reachable from the entry without taking rmdir's success edge?
    free = cfg.reach_edges(cfg.entry, lambda a, b, lab: not (
        a.id in rids and lab != "exc"))
    by_stmt = {}
    for n in rem:
        by_stmt.setdefault(id(n.stmt), []).append(n)
    for group in by_stmt.values():
        n = group[0]
        ok = not any(x in free for x in group)
        chk.ob(rule, sym, f"`{unparse(n.expr)[:40]}` runs only when this "
               f"participant was the last one", ok, n.expr,
               "reachable without os.rmdir(lockdir) having succeeded: a "
               "participant that leaves while others stay unlinks the file "
               "they keep using; the next newcomer creates a fresh one, "
               "with counters at zero and an empty FMMU map" if not ok else
               "in the else branch of the rmdir attempt")

# added rules (appended to the explanation the evidence file carries)
EXPLANATION += (" " + "Added during the build (DESIGN.md 4.31, second table): (R23.6) effect rule - every file-system operation of ParallelEtherCat on the lock area is one of the protocol's own (method, operation, target) triples.")
EXPLANATION += (' Added after wave 9: the bitmap runs are repeated with every extra argument a call site passes to FMMULock set true; R23.6 attributes the operations of a helper with one call site to its caller; the who-may and model rules run before the shape rules.')
