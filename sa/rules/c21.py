"""C21 - fast-group frames only write outputs computed in the same pass."""
import ast

from .common import *
from ..dslread import events

EXPLANATION = (
    "Decided: (R21.1) sterile typestate: every frame a FastSyncGroup hands "
    "to roundtrip_packet is a value produced by SterilePacket.sterile - "
    "asm_packet in FastSyncGroup.run, every return of FastSyncGroup."
    "update_devices, and in SyncGroupBase.run the definitions of the frame "
    "that reach a send are the prepared frame or update_devices' result, "
    "never the received frame; (R21.2) activation order, read off the DSL "
    "event list of SterilePacket.activate: first the exit TX guarded by "
    "wkc_errors == 0; then per recorded writer: enable (command byte at "
    "start + Ethernet header), compare (working counter at stop + header - "
    "2 != expected -> wkc_errors += 1, an atomic in-place add), clear (= "
    "0), in that order; (R21.3) FastSyncGroup.program runs activate and "
    "the device programs inside one packetSize guard and ends with exit "
    "TX; wkc_errors is 0 until the terminals were asked OPERATIONAL; "
    "(R21.4) no dropping exit in the dispatcher outside the rate-0 branch; "
    "(R21.5) table bounds agree (counter array, program table, MAX_PROGS) "
    "and guard the indexed access and the tail call; (R21.6) every "
    "datagram with a write command in a SterilePacket is added through "
    "append_writer; (R21.7) stamp parity in the dispatcher, folded over "
    "the parity of the loop counter: a frame handed to a group program is "
    "stamped with an odd counter, a frame sent on unprocessed with an even "
    "one. Declined: the dispatcher's decisions over frame histories (C22).")
ASSUMPTIONS = [
    "the DSL emits in Python evaluation order",
    "XDP exit codes: DROP 1, PASS 2, TX 3",
]

C = "ebpfcat.ebpfcat."
WRITE_CMDS = {"APWR", "FPWR", "BWR", "LWR", "APRW", "FPRW", "BRW", "LRW",
              "ARMW", "FRMW"}


def run(chk, repo):
    chk.doc("R21.8", "per-packet bookkeeping is per packet")
    per_instance_rule(chk, repo, "R21.8", ["ebpfcat.ebpfcat.SterilePacket"], "the writers recorded "
                      "for one group's frame are sterilised and activated "
                      "in every other group's frame as well")
    chk.doc("R21.1", "sterile typestate of frames sent by fast groups")
    chk.doc("R21.2", "activation order")
    chk.doc("R21.3", "program structure and wkc_errors gating")
    chk.doc("R21.4", "no dropping exit in the dispatcher")
    chk.doc("R21.5", "table bounds")
    chk.doc("R21.6", "write datagrams are registered writers")
    chk.doc("R21.7", "stamp parity in the dispatcher")
    typestate(chk, repo)
    template_untouched(chk, repo)
    slot_lookup(chk, repo)
    activation(chk, repo)
    # which datagrams are writers, where their command bytes and working
    # counters are and what count is expected: decided on allocated groups
    from . import c18
    chk.doc("R18.6", "allocation decoded independently (shared with C18)")
    c18.allocation_semantic(chk, repo)
    program(chk, repo)
    dispatcher(chk, repo)
    writers(chk, repo)
    from . import c11
    c11.writers_registered(chk, repo, "R21.6")
    # the dispatcher takes every frame with an index below MAX_PROGS for a
    # cyclic frame of the group in that slot: no other frame of the master
    # carries such an index (shared with C12)
    from . import c12
    chk.doc("R12.4", "index spaces of fast groups, slow groups and "
                     "datagram frames are disjoint (shared with C12)")
    c12.index_spaces(chk, repo)


def template_untouched(chk, repo):
    """the sterile template (asm_packet of a fast group) is sent again and
    again: no other attribute of the group may be bound to the same object
    and then be written in place (a received frame copied into it, say)"""
    chk.doc("R21.1", "the sterile template is never written")
    fg = repo.cls(C + "FastSyncGroup")
    classes = [c for c in repo.mro(fg) if isinstance(c, ClassInfo)]
    aliases, muts = {}, {}
    for c in classes:
        for name, f in c.methods.items():
            if not isinstance(f, FUNC):
                continue
            for st in walk_no_nested(f):
                if isinstance(st, ast.Assign) and match(
                        "self.asm_packet", st.value) is not None:
                    for t in st.targets:
                        if is_self_attr(t) and t.attr != "asm_packet":
                            aliases.setdefault(t.attr, []).append(
                                (c, name, st))
                tgts = st.targets if isinstance(st, ast.Assign) else (
                    [st.target] if isinstance(st, ast.AugAssign) else [])
                for t in tgts:
                    if isinstance(t, ast.Subscript) and is_self_attr(
                            t.value):
                        muts.setdefault(t.value.attr, []).append(
                            (c, name, st))
    direct = muts.get("asm_packet", [])
    bad = [(a, m) for a, sts in aliases.items() for m in muts.get(a, [])]
    chk.ob("R21.1", fg.qualname, "nothing writes into the sterile template, "
           "directly or through another name for it", not direct and not bad,
           (direct[0][2] if direct else bad[0][1][2] if bad else fg.node),
           (f"self.{bad[0][0]} is bound to asm_packet in "
            f"{aliases[bad[0][0]][0][0].qualname}."
            f"{aliases[bad[0][0]][0][1]} and written in place in "
            f"{bad[0][1][0].qualname}.{bad[0][1][1]}: an active frame "
            f"copied there goes out again with its write datagrams enabled "
            f"and stale data") if bad else
           ("asm_packet is written in place" if direct else
            "asm_packet is only ever replaced as a whole"))


def slot_lookup(chk, repo):
    """the program-table slot a fast sync group is put into was found
    free in the table itself (lookup_elem answering ENOENT): the table is
    pinned and shared with other processes, a local list of the own groups
    says nothing about their slots"""
    chk.doc("R21.5", "a slot is taken only when the shared table says it "
                     "is free")
    sym = C + "FastEtherCat.register_sync_group"
    f = repo.func(sym)
    chk.analysed(sym)
    cfg = CFG(f, raises="call")
    ups = [n for n in cfg.nodes if n.expr is not None and find(
        "update_elem(self.programs, $k, $v)", n.expr)]
    lks = [n for n in cfg.nodes if n.expr is not None and find(
        "lookup_elem(self.programs, $k, $*a)", n.expr)]
    need(len(ups) == 1, f"{sym}: the table update was not found")
    ok = False
    why = "no lookup_elem(self.programs, key) before the slot is written"
    if lks:
        ku = unparse(find("update_elem(self.programs, $k, $v)",
                          ups[0].expr)[0][1]["k"])
        kl = {unparse(find("lookup_elem(self.programs, $k, $*a)",
                           n.expr)[0][1]["k"]) for n in lks}
        # the update is reached only through the handler of a failed
        # lookup (the normal return of lookup_elem means: slot taken)
        reach = cfg.reach_edges(cfg.entry, lambda a, b, lab: not (
            a in lks and lab == "exc"))
        ok = kl == {ku} and ups[0] not in reach
        why = ("the update is reachable without a failed lookup of "
               f"`{ku}`" if not ok else
               f"update of `{ku}` only after lookup_elem raised for it")
    chk.ob("R21.5", sym, "the slot written was looked up in the shared "
           "program table and found empty", ok, ups[0].stmt, why + (
               "" if ok else ": a slot another process's group occupies is "
               "overwritten, and its frames are processed by this group's "
               "program"))


def typestate(chk, repo):
    fr = repo.func(C + "FastSyncGroup.run")
    chk.analysed(C + "FastSyncGroup.run")
    v = assigned_values(fr, "self.asm_packet")
    ok = len(v) == 1 and match("self.packet.sterile(self.packet_index, "
                               "self.ec.ethertype)", v[0][1]) is not None
    chk.ob("R21.1", C + "FastSyncGroup.run", "asm_packet is the sterile "
           "frame", ok, fr, "packet.sterile(index, ethertype)")
    sends = find("self.ec.roundtrip_packet($f, $i)", fr)
    for c, b in sends:
        chk.ob("R21.1", C + "FastSyncGroup.run", f"`{unparse(c)[:50]}` sends "
               f"the sterile frame", unparse(b["f"]) == "self.asm_packet", c,
               "priming frames")
    ud = repo.func(C + "FastSyncGroup.update_devices")
    rets = [r for r in walk_no_nested(ud) if isinstance(r, ast.Return)]
    chk.floor("R21.1", "returns of FastSyncGroup.update_devices", len(rets), 2)
    for i, r in enumerate(rets):
        chk.ob("R21.1", C + "FastSyncGroup.update_devices", f"return #{i} "
               f"hands back the sterile frame", r.value is not None and
               unparse(r.value) == "self.asm_packet", r,
               "the received frame may carry enabled write commands; it is "
               "never sent again")
    br = repo.func(C + "SyncGroupBase.run")
    chk.analysed(C + "SyncGroupBase.run")
    cfg = CFG(br, raises="await")
    rd = ReachingDefs(cfg)
    n = 0
    for node in cfg.nodes:
        if node.expr is None:
            continue
        for c, b in find("self.ec.roundtrip_packet($f, self.packet_index)",
                         node.expr):
            n += 1
            f = b["f"]
            ok = isinstance(f, ast.Name)
            srcs = []
            if ok:
                for d in rd.reaching(node, f.id):
                    v = d.value if isinstance(d.value, ast.AST) else None
                    txt = unparse(v) if v is not None else d.kind
                    srcs.append(txt)
                    if not (v is not None and (
                            txt == "self.asm_packet" or match(
                                "self.update_devices($x)", v) is not None)):
                        ok = False
            chk.ob("R21.1", C + "SyncGroupBase.run", f"send #{n} transmits "
                   f"the prepared frame or update_devices' result", ok, c,
                   f"definitions of `{unparse(f)}` reaching the send: "
                   f"{sorted(set(srcs))}")
    chk.floor("R21.1", "sends in SyncGroupBase.run", n, 3)


def activation_exec(chk, repo):
    """SterilePacket.activate by abstract execution on recording stand-ins
    for the program's packet arrays, its error counter and its exit: the
    sequence of DSL operations for packets with 0, 1 and 3 recorded writers
    is: leave with TX while wkc_errors == 0; then per writer, in order:
    enable (its command at its command byte), compare (working counter !=
    expected: wkc_errors += 1), clear (working counter = 0).  Returns False
    when the method cannot be executed."""
    sym = C + "SterilePacket.activate"
    f = repo.func(sym)
    spc = repo.cls(C + "SterilePacket")
    pk = repo.cls("ebpfcat.ethercat.Packet")
    ev0 = Evaluator(repo, spc.module, spc)
    try:
        EH = ev0.class_attr(pk, "ETHERNET_HEADER")
    except Unknown:
        return False
    cmds = ev0.enum_members(repo.cls("ebpfcat.ethercat.ECCmd"))
    bad = []
    for writers in ([], [(16, 31, "FPWR", 1)],
                    [(16, 31, "FPWR", 1), (43, 60, "LWR", 3),
                     (60, 73, "FPWR", 2)]):
        log = []

        def ctx(label, _l=log):
            return Obj(None, {
                "__enter__": ("hook", lambda: _l.append(("if", label))),
                "__exit__": ("hook", lambda *a: _l.append(("end", label)))})
        W = Obj(None, {})
        W.fields["__eq__"] = ("hook", lambda v: ctx(("wkc_errors ==", v)))
        W.fields["__iadd__"] = ("hook", lambda v, _l=log, _w=W: (
            _l.append(("wkc_errors +=", v)), _w)[1])
        group = Obj(None, {"wkc_errors": W, "exit": ("hook", lambda c=None,
                                                      _l=log: _l.append(
                                                          ("exit", c)))})
        pB = Obj(None, {"__setitem__": ("hook", lambda i, v, _l=log:
                                        _l.append(("pB =", i, v)))})

        def ph_get(i):
            return Obj(None, {"__ne__": ("hook", lambda v, _i=i: ctx(
                ("pH !=", _i, v)))})
        pH = Obj(None, {"__getitem__": ("hook", ph_get),
                        "__setitem__": ("hook", lambda i, v, _l=log:
                                        _l.append(("pH =", i, v)))})
        prog = Obj(None, {"ebpf": group, "pB": pB, "pH": pH})
        me = Obj(spc, {"on_the_fly": [(a, b, cmds[c]) for a, b, c, _
                                      in writers],
                       "counters": {b - 2: n for _, b, _, n in writers}})
        try:
            Evaluator(repo, f._module, spc).call_function(f, [me, prog],
                                                          cls=spc)
        except (Unknown, Raised):
            return False
        tx = [m for n_, m in ev0.enum_members(repo.cls(
            "ebpfcat.xdp.XDPExitCode")).items() if n_ == "TX"][0]
        want = [("if", ("wkc_errors ==", 0)), ("exit", tx),
                ("end", ("wkc_errors ==", 0))]
        for a, b, c, n in writers:
            want += [("pB =", a + EH, cmds[c].value),
                     ("if", ("pH !=", b + EH - 2, n)),
                     ("wkc_errors +=", 1),
                     ("end", ("pH !=", b + EH - 2, n)),
                     ("pH =", b + EH - 2, 0)]
        if log != want:
            k = next((i for i, (x, y) in enumerate(zip(log, want))
                      if x != y), min(len(log), len(want)))
            bad.append(f"{len(writers)} writers: operation {k} is "
                       f"{log[k] if k < len(log) else 'missing'}, expected "
                       f"{want[k] if k < len(want) else 'nothing more'}")
    chk.ob("R21.2", sym, "activation: TX while no counter ever matched, "
           "then per writer enable / compare-and-count / clear, in that "
           "order, at the recorded positions (3 packets by abstract "
           "execution on recording stand-ins)", not bad, f,
           "; ".join(bad[:2]) or "operations and their order as specified")
    return True


def activation(chk, repo):
    done = activation_exec(chk, repo)
    try:
        activation_events(chk, repo)
    except AnalysisError as e:
        if not done:
            raise
        chk.ob("R21.2", C + "SterilePacket.activate", "the activation is not "
               "written as the one loop the event rules know; decided by "
               "the recorded operations", True,
               repo.func(C + "SterilePacket.activate"), str(e))


def activation_events(chk, repo):
    sym = C + "SterilePacket.activate"
    f = repo.func(sym)
    chk.analysed(sym)
    ev = events(f)
    need(ev, f"{sym}: no DSL events")
    e0 = ev[0]
    ok = e0.kind == "exit" and unparse(e0.code) == "XDPExitCode.TX" and \
        e0.guard_text() == ["ebpf.ebpf.wkc_errors == 0"] and not e0.loops
    chk.ob("R21.2", sym, "first event: exit TX while wkc_errors == 0", ok,
           e0.node, f"first event is {e0!r}: nothing is enabled until the "
           f"group is operational")
    loop_ev = [e for e in ev[1:] if e.loops]
    ok = len(loop_ev) == len(ev) - 1 and all(
        match("self.on_the_fly", e.loops[0].iter) is not None
        for e in loop_ev)
    chk.ob("R21.2", sym, "everything else happens per recorded writer", ok,
           f, "for start, stop, cmd in self.on_the_fly")
    kinds = [(e.kind, len(e.guards)) for e in loop_ev]
    need(len(loop_ev) == 3, f"{sym}: expected enable, compare, clear; found "
                            f"{kinds}")
    en, cmp_, clr = loop_ev
    from ..linear import lin, same_lin, NonLinear, show
    spc = repo.cls(C + "SterilePacket")
    lev = Evaluator(repo, spc.module, spc)
    pk = repo.cls("ebpfcat.ethercat.Packet")
    try:
        EH = lev.class_attr(pk, "ETHERNET_HEADER")
        DT = lev.class_attr(pk, "DATAGRAM_TAIL")
    except Unknown:
        raise AnalysisError("Packet.ETHERNET_HEADER / DATAGRAM_TAIL not "
                            "foldable")

    def at(e, array, want):
        """is e `ebpf.<array>[<index>]` with the index's linear form ==
        want (offsets may be spelt with literals or the class constants)"""
        b = match(f"ebpf.{array}[$i]", e)
        if b is None:
            return False, unparse(e)
        try:
            lf = lin(b["i"], lev, {"self": Obj(spc)})
        except NonLinear:
            return False, unparse(e)
        return same_lin(lf, want), f"{array}[{show(lf)}]"
    ok, got = at(en.target, "pB", {"start": 1, "": EH})
    ok = ok and en.kind == "store" and unparse(en.value) == "cmd.value" \
        and not en.guards
    chk.ob("R21.2", sym, "enable: the writer's own command at its command "
           "byte", ok, en.node, f"{got} = {unparse(en.value)}; expected "
           f"pB[start + ETHERNET_HEADER] = cmd.value")
    ok = cmp_.kind == "iadd" and unparse(cmp_.target) == \
        "ebpf.ebpf.wkc_errors" and int_const(cmp_.value) == 1 and isinstance(
            cmp_.op, ast.Add) and len(cmp_.guards) == 1
    if ok:
        g = cmp_.guards[0][0]
        b = match("$a != self.counters[$k]", g)
        ok = b is not None
        if ok:
            ok1, _ = at(b["a"], "pH", {"stop": 1, "": EH - DT})
            try:
                kf = lin(b["k"], lev, {"self": Obj(spc)})
            except NonLinear:
                kf = None
            ok = ok1 and kf is not None and same_lin(kf, {"stop": 1,
                                                          "": -DT})
    chk.ob("R21.2", sym, "compare: working counter != expected -> "
           "wkc_errors += 1", ok, cmp_.node,
           f"guard `{cmp_.guard_text()}`: any deviation from the expected "
           f"count (too low *or* too high) is an error; += on a 4-byte map "
           f"variable is the atomic add")
    ok, got = at(clr.target, "pH", {"stop": 1, "": EH - DT})
    ok = ok and clr.kind == "store" and int_const(clr.value) == 0 \
        and not clr.guards
    chk.ob("R21.2", sym, "clear: the working counter is zeroed", ok,
           clr.node, f"{got} = {unparse(clr.value)}; expected pH[stop + "
           f"ETHERNET_HEADER - 2] = 0")
    order = [e.node.lineno for e in (en, cmp_, clr)]
    chk.ob("R21.2", sym, "order: enable, compare, clear", order == sorted(
        order), f, "the comparison reads the counter before it is cleared")


def program(chk, repo):
    sym = C + "FastSyncGroup.program"
    f = repo.func(sym)
    chk.analysed(sym)
    ev = events(f)
    act = [e for e in ev if e.kind == "call" and match(
        "self.packet.activate($p)", e.node) is not None]
    devs = [e for e in ev if e.kind == "call" and match(
        "dev.program()", e.node) is not None]
    exits = [e for e in ev if e.kind == "exit"]
    need(len(act) == 1 and len(devs) == 1, f"{sym}: activate / device "
                                           f"programs not found")
    # the guard: packetSize >= packet.size + <the Ethernet header constant,
    # read through whichever name>; the bound is folded
    def whole_frame(gt):
        if len(gt) != 1:
            return False
        try:
            t = ast.parse(gt[0], mode="eval").body
        except SyntaxError:
            return False
        b = match("self.packetSize >= $b", t) or match(
            "$b <= self.packetSize", t)
        if b is None:
            return False
        # the bound, folded for three packet sizes: size + Ethernet header
        spc = repo.cls(C + "SterilePacket")
        fgc = repo.cls(C + "FastSyncGroup")
        try:
            for n_ in (0, 60, 1486):
                me = Obj(fgc, {"packet": Obj(spc, {"size": n_})})
                if Evaluator(repo, f._module, fgc).eval(
                        b["b"], {"self": me}) != n_ + 14:
                    return False
        except (Unknown, Raised):
            return False
        return True
    ok = whole_frame(act[0].guard_text()) and act[0].guard_text() == \
        devs[0].guard_text() and act[0].node.lineno < devs[0].node.lineno
    chk.ob("R21.3", sym, "activate, then the device programs, inside one "
           "packetSize guard covering the whole frame", ok, f,
           f"guards {act[0].guard_text()} / {devs[0].guard_text()}")
    ok = bool(exits) and exits[-1] is ev[-1] and not exits[-1].guards and \
        unparse(exits[-1].code) == "XDPExitCode.TX"
    chk.ob("R21.3", sym, "ends with an unconditional exit TX", ok, f,
           "the frame goes back onto the bus")
    lp = devs[0].loops
    ok = len(lp) == 1 and match("self.devices", lp[0].iter) is not None
    chk.ob("R21.3", sym, "every device's program is generated", ok, f,
           "for dev in self.devices")
    br = repo.func(C + "SyncGroupBase.run")
    cfg = CFG(br, raises="await")
    z = [n for n in cfg.nodes if n.kind == "stmt" and match_stmt(
        "self.wkc_errors = 0", n.stmt) is not None]
    o = [n for n in cfg.nodes if n.kind == "stmt" and match_stmt(
        "self.wkc_errors = 1", n.stmt) is not None]
    op = [n for n in cfg.nodes if n.expr is not None and find(
        "$t.set_state(MachineState.OPERATIONAL)", n.expr)]
    ok = len(z) == 1 and len(o) == 1 and len(op) == 1 and cfg.dominates(
        z[0], op[0]) and cfg.dominates(op[0], o[0])
    chk.ob("R21.3", C + "SyncGroupBase.run", "wkc_errors is 0 until the "
           "terminals were asked OPERATIONAL, non-zero only afterwards", ok,
           br, "write datagrams stay disabled before")
    fr = repo.func(C + "FastSyncGroup.run")
    ok = bool(find("self.wkc_errors = 0", fr, mode="stmt"))
    chk.ob("R21.3", C + "FastSyncGroup.run", "a fast group starts with "
           "wkc_errors = 0", ok, fr, "before the first frame")


def dispatcher(chk, repo):
    sym = C + "EtherXDP.program"
    f = repo.func(sym)
    chk.analysed(sym)
    ev = events(f)
    exits = [e for e in ev if e.kind == "exit"]
    chk.floor("R21.4", "exits of the dispatcher", len(exits), 4)
    ex = repo.cls(C + "EtherXDP")
    evl = Evaluator(repo, ex.module, ex)
    try:
        rate = evl.class_attr(ex, "rate")
    except Unknown:
        rate = None
    for i, e in enumerate(exits):
        code = unparse(e.code)
        if code in ("XDPExitCode.PASS", "XDPExitCode.TX"):
            chk.ob("R21.4", sym, f"exit #{i} is {code.split('.')[-1]}", True,
                   e.node, "frame goes on")
        else:
            g = e.guard_text()
            ok = len(g) == 1 and g[0] == "prandom(self.ebpf) & 65535 < " \
                "self.rate" and rate == 0
            chk.ob("R21.4", sym, f"exit #{i} ({code.split('.')[-1]}) only in "
                   f"the rate-0 test branch", ok, e.node,
                   f"guards {g}, rate = {rate}: an unsigned `< 0` is never "
                   f"true")
    ok = exits[-1] is ev[-1] and not exits[-1].guards and unparse(
        exits[-1].code) == "XDPExitCode.PASS"
    chk.ob("R21.4", sym, "ends with an unconditional exit PASS", ok, f,
           "frames the dispatcher does not handle reach user space")
    xp = repo.cls("ebpfcat.xdp.XDP")
    try:
        dc = evl.class_attr(xp, "defaultExitCode")
        ok = getattr(dc, "name", None) == "PASS"
    except Unknown:
        ok = False
    chk.ob("R21.4", "ebpfcat.xdp.XDP", "too-short frames PASS", ok, xp.node,
           "defaultExitCode")
    # R21.5
    fe = repo.cls(C + "FastEtherCat")
    try:
        mp = evl.class_attr(fe, "MAX_PROGS")
    except Unknown:
        mp = None
    cnt = ex.attrs.get("counters")
    ok = cnt is not None and match(f"variables.globalVar('{mp}I')", cnt) \
        is not None
    chk.ob("R21.5", ex.qualname, f"one 4-byte counter per program slot "
           f"({mp})", ok, cnt or ex.node, "counters = globalVar('<MAX_PROGS>"
           "I')")
    cms = [c for m in repo.production_modules() for c in ast.walk(m.tree)
           if isinstance(c, ast.Call) and match(
               "create_map(MapType.PROG_ARRAY, 4, 4, self.MAX_PROGS)", c)
           is not None]
    chk.ob("R21.5", C + "FastEtherCat", "program tables have MAX_PROGS "
           "entries (both creation sites)", len(cms) == 2, fe.node,
           f"{len(cms)} sites")
    tc = [e for e in ev if e.kind == "helper" and unparse(e.func)
          == "FuncId.tail_call"]
    idxs = [e for e in ev if e.kind == "iadd" and match(
        "self.r[dst]", e.target) is not None]
    need(len(tc) == 1 and len(idxs) == 1, f"{sym}: tail call / index "
                                          f"scaling not found")
    g = "self.r3 < FastEtherCat.MAX_PROGS"
    ok = g in tc[0].guard_text() and g in idxs[0].guard_text()
    chk.ob("R21.5", sym, "the group number is bounded by MAX_PROGS before it "
           "indexes the counters and the program table", ok, tc[0].node,
           f"guards of the tail call: {tc[0].guard_text()}")
    ok = match("4 * self.r3", idxs[0].value) is not None
    chk.ob("R21.5", sym, "counter index is scaled by the counter size", ok,
           idxs[0].node, "r[dst] += 4 * r3")
    r3 = [e for e in ev if e.kind == "store" and unparse(e.target)
          == "self.r3" and unparse(e.value) == "self.addr0"]
    chk.ob("R21.5", sym, "the group number is the identification "
           "datagram's address field", len(r3) == 1, f, "r3 = addr0")
    # R21.7 parity
    parity(chk, repo, sym, f, ev, tc[0])


def parity(chk, repo, sym, f, ev, tail):
    evl = Evaluator(repo, f._module)
    incs = [e for e in ev if e.kind == "iadd" and match(
        "self.mI[self.r[dst]]", e.target) is not None]
    chk.floor("R21.7", "counter increments", len(incs), 2)
    stamps = [e for e in ev if e.kind == "store" and unparse(e.target)
              == "self.index0" and unparse(e.value) == "self.mB[self.r[dst]]"]
    chk.floor("R21.7", "stamp stores", len(stamps), 2)
    r4def = [e for e in ev if e.kind == "store" and unparse(e.target)
             == "self.r4" and unparse(e.value) == "self.mB[self.r[dst]]"]
    chk.ob("R21.7", sym, "r4 is the loop counter before the update",
           len(r4def) == 1 and all(r4def[0].node.lineno < e.node.lineno
                                   for e in incs), f, "r4 = mB[counter]")
    fails = []
    rows = 0

    def truth_of(guard_expr, p):
        """value of a guard that depends only on the parity of r4"""
        try:
            v = evl.eval(guard_expr, {"self": Obj(None, {"r4": p})})
            return bool(v)
        except (Unknown, Raised):
            return None
    for inc in incs:
        # the branch this increment lives in = its guards (as with-nodes)
        branch = [(w, pol) for _, pol, w in inc.guards]
        for p in (0, 1):
            try:
                d = evl.eval(inc.value, {"self": Obj(None, {"r4": p})})
            except (Unknown, Raised) as e:
                raise AnalysisError(f"R21.7: cannot fold increment "
                                    f"`{unparse(inc.value)}`: {e}")
            newpar = (p + d) % 2
            # which terminal events follow in this branch for this parity?
            followers = []
            for e in ev:
                if e.node.lineno <= inc.node.lineno:
                    continue
                if e.kind not in ("exit", "helper"):
                    continue
                eg = [(w, pol) for _, pol, w in e.guards]
                # same branch prefix, or an event after the branch on the
                # common prefix
                if eg[:len(branch)] == branch:
                    extra = e.guards[len(branch):]
                elif all(x in branch for x in eg):
                    extra = []
                else:
                    continue
                feasible = True
                for ge, pol, _ in extra:
                    t = truth_of(ge, p)
                    if t is not None and t != pol:
                        feasible = False
                if feasible:
                    followers.append(e)
                    break
            rows += 1
            if not followers:
                fails.append(f"no continuation found after `"
                             f"{unparse(inc.node)[:40]}` for parity {p}")
                continue
            e = followers[0]
            if e.kind == "helper" and unparse(e.func) == "FuncId.tail_call":
                if newpar != 1:
                    fails.append(
                        f"counter parity {p}: `{unparse(inc.node)[:45]}` "
                        f"leaves an even counter, and the frame is handed "
                        f"to the group program (writes get enabled) with "
                        f"an even stamp")
            elif e.kind == "exit" and unparse(e.code) == "XDPExitCode.TX":
                if newpar != 0:
                    fails.append(
                        f"counter parity {p}: frame sent on unprocessed "
                        f"with an odd stamp")
    chk.ob("R21.7", sym, f"processed frames carry an odd stamp, passed-on "
           f"frames an even one ({rows} rows)", not fails, incs[0].node,
           "; ".join(fails[:2]) or "folded for both parities of the loop "
           "counter in both branches")


def writers(chk, repo):
    n = 0
    for m in repo.production_modules():
        for c in ast.walk(m.tree):
            if not (isinstance(c, ast.Call) and isinstance(
                    c.func, ast.Attribute) and c.args):
                continue
            if c.func.attr not in ("append", "append_writer"):
                # any other method of the packet that is handed a command:
                # it counts as what it forwards the command to
                sp_ = repo.cls(C + "SterilePacket")
                own_, h_ = repo.lookup(sp_, c.func.attr)
                if not isinstance(h_, FUNC) or not (dotted(c.args[0])
                                                    or "").startswith(
                                                        "ECCmd."):
                    continue
                p0 = param_names(h_)[1:2]
                fw = [x for x in calls_in(h_) if isinstance(
                    x.func, ast.Attribute) and x.func.attr in (
                        "append", "append_writer") and x.args and p0
                    and isinstance(x.args[0], ast.Name)
                    and x.args[0].id == p0[0]]
                if len(fw) != 1:
                    continue
                via = fw[0].func.attr
            else:
                via = c.func.attr
            cmd = dotted(c.args[0]) or ""
            if not cmd.startswith("ECCmd."):
                continue
            recv = unparse(c.func.value)
            if recv not in ("packet", "self", "self.packet"):
                continue
            ci = repo.enclosing_class(c)
            if recv == "self" and (ci is None or not repo.is_subclass(
                    ci, C + "SterilePacket")):
                continue
            if recv in ("packet", "self.packet") and (
                    ci is None or not (repo.is_subclass(
                        ci, C + "EBPFTerminal") or repo.is_subclass(
                            ci, C + "SyncGroupBase"))):
                continue
            n += 1
            w = cmd.split(".")[1] in WRITE_CMDS
            ok = (via == "append_writer") == w
            chk.ob("R21.6", func_qual(repo, c), f"{cmd} datagram added "
                   f"through {'append_writer' if w else 'append'}", ok, c,
                   "a write datagram that is not a registered writer stays "
                   "enabled in the sterile frame and is neither re-enabled "
                   "selectively nor checked by the group program" if w else
                   "read datagrams are never disabled")
    chk.floor("R21.6", "datagrams added to sterile packets", n, 6)
    # reader and writer of the frame's identification agree: the
    # dispatcher reads the whole index field Packet.assemble writes
    import struct as _struct
    pk = repo.cls("ebpfcat.ethercat.Packet")
    asm = pk.methods.get("assemble")
    ex = repo.cls(C + "EtherXDP")
    a0 = ex.attrs.get("addr0")
    b = match("XDPPacketVar($pos, $fmt)", a0) if a0 is not None else None
    hdr = [str_const(x.args[0]) for x in calls_in(asm) if dotted(x.func)
           == "pack" and x.args and str_const(x.args[0]) and len(
               x.args) > 6] if asm is not None else []
    ev_ = Evaluator(repo, pk.module, pk)
    try:
        eth, pix = ev_.class_attr(pk, "ETHERNET_HEADER"), ev_.class_attr(
            pk, "PACKET_INDEX")
    except Unknown:
        eth = pix = None
    ok = False
    why = "index field not found"
    if b is not None and hdr and isinstance(eth, int):
        h = hdr[0]
        body = h.lstrip("<>!=@")
        off, width = None, None
        for i, ch in enumerate(body):
            if _struct.calcsize("<" + body[:i]) == pix:
                off, width = pix, _struct.calcsize("<" + ch)
                break
        fmt = str_const(b["fmt"])
        ok = off is not None and int_const(b["pos"]) == eth + off and \
            fmt is not None and _struct.calcsize("<" + fmt[-1]) == width
        why = (f"the index is the {width}-byte field at {eth}+{off} of the "
               f"frame; addr0 is read as {fmt!r} at "
               f"{int_const(b['pos'])}")
    chk.ob("R21.5", ex.qualname, "the dispatcher reads the whole frame "
           "index", ok, a0 if a0 is not None else ex.node, why + ": with a "
           "narrower read, ordinary frames whose index has small low bits "
           "are dispatched to a fast group's program")

# added rules (appended to the explanation the evidence file carries)
EXPLANATION += (" " + 'Added during the build (DESIGN.md 4.31, second table): nothing binds another attribute to the sterile template and writes it in place; the program-table slot written was looked up in the shared table and found empty; write commands enter packets through append_writer only (shared with C11); the guard bound folded.')
EXPLANATION += (
    " Shared with C12 (R12.4): datagram frames and slow groups never carry "
    "an index below MAX_PROGS, which is all the dispatcher looks at to take "
    "a frame for a fast group's.")
