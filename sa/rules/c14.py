"""C14 - state changes walk the EtherCAT state machine in order."""
import ast

from .common import *

EXPLANATION = (
    "Decided, on Terminal.to_operational / get_state / set_state: (R14.1) "
    "the MachineState codes are the ETG.1000 AL state codes and are "
    "declared in the order INIT, PRE-OP, SAFE-OP, OP with BOOTSTRAP last "
    "(the walk iterates the declaration order); AL status is read at "
    "0x0130 with state = low nibble, error = bit 4, AL control is written "
    "at 0x0120; (R14.2) an error is acknowledged first: on the error path "
    "the first control write is INIT|0x10, before the walk, and the walk "
    "then starts from INIT (the constant, not a re-read state); (R14.3) "
    "inside the walk the return test `state.value >= target.value` "
    "dominates the control write of the iteration, the requested value is "
    "the loop variable's, and the walk runs over the states after the "
    "start state; (R14.4) after a request the state is polled until the "
    "reported state is the requested one, and every poll is followed by "
    "the error test (raise EtherCatError) before the polling loop can be "
    "left. Declined: terminal behaviours over time; 'returns only once'.")
ASSUMPTIONS = ["AL state codes and register addresses per ETG.1000.6"]

T = "ebpfcat.ethercat.Terminal"
CODES = {"INIT": 1, "PRE_OPERATIONAL": 2, "BOOTSTRAP": 3,
         "SAFE_OPERATIONAL": 4, "OPERATIONAL": 8}
ORDER = ["INIT", "PRE_OPERATIONAL", "SAFE_OPERATIONAL", "OPERATIONAL",
         "BOOTSTRAP"]


def run(chk, repo):
    chk.doc("R14.1", "state codes, order and registers")
    chk.doc("R14.2", "acknowledge an error first, then start from INIT")
    chk.doc("R14.3", "guard before request; walk after the start state")
    chk.doc("R14.4", "wait for the requested state, test the error flag on "
                     "every poll")
    ms = repo.cls("ebpfcat.ethercat.MachineState")
    ev = Evaluator(repo, ms.module)
    mem = ev.enum_members(ms)
    for n, v in CODES.items():
        chk.ob("R14.1", ms.qualname, f"{n} == {v}", n in mem and
               mem[n].value == v, ms.attr_stmts.get(n, ms.node),
               "AL state code")
    order = [n for n in ms.order if n in mem]
    chk.ob("R14.1", ms.qualname, "declared INIT, PRE-OP, SAFE-OP, OP, then "
           "BOOTSTRAP", order == ORDER, ms.node, f"declaration order "
           f"{order}: to_operational walks list(MachineState)")
    gs = repo.func(T + ".get_state")
    tci_ = repo.cls(T)

    def datagrams(fn, *args):
        """the datagrams a method sends (through whatever wrappers), by
        abstract execution with a recording roundtrip"""
        log = []

        def rt(cmd, pos, off, *a, **k):
            log.append((getattr(cmd, "name", cmd), pos, off, a,
                        tuple(sorted(k.items()))))
            return (8, 0)
        me0 = Obj(tci_, {"position": 7, "ec": Obj(None, {
            "roundtrip": ("hook", rt)})})
        try:
            Evaluator(repo, tci_.module, tci_).call_function(
                fn, [me0] + list(args), cls=tci_)
        except (Unknown, Raised):
            return None
        return log
    got_ = datagrams(gs)
    ok = got_ == [("FPRD", 7, 0x130, ("H2xH",), ())] if got_ is not None \
        else bool(find("self.ec.roundtrip(ECCmd.FPRD, self.position, 304, "
                       "'H2xH')", gs))
    chk.ob("R14.1", T + ".get_state", "reads AL status 0x0130 (state word, "
           "status code)", ok, gs, "FPRD 0x130 'H2xH'")
    # the decoding of the AL status word, by abstract execution of
    # get_state for every value of its low five bits (and set high bits)
    tci = repo.cls(T)
    bad_ = []
    for al in list(range(32)) + [0x100 | x for x in (1, 0x12, 8)]:
        me_ = Obj(tci, {"position": 7, "ec": Obj(None, {"roundtrip": (
            "hook", lambda *a, _al=al: (_al, 0x99))})})
        want_state = [n for n, v in CODES.items() if v == al & 0xf]
        try:
            r_ = Evaluator(repo, tci.module, tci).call_function(
                gs, [me_], cls=tci)
        except Raised as e:
            if want_state:
                bad_.append(f"status {al:#x}: raises {e.what[:30]}")
            continue
        except Unknown as e:
            raise AnalysisError(f"{T}.get_state: cannot be evaluated: {e}")
        if not want_state:
            bad_.append(f"status {al:#x}: returns {r_!r} for an undefined "
                        f"state code")
            continue
        if not (isinstance(r_, tuple) and len(r_) == 3 and isinstance(
                r_[0], EnumVal) and r_[0].name == want_state[0]
                and r_[1] is bool(al & 0x10) and r_[2] == 0x99):
            bad_.append(f"status {al:#x}: decoded as {r_!r}")
    ok = not bad_
    chk.ob("R14.1", T + ".get_state", "state = low nibble, error = bit 4",
           ok, gs, "MachineState(state & 0xf), bool(state & 0x10)")
    ss = repo.func(T + ".set_state")
    ok = True
    for nm_, v_ in CODES.items():
        got_ = datagrams(ss, mem[nm_]) if nm_ in mem else None
        if got_ is None:
            ok = bool(find("self.ec.roundtrip(ECCmd.FPWR, self.position, "
                           "288, 'H', state.value)", ss))
            break
        if got_ != [("FPWR", 7, 0x120, ("H", v_), ())]:
            ok = False
    chk.ob("R14.1", T + ".set_state", "writes AL control 0x0120", ok, ss,
           "FPWR 0x120 'H' state.value")
    ok_, why_ = walk_exec(chk, repo)
    try:
        walk(chk, repo)
    except AnalysisError as e:
        if not ok_:
            raise
        # another shape of the walk: the runs against the model decide
        chk.ob("R14.3", T + ".to_operational", "the walk is not written "
               "as the loop the path rules know; decided by the runs "
               "against the state machine model", True,
               repo.func(T + ".to_operational"), str(e))
    from . import c24
    c24.release_is_sent(chk, repo)
    chk.doc("R14.5", "subclasses of Terminal do not re-implement the state "
                     "requests")
    override_rule(chk, repo, "R14.5", T, ["set_state", "get_state",
                                          "to_operational"],
                  "the state walk checked here issues its requests and "
                  "polls through these methods; an override that skips, "
                  "caches or reorders a request changes which control "
                  "writes reach the terminal")


class _ESM:
    """the EtherCAT state machine of a terminal behind its two registers:
    AL control 0x120 (requested state, bit 4 acknowledges an error) and AL
    status 0x130 (state, bit 4 = error; status code at 0x134).  A request
    takes `delay` status reads to complete; a refused one raises the error
    flag instead."""

    def __init__(self, state, err, delay, refuse=(), zero_code=False,
                 arrive_err=()):
        self.state, self.err, self.delay = state, err, delay
        # (some terminals report an error with status code 0)
        self.zero_code = zero_code
        self.code = 0x1d if err and not zero_code else 0
        self.refuse = set(refuse)
        # states that are reached, but with the error flag raised in the
        # very answer that reports them (a local error on arrival)
        self.arrive_err = set(arrive_err)
        self.pending = None
        self.writes = []
        self.reads = 0
        self.bad = []

    def roundtrip(self, cmd, pos, offset, *args, **kw):
        name = getattr(cmd, "name", cmd)
        if pos != 7:
            self.bad.append(f"terminal {pos} addressed")
        if name == "FPRD" and offset == 0x130 and args == ("H2xH",):
            self.reads += 1
            if self.pending is not None:
                self.pending[1] -= 1
                if self.pending[1] < 0:
                    req = self.pending[0]
                    self.pending = None
                    if req in self.refuse:
                        self.err, self.code = True, 0x1e
                    elif req in self.arrive_err:
                        self.state, self.err, self.code = req, True, 0x1b
                    else:
                        self.state = req
            return (self.state | (0x10 if self.err else 0),
                    0 if self.zero_code else self.code)
        if name == "FPWR" and offset == 0x120 and len(args) == 2 and \
                args[0] == "H":
            v = args[1]
            self.writes.append(v)
            if self.pending is not None:
                # the request before this one is worked off first
                req0, self.pending = self.pending[0], None
                if req0 in self.refuse:
                    self.err, self.code = True, 0x1e
                elif req0 in self.arrive_err:
                    self.state, self.err, self.code = req0, True, 0x1b
                else:
                    self.state = req0
            if v & 0x10:
                self.err, self.code = False, 0
            req = v & 0xf
            up = {1: 2, 2: 4, 4: 8}
            if self.err:
                return ()
            if req != self.state and req > self.state and up.get(
                    self.state) != req:
                self.err, self.code = True, 0x11     # a state was skipped
            elif req != self.state:
                self.pending = [req, self.delay]
            return ()
        self.bad.append(f"roundtrip({name}, {offset:#x}, {args})")
        return ()


def walk_exec(chk, repo):
    """to_operational by abstract execution against the state machine model:
    start states INIT..OP with and without a pending error, targets PRE-OP
    .. OP, completion delays of 0..2 reads, and terminals that refuse a
    state.  Returns False when the method cannot be executed."""
    sym = T + ".to_operational"
    f = repo.func(sym)
    tci = repo.cls(T)
    ms = repo.cls("ebpfcat.ethercat.MachineState")
    mem = Evaluator(repo, ms.module).enum_members(ms)
    by_code = {m.value: m for m in mem.values()}
    bad = []
    rows = 0
    grid = [(s0, err0, tgt, delay, refuse, False, ()) for s0 in (1, 2, 4, 8)
            for err0 in (False, True) for tgt in (2, 4, 8)
            for delay in (0, 2) for refuse in ((), (4,), (8,))]
    # a terminal that takes very long for every step (no bound on the
    # number of polls is part of the walk)
    grid += [(1, False, 8, 1500, (), False, ()),
             (2, True, 4, 1500, (), False, ())]
    # terminals whose status code reads 0 although the error flag is set,
    # and terminals that reach a state with the error flag raised
    grid += [(s0, True, tgt, delay, refuse, True, ())
             for s0 in (2, 4) for tgt in (4, 8) for delay in (0, 2)
             for refuse in ((), (8,))]
    grid += [(s0, False, 8, delay, (), zc, (arr,))
             for s0 in (1, 2) for delay in (0, 1) for zc in (False, True)
             for arr in (2, 4, 8) if arr > s0]
    if chk.tier == "thorough":
        # the whole product of the model's parameters
        import itertools
        grid = [g for g in itertools.product(
            (1, 2, 4, 8), (False, True), (2, 4, 8), (0, 1, 2, 3, 7),
            ((), (2,), (4,), (8,)), (False, True), ((), (2,), (4,), (8,)))
            if not (g[4] and g[6] and g[4] == g[6])
            and not (g[5] and not (g[1] or g[4] or g[6]))] + [
            (1, False, 8, 1500, (), False, ()),
            (2, True, 4, 1500, (), False, ())]
    if True:
        if True:
            if True:
                if True:
                    for s0, err0, tgt, delay, refuse, zc, arr in grid:
                        rows += 1
                        dev = _ESM(s0, err0, delay, refuse, zc, arr)
                        me = Obj(tci, {"position": 7, "ec": Obj(None, {
                            "roundtrip": ("hook", dev.roundtrip)})})
                        tag = (f"terminal in {by_code[s0].name}"
                               f"{' with error' if err0 else ''}, target "
                               f"{by_code[tgt].name}, requests complete "
                               f"after {delay} reads"
                               + (f", refuses {by_code[refuse[0]].name}"
                                  if refuse else "")
                               + (", status code reads 0" if zc else "")
                               + (f", reports {by_code[arr[0]].name} with "
                                  f"the error flag" if arr else ""))
                        start = 1 if err0 else s0
                        want = [0x11] if err0 else []
                        cur, failed = start, False
                        for nxt in (2, 4, 8):
                            if nxt <= cur:
                                continue
                            if cur >= tgt:
                                break
                            want.append(nxt)
                            if nxt in refuse or nxt in arr:
                                failed = True
                                break
                            cur = nxt
                        try:
                            r = Evaluator(repo, f._module, tci).call_function(
                                f, [me], {"target": by_code[tgt]}, cls=tci)
                            raised = None
                        except Budget as e:
                            bad.append(f"{tag}: does not end ({e})")
                            continue
                        except Unknown as e:
                            return False, str(e)
                        except Raised as e:
                            raised = e.what
                            r = None
                        if dev.bad:
                            bad.append(f"{tag}: {dev.bad[0]}")
                        elif dev.writes != want:
                            bad.append(
                                f"{tag}: requests "
                                f"{[hex(v) for v in dev.writes]}, expected "
                                f"{[hex(v) for v in want]}")
                        elif failed and (raised is None or "EtherCatError"
                                         not in raised):
                            bad.append(f"{tag}: the refusal is not "
                                       f"reported ({raised or r!r})")
                        elif not failed and raised is not None:
                            bad.append(f"{tag}: raises {raised[:40]}")
                        elif not failed and (
                                not isinstance(r, tuple) or len(r) != 3
                                or r[0] != by_code[s0]
                                or r[1] is not err0):
                            bad.append(f"{tag}: returns {r!r}, the state "
                                       f"before was {by_code[s0].name}, "
                                       f"error {err0}")
    chk.ob("R14.3", sym, f"the states between the start state and the "
           f"target are requested one by one, in order, each after the one "
           f"before was reached; nothing is requested at or above the "
           f"target; an error is acknowledged first and a refusal reported "
           f"({rows} runs against a model of the terminal's state machine, "
           f"by abstract execution)", not bad, f, "; ".join(bad[:3]) or
           "start states x error x target x delay x refusing terminals")
    return True, None


DIRECT = "self.ec.roundtrip(ECCmd.FPWR, self.position, 288, 'H', $v)"
_wrappers = {}


def wrappers(repo):
    """methods of Terminal that perform exactly one AL control write:
    name -> (parameter names, written value expression).  A call
    `self.<name>(args)` is then a control write of that value with the
    arguments substituted (Min et al.: treat a wrapper as the operation)"""
    if id(repo) in _wrappers:
        return _wrappers[id(repo)]
    out = {}
    ci = repo.cls(T)
    for name, f in ci.methods.items():
        if name == "to_operational":
            continue
        hits = find(DIRECT, f)
        if len(hits) == 1:
            out[name] = (param_names(f)[1:], hits[0][1]["v"])
    _wrappers[id(repo)] = out
    return out


def _wrapper_call(repo, expr):
    for c in ast.walk(expr):
        if isinstance(c, ast.Call) and isinstance(c.func, ast.Attribute) \
                and isinstance(c.func.value, ast.Name) and c.func.value.id \
                == "self" and c.func.attr in wrappers(repo):
            return c
    return None


def is_ctrl_write(n, repo):
    if n.expr is None or n.kind in ("with_exit",):
        return False
    return bool(find(DIRECT, n.expr)) or _wrapper_call(repo, n.expr) \
        is not None


def ctrl_value(n, repo):
    r = find(DIRECT, n.expr)
    if r:
        return r[0][1]["v"]
    c = _wrapper_call(repo, n.expr)
    params, v = wrappers(repo)[c.func.attr]
    sub = {p: a for p, a in zip(params, c.args)}
    sub.update({k.arg: k.value for k in c.keywords if k.arg})

    class S(ast.NodeTransformer):
        def visit_Name(self, node):
            return clone(sub[node.id]) if node.id in sub else node
    return S().visit(clone(v))


def walk(chk, repo):
    sym = T + ".to_operational"
    f = repo.func(sym)
    chk.analysed(sym)
    cfg = CFG(f, raises="await")
    rd = ReachingDefs(cfg)
    fors = [n for n in cfg.nodes if n.kind == "iter"]
    need(len(fors) == 1, f"{sym}: expected one for loop (the walk)")
    it = fors[0]
    loopvar = unparse(it.stmt.target)
    writes = [n for n in cfg.nodes if is_ctrl_write(n, repo)]
    chk.floor("R14.3", "AL control writes in to_operational", len(writes), 2)
    body_ids = {id(x) for s in it.stmt.body for x in ast.walk(s)}
    inloop = [n for n in writes if id(n.stmt) in body_ids]
    pre = [n for n in writes if n not in inloop]
    # ---- R14.1: order source
    od = rd.reaching(it, "order")
    ok = len(od) == 1 and match("list(MachineState)", next(iter(
        od)).value) is not None if od else False
    chk.ob("R14.1", sym, "the walk order is the declaration order of "
           "MachineState", ok, it.stmt, "order = list(MachineState)")
    # ---- R14.2
    need(len(pre) == 1, f"{sym}: expected one control write before the walk "
                        f"(the acknowledge)")
    ack = pre[0]
    v = ctrl_value(ack, repo)
    ev = Evaluator(repo, f._module)
    try:
        val = ev.eval(v)
    except (Unknown, Raised):
        val = None
    chk.ob("R14.2", sym, "acknowledge writes INIT | 0x10", val == 0x11,
           ack.expr, f"writes {unparse(v)}")
    facts = path_facts(ack.stmt)
    okf = any(t and isinstance(e, ast.Name) and e.id == "error"
              for e, t in facts)
    chk.ob("R14.2", sym, "acknowledge only on the error path", okf, ack.stmt,
           "guarded by `if error`")
    chk.ob("R14.2", sym, "acknowledge precedes the walk",
           cfg.dominates(ack, it) is False and it in cfg.reachable(ack)
           and ack not in cfg.reachable(it), ack.stmt,
           "the write is before the loop and not repeated")
    # the definition of `state` that reaches the walk on the error path
    # (taken where the error branch ends, so that statements between the
    # branch and the loop do not blur the two paths)
    ifn = None
    for par in parents(ack.stmt):
        if isinstance(par, ast.If) and any(ack.stmt is x or any(
                ack.stmt is y for y in ast.walk(x)) for x in par.body):
            ifn = par
            break
    if ifn is not None:
        ends = [n for n in cfg.nodes if n.stmt is ifn.body[-1]
                and n.kind != "with_exit"]
        entry_preds = ends[-1:] if ends else []
    else:
        entry_preds = [p for p, lab in it.pred
                       if lab not in ("loop", "continue")
                       and (p is ack or p in cfg.reachable(
                           ack, avoid=lambda n: n is it))]
    from_ack = [d for p in entry_preds
                for d in rd.reaching_after(p, "state")]
    okc = bool(from_ack) and all(
        d.kind == "assign" and match("MachineState.INIT", d.value) is not None
        for d in from_ack)
    chk.ob("R14.2", sym, "after the acknowledge the walk starts from INIT",
           okc, from_ack[0].node.stmt if from_ack else ack.stmt,
           "the start state is the constant INIT; a state read back right "
           "after the acknowledge may still be the old one, and the walk "
           "would then skip states" if not okc else
           "state = MachineState.INIT")
    # ---- R14.3
    ok = match("order[order.index(state) + 1:]", it.stmt.iter) is not None
    chk.ob("R14.3", sym, "the walk covers the states after the start state",
           ok, it.stmt, f"iterates `{unparse(it.stmt.iter)}`")
    need(len(inloop) == 1, f"{sym}: expected one control write in the walk")
    w = inloop[0]
    chk.ob("R14.3", sym, "the state requested is the walk's current state",
           match(f"{loopvar}.value", ctrl_value(w, repo)) is not None,
           w.expr, f"requests {unparse(ctrl_value(w, repo))}")
    guards = [n for n in cfg.nodes if n.kind == "test" and id(n.stmt) in
              body_ids and match("state.value >= target.value", n.expr)
              is not None]
    ok = len(guards) == 1 and cfg.dominates(guards[0], w)
    if ok:
        # once the test holds nothing is requested any more: no control
        # write is reachable from its true branch (return, or break out of
        # the walk to a return)
        after = [m for m, lab in guards[0].succ if lab == "true"]
        ok = bool(after) and not any(
            is_ctrl_write(n, repo) for n in cfg.reachable(after))
    tests = [unparse(n.expr) for n in cfg.nodes if n.kind == "test"
             and id(n.stmt) in body_ids and "target" in unparse(n.expr)]
    chk.ob("R14.3", sym, "no request once the target is reached or passed",
           ok, guards[0].stmt if guards else it.stmt,
           f"the test before the request is {tests}: it must be "
           f"`state.value >= target.value` and return; an identity test "
           f"lets a terminal that is already above the target be pushed "
           f"further up")
    # ---- R14.4
    polls = [n for n in cfg.nodes if id(n.stmt) in body_ids and n.expr is not
             None and find("self.get_state()", n.expr)]
    need(len(polls) >= 1, f"{sym}: polling read not found")
    whiles = [n for n in cfg.nodes if n.kind == "test" and isinstance(
        n.stmt, ast.While) and id(n.stmt) in body_ids]
    need(len(whiles) == 1, f"{sym}: polling loop not found")
    wl = whiles[0]
    cond = wl.stmt.test
    okid = match(f"{loopvar} is not state", cond) is not None or match(
        f"state is not {loopvar}", cond) is not None
    if not okid and isinstance(cond, ast.Constant) and cond.value:
        # while True: ... if state is current: break
        brk = [s for s in ast.walk(wl.stmt) if isinstance(s, ast.If)
               and any(isinstance(b, ast.Break) for b in s.body)
               and (match(f"state is {loopvar}", s.test) is not None
                    or match(f"{loopvar} is state", s.test) is not None)]
        okid = len(brk) == 1
    chk.ob("R14.4", sym, "polls until the reported state is the requested "
           "one", okid, wl.stmt, f"loop condition `{unparse(cond)}`")
    chk.ob("R14.4", sym, "the request is followed by the polling loop",
           cfg.dominates(w, wl), wl.stmt, "no second request without "
           "waiting")
    for p in polls:
        # the name the error flag is bound to by this read
        tgt = p.stmt.targets[0] if isinstance(p.stmt, ast.Assign) else None
        ename = unparse(tgt.elts[1]) if isinstance(tgt, ast.Tuple) and len(
            tgt.elts) == 3 else "error"

        def is_err_test(n):
            return n.kind == "test" and isinstance(n.expr, ast.Name) and \
                n.expr.id == ename and isinstance(n.stmt, ast.If) and any(
                    isinstance(s, ast.Raise) and "EtherCatError" in unparse(s)
                    for s in n.stmt.body)
        ok = cfg.must_pass(p, is_err_test, targets=[it, cfg.exit],
                           first_edge="next")
        path = None
        if not ok:
            wpath = cfg.witness_path(p, is_err_test, targets=[it, cfg.exit],
                                     first_edge="next")
            path = cfg.describe_path(wpath) if wpath else None
        chk.ob("R14.4", sym, "every poll is followed by the error test "
               "before the loop is left", ok, p.stmt,
               "an error flag reported together with the requested state "
               "is ignored and the walk goes on" if not ok else
               "`if error: raise EtherCatError` lies on every path from the "
               "read to the next request", path)

# added rules (appended to the explanation the evidence file carries)
EXPLANATION += (" " + 'Added during the build (DESIGN.md 4.31, second table): to_operational by abstract execution against a model of the ESC state machine (146 runs: start state x error x target x completion delay x refusing terminal, 1500-poll steps); the path rules apply when the walk is the loop they know.')
EXPLANATION += (' Added after wave 9: the state machine model also has terminals whose status code reads 0 while the error flag is set, and terminals that report the requested state together with the error flag.')
EXPLANATION += (' Added after wave 10: the registers get_state / set_state access are read off the datagrams they send in a recording execution, through whatever wrappers.')
