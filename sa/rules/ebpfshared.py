"""rules of the eBPF generator that several properties depend on"""
import ast

from .common import *

E = "ebpfcat.ebpf."
H = "ebpfcat.hashmap."


def intervals_ok(new_stack, old_stack, regions):
    """regions [(addr, size)] lie in [new_stack, old_stack), aligned,
    pairwise disjoint"""
    probs = []
    for a, s in regions:
        if a < new_stack or a + s > old_stack:
            probs.append(f"[{a},{a + s}) outside the reservation "
                         f"[{new_stack},{old_stack})")
    rs = sorted(regions)
    for (a, s), (b, t) in zip(rs, rs[1:]):
        if a + s > b:
            probs.append(f"[{a},{a + s}) overlaps [{b},{b + t})")
    return probs


# ------------------------------------------------------------ stack carving
def watermark_rules(chk, repo, rule):
    """every user of r10-relative storage lowers the watermark past what
    it takes, aligned (folded over start values and sizes)"""
    ev = Evaluator(repo, "ebpfcat.ebpf")
    ev._self = None
    starts = [0, -1, -2, -4, -5, -6, -8, -12, -13, -16, -20]
    # LocalVar.__set_name__
    sym = E + "LocalVar.__set_name__"
    f = repo.func(sym)
    chk.analysed(sym)
    lv = repo.cls(E + "LocalVar")
    fails = []
    rows = 0
    for fmt in "BHIQbhiqx":
        size = 8 if fmt == "x" else calcsize(fmt)
        for s0 in starts:
            rows += 1
            me = Obj(lv, {"fmt": fmt})
            owner = Obj(None, {"stack": s0})
            try:
                ev.call_function(f, [me, owner, "v"], cls=lv)
            except (Raised, Unknown) as e:
                fails.append(f"fmt {fmt} stack {s0}: {e}")
                continue
            a = me.fields.get("relative_addr")
            ns = owner.fields["stack"]
            if not isinstance(a, int):
                fails.append(f"fmt {fmt} stack {s0}: address {a!r}")
                continue
            pr = intervals_ok(ns, s0, [(a, size)])
            if a % size:
                pr.append(f"offset {a} not aligned to {size}")
            if pr:
                fails.append(f"fmt {fmt} stack {s0}: {pr[0]}")
    chk.ob(rule, sym, f"local variable lies inside its own reservation "
           f"({rows} rows)", not fails, f, "; ".join(fails[:3]) or
           "the watermark is lowered past the variable, aligned to its size")
    # Dict.__set_name__
    sym = H + "Dict.__set_name__"
    f = repo.func(sym)
    chk.analysed(sym)
    dc = repo.cls(H + "Dict")
    ev2 = Evaluator(repo, "ebpfcat.hashmap")
    fails = []
    rows = 0
    for k, v in ((4, 8), (16, 4), (1, 13), (8, 8), (3, 5)):
        for s0 in starts:
            rows += 1
            me = Obj(dc, {"Key": Obj(None, {"stack": k}),
                          "Value": Obj(None, {"stack": v})})
            owner = Obj(None, {"stack": s0})
            try:
                ev2.call_function(f, [me, owner, "t"], cls=dc)
            except (Raised, Unknown) as e:
                fails.append(f"key {k} value {v} stack {s0}: {e}")
                continue
            ko, vo = me.fields.get("key_offset"), me.fields.get(
                "value_offset")
            ns = owner.fields["stack"]
            pr = intervals_ok(ns, s0, [(ko, k), (vo, v)])
            if ko % 8 or vo % 8:
                pr.append("key/value not 8-aligned")
            if pr:
                fails.append(f"key {k} value {v} stack {s0}: {pr[0]}")
    chk.ob(rule, sym, f"Dict key and value areas lie inside their "
           f"reservation ({rows} rows)", not fails, f,
           "; ".join(fails[:3]) or "both areas are below the previous "
           "watermark, above the new one, disjoint and 8-aligned")
    # EBPF.get_stack
    sym = E + "EBPF.get_stack"
    f = repo.func(sym)
    chk.analysed(sym)
    body = body_without_docstring(f)
    yi = [i for i, s in enumerate(body) if isinstance(s, ast.Expr)
          and isinstance(s.value, ast.Yield)]
    need(len(yi) == 1, f"{sym}: expected one top-level yield")
    pre, post = body[:yi[0]], body[yi[0] + 1:]
    yv = body[yi[0]].value.value
    eb = repo.cls(E + "EBPF")
    fails = []
    rows = 0
    for size in (4, 8):
        for s0 in starts:
            rows += 1
            me = Obj(eb, {"stack": s0})
            env = {"self": me, "size": size}
            try:
                for s in pre:
                    ev.run_stmt(s, env)
                y = ev.eval(yv, env)
                ns = me.fields["stack"]
                for s in post:
                    ev.run_stmt(s, env)
                after = me.fields["stack"]
            except (Raised, Unknown) as e:
                fails.append(f"size {size} stack {s0}: {e}")
                continue
            pr = intervals_ok(ns, s0, [(y, size)])
            if y % size:
                pr.append(f"slot {y} not aligned to {size} (the verifier "
                          f"rejects misaligned stack access)")
            if after != s0:
                pr.append(f"watermark {after} after the block, was {s0}")
            if pr:
                fails.append(f"size {size} stack {s0}: {pr[0]}")
    chk.ob(rule, sym, f"temporary slot lies below every declared local and "
           f"is released afterwards ({rows} rows)", not fails, f,
           "; ".join(fails[:3]) or "slot = new watermark, aligned to its "
           "size, watermark restored after the with block")


# number of argument registers (r1..rn) of the helpers the package calls
HELPER_ARGS = {"map_lookup_elem": 2, "map_update_elem": 4,
               "map_delete_elem": 2, "tail_call": 3, "ktime_get_ns": 0,
               "get_prandom_u32": 0, "trace_printk": 5}


def slot_escape_rule(chk, repo, rule):
    """a register that is given the address of a get_stack slot is only
    handed out (yielded) while the slot is reserved"""
    n = 0
    for m in repo.production_modules():
        for f in ast.walk(m.tree):
            if not isinstance(f, FUNC):
                continue
            for w in walk_no_nested(f):
                if not isinstance(w, ast.With):
                    continue
                for it in w.items:
                    if match("$e.get_stack($n)", it.context_expr) is None \
                            or not isinstance(it.optional_vars, ast.Name):
                        continue
                    n += 1
                    slot = it.optional_vars.id
                    sym = repo.qualname_of(f)
                    # uses of the slot outside the with body
                    inside = {id(x) for s in w.body for x in ast.walk(s)}
                    outside = [x for x in walk_no_nested(f) if isinstance(
                        x, ast.Name) and x.id == slot and isinstance(
                            x.ctx, ast.Load) and id(x) not in inside]
                    chk.ob(rule, sym, f"slot `{slot}` is used only inside "
                           f"its with block", not outside, w,
                           "after the block the slot is handed to the next "
                           "temporary")
                    # registers that receive the slot's address
                    holders = set()
                    for c, b in find("$x.append($op, $dst, $src, $off, "
                                     f"{slot})", w):
                        if "ADD" in unparse(b["op"]):
                            holders.add(unparse(b["dst"]))
                    if not holders:
                        continue
                    ys = [y for y in walk_no_nested(f) if isinstance(
                        y, ast.Yield) and y.value is not None and any(
                            isinstance(x, ast.Name) and x.id in holders
                            for x in ast.walk(y.value))]
                    for y in ys:
                        chk.ob(rule, sym, f"`{unparse(y)[:40]}` hands out "
                               f"the slot's address while the slot is "
                               f"reserved", id(y) in inside, y,
                               "the caller uses the address after the "
                               "yield; outside the get_stack block the slot "
                               "is reused by the caller's own temporaries "
                               "(the 4-byte key of a map update lands in "
                               "the value)")
    chk.floor(rule, "get_stack users", n, 3)
    # consumers: `with v.get_address(N, ...)` leaves the address of a
    # temporary in rN; a helper that reads rN must be called inside
    k = 0
    for m in repo.production_modules():
        for f in ast.walk(m.tree):
            if not isinstance(f, FUNC):
                continue
            for w in walk_no_nested(f):
                if not isinstance(w, ast.With):
                    continue
                for it in w.items:
                    b = match("$v.get_address($n, $*rest)", it.context_expr)
                    if b is None or not (isinstance(b["n"], ast.Constant)
                                         and isinstance(b["n"].value, int)):
                        continue
                    k += 1
                    reg = b["n"].value
                    inside = {id(x) for s_ in w.body for x in ast.walk(s_)}
                    users = []
                    for c in walk_no_nested(f):
                        if isinstance(c, ast.Call) and isinstance(
                                c.func, ast.Attribute) and c.func.attr \
                                == "call" and len(c.args) == 1 and (
                                    dotted(c.args[0]) or "").startswith(
                                        "FuncId.") and c.lineno > w.lineno:
                            nargs = HELPER_ARGS.get(c.args[0].attr)
                            if nargs is not None and 1 <= reg <= nargs:
                                users.append(c)
                    for c in users:
                        chk.ob(rule, repo.qualname_of(f),
                               f"`{unparse(c)}` reads r{reg} while the "
                               f"temporary it points to is reserved",
                               id(c) in inside, c,
                               f"r{reg} holds the address `{unparse(it.context_expr)[:40]}` "
                               f"produced; after that block the slot is "
                               f"free again and the next get_stack (the "
                               f"helper's key) is carved from the same "
                               f"bytes")
    chk.floor(rule, "get_address(N) consumers", k, 1)


# --------------------------------------------------------- packet guards
def guard_strictness(chk, repo, rule):
    ps = repo.cls("ebpfcat.xdp.PacketSize")
    ev = Evaluator(repo, "ebpfcat.xdp")
    for dun, pat, delta in (("__le__", "self < $e", 1),
                            ("__ge__", "self > $e", -1)):
        f = ps.methods.get(dun)
        need(f is not None, f"PacketSize.{dun} vanished")
        rets = [r for r in walk_no_nested(f) if isinstance(r, ast.Return)]
        ok = len(rets) == 1 and match(pat, rets[0].value) is not None
        why = "shape"
        if ok:
            e = match(pat, rets[0].value)["e"]
            try:
                ok = all(ev.eval(e, {"value": v}) == v + delta
                         for v in (0, 1, 20, 64, 1500))
                why = f"delegates to the strict comparison with " \
                      f"{unparse(e)}"
            except (Unknown, Raised) as ex:
                ok, why = False, str(ex)
        chk.ob(rule, ps.qualname + "." + dun, f"{dun} is the strict "
               f"comparison with value{delta:+d}", ok, f,
               why + "; off by one, a packet of exactly the boundary length "
               "skips its block, or the else-branch proves one byte less "
               "than it reads")
    for dun, op in (("__gt__", ">"), ("__lt__", "<")):
        f = ps.methods.get(dun)
        need(f is not None, f"PacketSize.{dun} vanished")
        loads = find("e.r9 = e.mA[e.r1]", f, mode="stmt")
        # the packet base is (re)loaded by every guard: whatever r9 held
        # before - a scratch value, a pointer that bpf_xdp_adjust_head has
        # invalidated - is not what the accessors may use
        uncond = bool(loads) and not any(
            path_facts(stmt_of(c) if not isinstance(c, ast.stmt) else c)
            for c, _ in loads)
        ok = uncond and len(find(
            f"e.mA[e.r1 + 4] {op} e.mA[e.r1] + value", f)) == 1 and bool(
                find("Packet(e, Else, 9)", f))
        chk.ob(rule, ps.qualname + "." + dun, f"{dun}: data_end {op} data "
               f"+ value, accessors based on r9 = data", ok, f,
               "ctx.data is at offset 0, ctx.data_end at offset 4; the "
               "packet accessors use the register that was loaded with "
               "ctx.data")
    xp = repo.func("ebpfcat.xdp.XDP.program")
    ws = [w for w in walk_no_nested(xp) if isinstance(w, ast.With) and match(
        "self.packetSize > self.minimumPacketSize", w.items[0].context_expr)
        is not None]
    ok = len(ws) == 1 and bool(find("sub(XDP, self).program()", ws[0].body))
    chk.ob(rule, "ebpfcat.xdp.XDP.program", "user program runs inside "
           "`packetSize > minimumPacketSize`", ok, xp,
           "strictly more than minimumPacketSize bytes are proven readable")
    ex = [s for s in xp.body[-1].orelse] if isinstance(
        xp.body[-1], ast.If) else []
    ok = bool(find("self.exit(self.defaultExitCode)", xp))
    chk.ob(rule, "ebpfcat.xdp.XDP.program", "too-short packets leave with "
           "the default exit code", ok, xp, "defaultExitCode (PASS)")


def member_symmetry(chk, repo, rule):
    """Member.__get__/__set__ both rebind the shared descriptor's base
    register to the instance's before generating code"""
    mc = repo.cls(E + "Member")
    for dun in ("__get__", "__set__"):
        f = mc.methods.get(dun)
        need(f is not None, f"Member.{dun} vanished")
        sup = [c for c in calls_in(f) if match(
            f"super().{dun}($*a)", c) is not None]
        need(len(sup) == 1, f"Member.{dun}: delegation to MemoryDesc not "
                            f"found")
        st = stmt_of(sup[0])
        blk = getattr(st._parent, "body", [])
        if st not in blk:
            blk = getattr(st._parent, "orelse", [])
        i = blk.index(st) if st in blk else 0
        ok = any(match_stmt("self.base_register = instance.base_register", s)
                 is not None for s in blk[:i])
        chk.ob(rule, mc.qualname + "." + dun, "base register taken from the "
               "instance before code is generated", ok, sup[0],
               "a Member descriptor is shared by the on-stack key/value "
               "(base r10) and the looked-up value (base r0); without this "
               "the store uses whatever base the last access left behind "
               "and the verifier rejects the program")


from ..match import match_stmt  # noqa: E402
