"""C17 - EEPROM contents and derived layouts are decoded exactly."""
import ast

from .common import *

EXPLANATION = (
    "Re-based during the build (DESIGN.md 4.31): the sync-manager table is decided by abstract execution of parse_sync_managers on 72 packed record tables (bounded). "
    "Decided: (R17.1) word/byte units of the SII reader: the 8-byte read is "
    "taken whole iff status bit 0x40 is set, otherwise 4 more bytes are "
    "read two words further and appended to the first 4; the category walk "
    "starts at word 0x40, advances 4 words per 8 bytes, takes 2 bytes per "
    "word of category length and ends at type 0xffff and nothing else; "
    "identity fields at the EEPROM enum's word addresses; (R17.2) busy "
    "handling: every polling loop re-reads register 0x502 until bit 0x8000 "
    "clears, and the data that is used comes from the very read that "
    "reported not-busy (same statement, inside the loop); (R17.3) record "
    "strides of the cursor-style parsers equal the record size and cover "
    "the format unpacked at the cursor; (R17.4) the sync-manager mode table "
    "(6, 2, 4, 0 -> mailbox out/in, PDO out/in; PDO register address 0x800 "
    "+ offset) and the PDO entry decoding: the bit position advances by the "
    "entry's bit count on every iteration (gaps included), sub-byte "
    "entries map to (sm, byte, bit), whole-byte ones to the struct letter "
    "of their size. Declined: decoding arbitrary images correctly.")
ASSUMPTIONS = ["SII/EEPROM layout per ETG.1000.6 / ETG.2010"]

T = "ebpfcat.ethercat.Terminal"


def source_choice(chk, repo):
    """R17.4: which source the PDO layout is taken from: CoE objects when
    the terminal has a mailbox - both mailbox sync managers - and the
    EEPROM's PDO categories otherwise.  has_mailbox() for the four
    combinations of the two mailbox offsets (a terminal with one mailbox
    sync manager has no usable mailbox: the SDO route waits for ever)."""
    tci = repo.cls(T)
    f = tci.methods.get("has_mailbox")
    if f is None:
        return
    chk.analysed(T + ".has_mailbox")
    bad = []
    for out_, in_ in ((None, None), (0x1000, None), (None, 0x1080),
                      (0x1000, 0x1080), (0, 0x80), (0x1000, 0)):
        me = Obj(tci, {"mbx_out_off": out_, "mbx_in_off": in_,
                       "mbx_out_sz": 128 if out_ is not None else None,
                       "mbx_in_sz": 128 if in_ is not None else None})
        try:
            got = Evaluator(repo, f._module, tci).call_function(
                f, [me], cls=tci)
        except (Unknown, Raised) as e:
            raise AnalysisError(f"{T}.has_mailbox: cannot be evaluated: {e}")
        want = out_ is not None and in_ is not None
        if bool(got) != want:
            bad.append(f"send mailbox at {out_!r}, receive mailbox at "
                       f"{in_!r}: has_mailbox() is {got!r}")
    chk.ob("R17.4", T + ".has_mailbox", "a mailbox needs both mailbox sync "
           "managers (6 combinations by abstract execution)", not bad, f,
           "; ".join(bad[:2]) + (": parse_pdos takes the CoE route for a "
                                 "terminal that cannot answer, instead of "
                                 "the PDO layout stored in its EEPROM"
                                 if bad else "") or
           "mbx_out_off is not None and mbx_in_off is not None")


def run(chk, repo):
    source_choice(chk, repo)
    chk.doc("R17.1", "word/byte units")
    chk.doc("R17.2", "busy handling")
    chk.doc("R17.3", "record strides")
    chk.doc("R17.4", "mode table and PDO entries")
    chk.doc("R17.5", "what is read from one terminal is kept with that "
                     "terminal")
    per_instance_rule(chk, repo, "R17.5", [T, "ebpfcat.ebpfcat.EBPFTerminal"],
                      "layouts decoded for one terminal are handed to "
                      "another of the same kind but a different revision "
                      "or mapping")
    rows, bad = sii(chk, repo)
    if rows is None:
        # the reader cannot be executed abstractly: its shape is looked at
        chk.ob("R17.1", T + ".read_eeprom", "abstract execution against "
               "the interface model not possible; shape rules apply", True,
               repo.func(T + ".read_eeprom"), bad)
        read_one(chk, repo)
        walk(chk, repo)
    else:
        chk.ob("R17.1", T + ".read_eeprom", f"identity fields and every "
               f"category up to the end marker are returned as stored "
               f"({rows} runs against a model of the EEPROM interface, by "
               f"abstract execution)", not bad,
               repo.func(T + ".read_eeprom"), "; ".join(bad[:3]) or
               "4- and 8-byte interfaces, busy 0..3 polls, 11 images")
        identity(chk, repo)
    sii_master(chk, repo)
    busy(chk, repo)
    strides(chk, repo)
    modes(chk, repo)
    pdos(chk, repo)


class _SII:
    """an ESC's EEPROM interface as the two register accessors of a
    terminal see it: control/status word at 0x502 (busy 0x8000, 8-byte
    reads 0x40), the address at 0x504, eight data bytes at 0x508.  A read
    command (0x100) takes `busy` polls to complete; until then the data
    registers hold the leftovers of the previous access.  A command written
    while busy is ignored, as on the hardware."""

    def __init__(self, image, mode8, busy, busy0, fail_at=None):
        self.fail_at = fail_at
        self.reads = 0
        self.image, self.mode8 = image, mode8
        self.busy, self.count = busy, busy0
        self.addr = 0
        self.data = b"\xdd" * 8
        self.pending = None
        self.errors = []
        self.commands = 0

    def _tick(self):
        if self.count:
            self.count -= 1
            if not self.count and self.pending is not None:
                a = self.pending
                self.pending = None
                n = 8 if self.mode8 else 4
                d = self.image[2 * a:2 * a + n]
                self.data = (d + b"\xee" * 8)[:8]

    def read(self, addr, fmt=None, *args, **kw):
        import struct
        if addr != 0x502 or not isinstance(fmt, str):
            self.errors.append(f"read({addr!r}, {fmt!r})")
            raise Raised("EtherCatError: no such register")
        self.reads += 1
        if self.fail_at is not None and self.reads == self.fail_at:
            raise Raised("EtherCatError: datagram lost")
        busy = bool(self.count)
        status = (0x8000 if busy else 0) | (0x40 if self.mode8 else 0)
        regs = struct.pack("<HI", status, self.addr) + self.data
        try:
            ret = struct.unpack("<" + fmt, regs[:struct.calcsize(
                "<" + fmt)])
        except struct.error as e:
            raise Raised(f"struct.error: {e}")
        self._tick()
        return ret

    def write(self, addr, fmt=None, *args, **kw):
        if addr != 0x502 or fmt != "HI" or len(args) != 2:
            self.errors.append(f"write({addr!r}, {fmt!r}, {args})")
            return None
        cmd, a = (getattr(x, "value", x) for x in args)
        if self.count:
            self.errors.append(f"command for word {a:#x} written while "
                               f"the interface is busy")
            return None
        if cmd != 0x100:
            self.errors.append(f"command {cmd:#x}")
            return None
        self.commands += 1
        self.addr = a
        self.pending = a
        self.count = self.busy
        if not self.count:
            self.count = 1
            self._tick()
        return None


def _images(extra=0):
    """SII images: identity words, then categories (type, bytes) from word
    0x40 up to the end marker; deterministic, of every alignment (`extra`
    more random ones in the thorough tier)"""
    import struct
    seed = [12345]

    def rnd(n):
        seed[0] = (seed[0] * 1103515245 + 12345) & 0x7fffffff
        return (seed[0] >> 8) % n
    lists = [[], [(10, 6)], [(41, 8), (50, 2), (30, 0), (60, 14)],
             [(0, 4), (1, 10)], [(5, 2), (0xfffe, 6), (7, 12), (9, 2)]]
    for _ in range(6 + extra):
        k = 1 + rnd(5)
        types = []
        while len(types) < k:
            t = rnd(0x7000)
            if t not in types:
                types.append(t)
        lists.append([(t, 2 * rnd(12)) for t in types])
    out = []
    for cats in lists:
        head = bytes(rnd(256) for _ in range(0x80))
        body = b""
        want = {}
        for t, n in cats:
            payload = bytes(rnd(256) for _ in range(n))
            body += struct.pack("<HH", t, n // 2) + payload
            want[t] = payload
        body += struct.pack("<HH", 0xffff, 0xffff)
        tail = bytes([0xff] * 32)
        out.append((head + body + tail, want))
    return out


def sii(chk, repo):
    """R17.1/R17.2 by abstract execution: Terminal.read_eeprom and
    _eeprom_read_one run against a model of the EEPROM interface, for images
    of every alignment, 4- and 8-byte interfaces and busy periods of 0..3
    polls (before the first command, and after each)"""
    import struct
    tci = repo.cls(T)
    chk.analysed(T + ".read_eeprom", T + "._eeprom_read_one")
    bad = []
    rows = 0
    images = _images(40 if chk.tier == "thorough" else 0)
    # (interface width, busy polls per command, busy polls at the start,
    #  history before the read that is compared: None, "reread" - a
    #  complete read of another image first, or the number of the register
    #  read at which an earlier attempt lost its datagram)
    plans = [(m8, b, b0, None) for m8 in (True, False)
             for b, b0 in ((0, 0), (1, 0), (3, 2), (2, 1))]
    plans += [(m8, 1, 0, h) for m8 in (True, False)
              for h in ("reread", 2, 5, 9, 14, 23)]
    for mode8, busy, busy0, hist in plans:
        for k, (image, want) in enumerate(images):
            if hist is not None and k % 3 != 2:
                continue
            if True:
                rows += 1
                ev = Evaluator(repo, tci.module, tci)
                try:
                    me = ev.construct(tci, [Obj(None, {})], {})
                except (Unknown, Raised) as e:
                    return None, f"Terminal(): {e}"
                me.fields["position"] = 1
                tag = (f"{'8' if mode8 else '4'}-byte interface, busy "
                       f"{busy0}/{busy} polls, {len(want)} categories")
                if hist is not None:
                    other = images[(k + 1) % len(images)][0]
                    pre = _SII(other, mode8, busy, busy0, None if hist
                               == "reread" else hist)
                    me.fields["read"] = ("hook", pre.read)
                    me.fields["write"] = ("hook", pre.write)
                    try:
                        ev.call(ev.getattr(me, "read_eeprom"), [])
                    except Budget as e:
                        bad.append(f"{tag}: the walk does not end ({e})")
                        return rows, bad
                    except Unknown as e:
                        return None, str(e)
                    except Raised:
                        pass
                    tag += (", after a complete read of another image"
                            if hist == "reread" else f", after an attempt "
                            f"that lost the datagram of register read "
                            f"{hist}")
                    ev = Evaluator(repo, tci.module, tci)
                dev = _SII(image, mode8, busy, busy0)
                me.fields["read"] = ("hook", dev.read)
                me.fields["write"] = ("hook", dev.write)
                try:
                    ev.call(ev.getattr(me, "read_eeprom"), [])
                except Budget as e:
                    bad.append(f"{tag}: the walk does not end ({e})")
                    return rows, bad
                except Unknown as e:
                    return None, str(e)
                except Raised as e:
                    bad.append(f"{tag}: raises {e.what}")
                    continue
                ident = struct.unpack("<IIII", image[16:32])
                got = tuple(me.fields.get(k) for k in (
                    "vendorId", "productCode", "revisionNo", "serialNo"))
                ee = me.fields.get("eeprom")
                if dev.errors:
                    bad.append(f"{tag}: {dev.errors[0]}")
                elif got != ident:
                    bad.append(f"{tag}: identity {got}, stored {ident}")
                elif ee != want:
                    d = sorted(set(want) ^ set(ee)) if isinstance(
                        ee, dict) else "no dict"
                    bad.append(f"{tag}: categories differ from the image "
                               f"(types only on one side: {d})" if d else
                               f"{tag}: category contents differ from the "
                               f"image")
    return rows, bad


def sii_master(chk, repo):
    """the position-addressed sibling of the reader, EtherCat.eeprom_read
    (identity and serial-number scans), against the same interface model:
    the four bytes stored at the word address are returned, whatever the
    interface width and however long it is busy"""
    import struct
    ec = repo.cls("ebpfcat.ethercat.EtherCat")
    f = ec.methods.get("eeprom_read")
    if f is None:
        return
    sym = ec.qualname + ".eeprom_read"
    chk.analysed(sym)
    bad = []
    rows = 0
    image, _ = _images()[2]
    for mode8 in (True, False):
        for busy, busy0 in ((0, 0), (1, 0), (3, 2), (2, 1)):
            for start in (8, 10, 12, 14, 0x40):
                rows += 1
                dev = _SII(image, mode8, busy, busy0)

                def rt(cmd, pos, offset, *args, _d=dev, **kw):
                    nm = getattr(cmd, "name", cmd)
                    if pos != -3:
                        _d.errors.append(f"terminal {pos} addressed")
                    if nm == "APRD":
                        return _d.read(offset, *args)
                    if nm == "APWR":
                        return _d.write(offset, *args)
                    _d.errors.append(f"command {nm}")
                    return ()
                me = Obj(ec, {"roundtrip": ("hook", rt)})
                tag = (f"{'8' if mode8 else '4'}-byte interface, busy "
                       f"{busy0}/{busy} polls, word {start:#x}")
                try:
                    got = Evaluator(repo, f._module, ec).call_function(
                        f, [me, -3, start], cls=ec)
                except Budget as e:
                    bad.append(f"{tag}: does not end ({e})")
                    break
                except Unknown as e:
                    raise AnalysisError(f"{sym}: cannot be evaluated: {e}")
                except Raised as e:
                    bad.append(f"{tag}: raises {e.what[:40]}")
                    continue
                want = struct.unpack_from("<I", image, 2 * start)[0]
                if dev.errors:
                    bad.append(f"{tag}: {dev.errors[0]}")
                elif got != want:
                    bad.append(f"{tag}: returns {got!r}, stored {want:#x}")
    chk.ob("R17.2", sym, f"the four bytes stored at the word address are "
           f"returned ({rows} runs against the interface model, by abstract "
           f"execution)", not bad, f, "; ".join(bad[:2]) or
           "the data comes from the read that reported not-busy")


def read_one(chk, repo):
    sym = T + "._eeprom_read_one"
    f = repo.func(sym)
    chk.analysed(sym)
    rets = [r for r in walk_no_nested(f) if isinstance(r, ast.Return)]
    need(len(rets) == 2, f"{sym}: expected two returns")
    whole = [r for r in rets if any(t and match("busy & 64", e) is not None
                                    for e, t in path_facts(r))]
    ok = len(whole) == 1 and isinstance(whole[0].value, ast.Name)
    chk.ob("R17.1", sym, "8 bytes are returned whole iff status bit 0x40 is "
           "set", ok, whole[0] if whole else f,
           "0x40: the interface delivers 8 bytes per read")
    other = [r for r in rets if r not in whole]
    ok = len(other) == 1 and match("$a[:4] + $b", other[0].value) is not None
    chk.ob("R17.1", sym, "otherwise the first 4 bytes plus the second read",
           ok, other[0] if other else f, "data[:4] + data2")
    w2 = find("self.write(1282, 'HI', 256, start + 2)", f)
    w1 = find("self.write(1282, 'HI', 256, start)", f)
    chk.ob("R17.1", sym, "the second read starts two words (4 bytes) "
           "further", len(w1) == 1 and len(w2) == 1, f,
           "SII addresses count 16-bit words")
    r8 = find("self.read(1282, 'H4x8s')", f)
    r4 = find("self.read(1282, 'H4x4s')", f)
    chk.ob("R17.1", sym, "data registers are read at 0x508 as 8 resp. 4 "
           "bytes", len(r8) == 1 and len(r4) == 1, f,
           "status word, 4 bytes address, then the data")


def walk(chk, repo):
    sym = T + ".read_eeprom"
    f = repo.func(sym)
    chk.analysed(sym)
    gd = repo.func(sym + ".get_data")
    ok = bool(find("data += await self._eeprom_read_one(pos)", gd,
                   mode="stmt")) and bool(find("pos += 4", gd, mode="stmt"))
    chk.ob("R17.1", sym + ".get_data", "the cursor advances 4 words per "
           "8-byte read", ok, gd, "pos += 4")
    ok = bool(find("(ret, data) = (data[:size], data[size:])", gd,
                   mode="stmt"))
    chk.ob("R17.1", sym + ".get_data", "exactly `size` bytes are taken from "
           "the front of the buffer", ok, gd, "ret, data = data[:size], "
           "data[size:]")
    ok = bool(find("pos = 64", f, mode="stmt"))
    chk.ob("R17.1", sym, "categories start at word 0x40", ok, f, "pos = 0x40")
    hdr = find("(hd, ws) = unpack('<HH', await get_data(4))", f, mode="stmt")
    chk.ob("R17.1", sym, "category header: type and word count", len(hdr)
           == 1, f, "two little-endian 16-bit words")
    st = find("self.eeprom[hd] = await get_data(ws * 2)", f, mode="stmt")
    chk.ob("R17.1", sym, "a category holds 2 bytes per word of its length",
           len(st) == 1, f, "get_data(ws * 2)")
    rets = [r for r in walk_no_nested(f) if isinstance(r, ast.Return)]
    ok = len(rets) == 1
    facts = path_facts(rets[0]) if ok else []
    conds = [(unparse(e), t) for e, t in facts if not (isinstance(
        e, ast.Constant))]
    ok = ok and conds == [("hd == 65535", True)]
    chk.ob("R17.1", sym, "the walk ends at category type 0xffff and nothing "
           "else", ok, rets[0] if rets else f,
           f"return condition {conds}: ending on anything else (an empty "
           f"category, say) loses every later category")
    for name, fld in (("VENDOR_ID", "(self.vendorId, self.productCode)"),
                      ("REVISION", "(self.revisionNo, self.serialNo)")):
        ok = bool(find(f"{fld} = unpack('<II', await "
                       f"self._eeprom_read_one(EEPROM.{name}))", f,
                       mode="stmt"))
        chk.ob("R17.1", sym, f"identity read at EEPROM.{name}", ok, f,
               "two 32-bit words")
    identity(chk, repo)


def identity(chk, repo):
    ee = repo.cls("ebpfcat.ethercat.EEPROM")
    ev = Evaluator(repo, ee.module)
    mem = ev.enum_members(ee)
    ref = {"VENDOR_ID": 8, "PRODUCT_CODE": 10, "REVISION": 12,
           "SERIAL_NO": 14}
    ok = all(n in mem and mem[n].value == v for n, v in ref.items())
    chk.ob("R17.1", ee.qualname, "identity word addresses 8, 10, 12, 14", ok,
           ee.node, "SII layout")


def busy(chk, repo):
    n = 0
    tci = repo.cls(T)
    for meth in ("_eeprom_read_one", "eeprom_write_one"):
        sym = T + "." + meth
        f = repo.func(sym)
        cfg = CFG(f, raises="await")
        rd = ReachingDefs(cfg)
        # a command is written only after the status register was seen
        # idle in this call: directly, or in a helper awaited on the way
        def polls(n_):
            if n_.expr is None:
                return False
            if find("self.read(1282, $*a)", n_.expr):
                return True
            for c_ in ast.walk(n_.expr):
                if isinstance(c_, ast.Call) and isinstance(
                        c_.func, ast.Attribute) and unparse(
                            c_.func.value) == "self":
                    _, h_ = repo.lookup(tci, c_.func.attr)
                    if isinstance(h_, FUNC) and find(
                            "self.read(1282, $*a)", h_):
                        return True
            return False
        cmds = [n_ for n_ in cfg.nodes if n_.expr is not None and find(
            "self.write(1282, $*a)", n_.expr)]
        need(cmds, f"{sym}: no command write to 0x502")
        pn = [n_ for n_ in cfg.nodes if polls(n_)]
        ok_ = bool(pn) and cfg.must_pass(
            cfg.entry, lambda n_: n_ in pn, targets=[cmds[0]])
        chk.ob("R17.2", sym, "the first command is written only after the "
               "interface was polled in this call", ok_, cmds[0].stmt,
               "a command written while the interface is still busy (an "
               "earlier access cancelled after its command write, the "
               "terminal loading its EEPROM) is ignored, and the data of "
               "the previous address is returned" if not ok_ else
               "status register 0x502 read on every path to the command")
        def exit_test(w):
            """the busy test of a polling loop: its `while` condition, or
            the condition of the `if not busy: break` that ends a
            `while True` (do-while spelling); as the *stay* condition"""
            if "32768" in unparse(w.test):
                return w.test
            for s_ in w.body:
                if isinstance(s_, ast.If) and "32768" in unparse(s_.test) \
                        and len(s_.body) == 1 and isinstance(
                            s_.body[0], ast.Break) and not s_.orelse:
                    from ..normalize import negate
                    return negate(s_.test)
            return None
        loops = [w for w in walk_no_nested(f) if isinstance(w, ast.While)
                 and exit_test(w) is not None]
        for w in loops:
            n += 1
            t = exit_test(w)
            inline = find("self.read(1282, 'H')", t)
            if inline:
                chk.ob("R17.2", sym, "waits for the interface to be idle "
                       "before a command", True, w, "status re-read in the "
                       "loop condition")
                continue
            b = match("$v & 32768", t)
            need(b is not None and isinstance(b["v"], ast.Name),
                 f"{sym}: polling loop shape")
            bv = b["v"].id
            reads = [s for s in w.body if isinstance(s, ast.Assign)
                     and find("self.read(1282, $*a)", s.value)]
            ok = len(reads) == 1 and bv in [
                unparse(x) for x in ast.walk(reads[0].targets[0])
                if isinstance(x, ast.Name)]
            chk.ob("R17.2", sym, f"`while {unparse(t)}` re-reads the status "
                   f"register in its body", ok, w,
                   "register 0x502 is read again on every turn")
        if meth == "_eeprom_read_one":
            for r in [x for x in walk_no_nested(f)
                      if isinstance(x, ast.Return)]:
                rn = cfg.nodes_of(r)[0]
                for nm in sorted({x.id for x in ast.walk(r.value)
                                  if isinstance(x, ast.Name)}):
                    why = ""

                    def from_final(at, nm_, depth=0):
                        """every definition of `nm_` reaching `at` is
                        unpacked together with the status that ends its
                        polling loop, or is put together from such values
                        without any call"""
                        nonlocal why
                        ds_ = rd.reaching(at, nm_)
                        if not ds_ or depth > 4:
                            why = why or f"`{nm_}` has no definition"
                            return False
                        for d in ds_:
                            st = d.node.stmt if d.node is not None else None
                            inloop = any(st in w.body for w in loops) \
                                if st is not None else False
                            same_read = st is not None and isinstance(
                                st, ast.Assign) and isinstance(
                                    st.targets[0], ast.Tuple) and any(
                                        isinstance(exit_test(w), ast.BinOp)
                                        and unparse(exit_test(w).left) in [
                                            unparse(e) for e in
                                            st.targets[0].elts]
                                        for w in loops if st in w.body)
                            if inloop and same_read:
                                continue
                            if isinstance(st, ast.Assign) and not inloop \
                                    and isinstance(st.targets[0], ast.Name) \
                                    and not any(isinstance(x, (
                                        ast.Call, ast.Await, ast.Attribute))
                                        for x in ast.walk(st.value)):
                                parts = sorted({
                                    x.id for x in ast.walk(st.value)
                                    if isinstance(x, ast.Name)})
                                if parts and all(from_final(
                                        d.node, q, depth + 1)
                                        for q in parts):
                                    continue
                            why = why or (
                                f"`{nm_}` comes from "
                                f"`{unparse(st)[:50] if st else '?'}`")
                            return False
                        return True
                    ok = from_final(rn, nm)
                    chk.ob("R17.2", sym, f"`{nm}` returned by "
                           f"`{' '.join(unparse(r).split())[:30]}` was read "
                           f"together with the final not-busy status", ok, r,
                           (why + ": data read while the interface was "
                            "still busy is the previous register content")
                           if not ok else "status and data are unpacked "
                           "from one read inside the polling loop")
    chk.floor("R17.2", "polling loops", n, 5)


def strides(chk, repo):
    sm = repo.func(T + ".parse_sync_managers")
    fl = [s for s in walk_no_nested(sm) if isinstance(s, ast.For)]
    ok = len(fl) == 1 and match("range(0, len(data), 8)", fl[0].iter) \
        is not None and bool(find("unpack_from('<HHB', data, i)", fl[0]))
    chk.ob("R17.3", T + ".parse_sync_managers", "8-byte records, the first "
           "5 bytes decoded at the cursor", ok and calcsize("<HHB") <= 8, sm,
           "stride 8 >= calcsize('<HHB')")
    pe = repo.func(T + ".parse_pdos.parse_eeprom")
    h = find("unpack_from('<HBbBBH', s, i)", pe)
    e = find("unpack_from('<HBBBB2x', s, i)", pe)
    inc = [s for s in walk_no_nested(pe) if isinstance(s, ast.AugAssign)
           and unparse(s.target) == "i"]
    ok = len(h) == 1 and len(e) == 1 and len(inc) == 2 and all(
        int_const(s.value) == 8 for s in inc) and calcsize(
            "<HBbBBH") == 8 and calcsize("<HBBBB2x") == 8
    chk.ob("R17.3", T + ".parse_pdos.parse_eeprom", "PDO header and PDO "
           "entry records are 8 bytes and the cursor advances by 8 after "
           "each", ok, pe, "i += 8 twice; formats of 8 bytes")
    if ok:
        # each increment follows its unpack inside the same block
        hs, es = stmt_of(h[0][0]), stmt_of(e[0][0])
        ok = any(s._parent is hs._parent and s.lineno > hs.lineno
                 for s in inc) and any(
            s._parent is es._parent and s.lineno > es.lineno for s in inc)
    chk.ob("R17.3", T + ".parse_pdos.parse_eeprom", "each record is skipped "
           "where it was decoded", ok, pe, "header: once per PDO; entry: "
           "once per entry, inside the entry loop")
    # padding entries (index 0) are part of the layout: the consumer
    # advances its bit position by their length, so the producer has to
    # hand over every entry it decodes
    ys = [y for y in walk_no_nested(pe) if isinstance(y, ast.Yield)]
    cond = []
    for y in ys:
        st_ = stmt_of(y)
        for e_, t_ in path_facts(st_):
            if not (isinstance(getattr(e_, "_parent", None), (
                    ast.While, ast.For))):
                cond.append(unparse(e_))
    chk.ob("R17.3", T + ".parse_pdos.parse_eeprom", "every decoded entry is "
           "yielded, padding entries included", bool(ys) and not cond,
           ys[0] if ys else pe, f"the yield is conditional on {cond}: the "
           f"bit position of everything behind a gap comes out too small"
           if cond else "unconditional inside the entry loop")
    ent = find("range(e)", pe)
    chk.ob("R17.3", T + ".parse_pdos.parse_eeprom", "the entry loop runs "
           "over the header's entry count", len(ent) == 1, pe,
           "for er in range(e)")


def modes(chk, repo):
    """the sync-manager table, by abstract execution of
    parse_sync_managers on packed records: every mode, sizes including 0
    (a process-data sync manager has length 0 until the PDO mapping is
    known), high nibble of the control byte set, every record order"""
    import itertools
    import struct as _struct
    sym = T + ".parse_sync_managers"
    f = repo.func(sym)
    chk.analysed(sym)
    tc = repo.cls(T)
    recs = {6: (0x1000, 128), 2: (0x1080, 128), 4: (0x1100, 0),
            0: (0x1180, 6)}
    bad = []
    rows = 0
    for order in itertools.permutations((6, 2, 4, 0)):
        for hi in (0x00, 0x20, 0x60):
            data = b"".join(_struct.pack("<HHBBBB", recs[m][0], recs[m][1],
                                         m | hi, 0, 1, 0) for m in order)
            me = Obj(tc, {})
            try:
                Evaluator(repo, f._module, tc).call_function(
                    f, [me, data], cls=tc)
            except (Unknown, Raised) as e:
                raise AnalysisError(f"{sym}: cannot be evaluated: {e}")
            rows += 1
            want = {"mbx_out_off": recs[6][0], "mbx_out_sz": recs[6][1],
                    "mbx_in_off": recs[2][0], "mbx_in_sz": recs[2][1],
                    "pdo_out_off": recs[4][0], "pdo_out_sz": recs[4][1],
                    "pdo_in_off": recs[0][0], "pdo_in_sz": recs[0][1],
                    "pdo_out_addr": 0x800 + 8 * order.index(4),
                    "pdo_in_addr": 0x800 + 8 * order.index(0)}
            got = {k: me.fields.get(k, "unset") for k in want}
            if got != want and len(bad) < 4:
                diff = {k: got[k] for k in want if got[k] != want[k]}
                bad.append(f"records in order {order}, control byte | "
                           f"{hi:#x}: {diff}")
    chk.ob("R17.4", sym, "mode table: 0 PDO in, 2 mailbox in, 4 PDO out, 6 "
           "mailbox out; mode = low nibble; offset, length (0 included) and "
           "register address recorded", not bad, f,
           "; ".join(bad[:2]) or f"{rows} record tables evaluated")
    # mailbox only (no process data): the PDO side keeps its defaults
    data = _struct.pack("<HHBBBB", 0x1000, 64, 0x26, 0, 1, 0) + \
        _struct.pack("<HHBBBB", 0x1080, 64, 0x22, 0, 1, 0)
    me = Obj(tc, {"pdo_in_off": 7, "mbx_in_off": 9})
    try:
        Evaluator(repo, f._module, tc).call_function(f, [me, data], cls=tc)
    except (Unknown, Raised) as e:
        raise AnalysisError(f"{sym}: cannot be evaluated: {e}")
    ok = me.fields.get("pdo_in_off", 1) is None and me.fields.get(
        "pdo_out_off", 1) is None and me.fields.get("pdo_in_sz", 1) is None
    chk.ob("R17.4", sym, "sync managers that are not described are reset",
           ok, f, "a second parse does not keep the previous terminal "
           "description")


def _pdo_want(entries, sm):
    want, bp = {}, 0
    for i_, s_, b_ in entries:
        if i_ != 0:
            if b_ < 8:
                want[(i_, s_)] = (sm, bp // 8, bp % 8)
            elif b_ % 8 or bp % 8:
                return None, None
            else:
                want[(i_, s_)] = (sm, bp // 8, {8: "B", 16: "H", 32: "I",
                                                64: "Q"}[b_])
        bp += b_
    return want, bp


def pdos_whole(chk, repo):
    """Terminal.parse_pdos as a whole, by abstract execution, from both
    sources: the EEPROM categories 51/50 (PDO records of 8 bytes + 8 per
    entry) and the CoE objects 0x1c12/0x1c13 (assignment lists and mapping
    objects, answered by a stand-in sdo_read_format).  Returns False when
    the method cannot be executed (the consumer alone is then looked at)."""
    import struct
    sym = T + ".parse_pdos"
    tci = repo.cls(T)
    f = repo.func(sym)
    smc = repo.cls("ebpfcat.ethercat.SyncManager")
    sm = Evaluator(repo, smc.module, smc).enum_members(smc)
    IN, OUT = sm["IN"], sm["OUT"]
    lists = [
        [(0x6000, 1, 1), (0x6000, 2, 1), (0, 0, 6), (0x6010, 1, 16)],
        [(0x7000, 1, 8), (0, 0, 8), (0x7000, 2, 32), (0x7010, 1, 64)],
        [(0, 0, 16), (0x6000, 0x11, 16), (0x6000, 1, 1), (0, 0, 7),
         (0x6020, 1, 8)],
        [(0x7020, 1, 16), (0x7020, 2, 16), (0x7020, 3, 8)],
        [],
    ]
    pairs = [(0, 1), (1, 0), (3, 2), (2, 3), (4, 0), (3, 4), (4, 4),
             (1, 1)]
    bad = []
    rows = 0

    def split(entries, n):
        """the entries as PDOs of at most n entries"""
        return [entries[i:i + n] for i in range(0, len(entries), n)] or []
    for source in ("eeprom", "sdo"):
        for io, ii in pairs:
            for per in (1, 3):
                outs, ins = lists[io], lists[ii]
                # distinct indices per direction
                ins = [(i_ + 0x800 if i_ else 0, s_, b_)
                       for i_, s_, b_ in ins]
                rows += 1
                tag = (f"{source}: outputs {outs}, inputs {ins}, {per} "
                       f"entries per PDO")
                wo, bo = _pdo_want(outs, OUT)
                wi, bi = _pdo_want(ins, IN)
                want = dict(wo)
                want.update(wi)
                fields = {"pdos": {"stale": 1}}
                if source == "eeprom":
                    ee = {}
                    for cat, ents in ((51, outs), (50, ins)):
                        blob = b""
                        for k, grp in enumerate(split(ents, per)):
                            blob += struct.pack("<HBbBBH", 0x1600 + k,
                                                len(grp), 2, 0, 0, 0)
                            for i_, s_, b_ in grp:
                                blob += struct.pack("<HBBBB2x", i_, s_, 0,
                                                    0, b_)
                        if ents or cat == 50:
                            ee[cat] = blob
                    fields.update(eeprom=ee, mbx_out_off=None,
                                  mbx_in_off=None)
                else:
                    od = {}
                    for index, base, ents in ((0x1c12, 0x1600, outs),
                                              (0x1c13, 0x1a00, ins)):
                        grps = split(ents, per)
                        # an unassigned slot (0) among the assignments
                        slots = [base + k for k in range(len(grps))]
                        if len(slots) > 1:
                            slots.insert(1, 0)
                        od[index, 0] = struct.pack("B", len(slots))
                        for n_, pdo in enumerate(slots, start=1):
                            od[index, n_] = struct.pack("<H", pdo)
                        for k, grp in enumerate(grps):
                            od[base + k, 0] = struct.pack("B", len(grp))
                            for j, (i_, s_, b_) in enumerate(grp, start=1):
                                od[base + k, j] = struct.pack(
                                    "<BBH", b_, s_, i_)

                    def rd(fmt, index, sub, _od=od):
                        if (index, sub) not in _od:
                            raise Raised("EtherCatError: no such object")
                        return struct.unpack(
                            fmt if fmt[:1] in "<>!=" else "<" + fmt,
                            _od[index, sub])
                    fields.update(mbx_out_off=0x1000, mbx_in_off=0x1080,
                                  eeprom={}, sdo_read_format=("hook", rd))
                me = Obj(tci, fields)
                try:
                    got = Evaluator(repo, f._module, tci).call_function(
                        f, [me], cls=tci)
                except Budget as e:
                    bad.append(f"{tag}: does not end ({e})")
                    break
                except Unknown as e:
                    return False, str(e)
                except Raised as e:
                    bad.append(f"{tag}: raises {e.what[:40]}")
                    continue
                if tuple(got or ()) != (bo, bi):
                    bad.append(f"{tag}: returns {got!r} bits, stored "
                               f"{(bo, bi)}")
                elif me.fields.get("pdos") != want:
                    d_ = {k: (me.fields["pdos"].get(k), want.get(k))
                          for k in set(want) | set(me.fields["pdos"])
                          if me.fields["pdos"].get(k) != want.get(k)}
                    k0 = sorted(d_, key=str)[0]
                    bad.append(f"{tag}: entry {k0} -> {d_[k0][0]}, stored "
                               f"at {d_[k0][1]}")
    chk.ob("R17.4", sym, f"every mapped entry gets the sync manager, byte "
           f"offset and bit / format stored for it, and the sizes returned "
           f"are those of each direction ({rows} tables from EEPROM and CoE "
           f"sources, by abstract execution)", not bad, f,
           "; ".join(bad[:2]) or "outputs and inputs counted separately, "
           "gaps advance the position, old entries are dropped")
    return True, None


def pdo_sizes(chk, repo):
    """EBPFTerminal.apply_eeprom by abstract execution (bus accesses are
    stand-ins, parse_pdos is the real one on EEPROM categories): the
    process-data sizes programmed into the sync managers are the bit totals
    of the PDO categories rounded up to bytes - gaps included, also a gap
    at the very end"""
    import struct
    et = repo.cls("ebpfcat.ebpfcat.EBPFTerminal")
    f = et.methods.get("apply_eeprom")
    if f is None:
        return
    sym = et.qualname + ".apply_eeprom"
    chk.analysed(sym)
    cases = [
        ([(0x7000, 1, 8), (0, 0, 8)],
         [(0x6000, 1, 1), (0, 0, 15), (0x6010, 1, 16), (0, 0, 16)]),
        ([(0x7000, 1, 16)], [(0x6000, 1, 1), (0x6000, 2, 1)]),
        ([], [(0x6000, 1, 32), (0, 0, 4)]),
        ([(0x7010, 1, 1), (0, 0, 7), (0, 0, 8)], []),
    ]
    bad = []
    for outs, ins in cases:
        ee = {}
        for cat, ents in ((51, outs), (50, ins)):
            if not ents:
                continue
            blob = struct.pack("<HBbBBH", 0x1600, len(ents), 2, 0, 0, 0)
            for i_, s_, b_ in ents:
                blob += struct.pack("<HBBBB2x", i_, s_, 0, 0, b_)
            ee[cat] = blob
        noop = ("hook", lambda *a, **k: None)
        me = Obj(et, {"eeprom": ee, "read_eeprom": noop, "set_state": noop,
                      "write_pdos": noop, "write_pdo_sm": noop,
                      "parse_sdos": noop, "write": noop,
                      "vendorId": 2, "productCode": 5,
                      "mbx_out_off": None, "mbx_in_off": None,
                      "mbx_out_sz": None, "mbx_in_sz": None,
                      "pdo_out_off": 0x1000, "pdo_in_off": 0x1100,
                      "pdo_out_sz": None, "pdo_in_sz": None})
        try:
            Evaluator(repo, f._module, et).call_function(f, [me], cls=et)
        except Unknown as e:
            raise AnalysisError(f"{sym}: cannot be evaluated: {e}")
        except Raised as e:
            bad.append(f"outputs {outs}, inputs {ins}: raises "
                       f"{e.what[:50]}")
            continue
        wo = (sum(b for _, _, b in outs) + 7) // 8
        wi = (sum(b for _, _, b in ins) + 7) // 8
        got = (me.fields.get("pdo_out_sz"), me.fields.get("pdo_in_sz"))
        if got != (wo, wi):
            bad.append(f"outputs {outs}, inputs {ins}: sizes {got}, the "
                       f"categories describe {(wo, wi)} bytes")
    chk.ob("R17.4", sym, "process-data sizes = the categories' bit totals "
           "rounded up to bytes, gaps (also trailing ones) included "
           f"({len(cases)} terminals by abstract execution)", not bad, f,
           "; ".join(bad[:2]) or "pdo_out_sz / pdo_in_sz as stored")


def pdos(chk, repo):
    pdo_sizes(chk, repo)
    ok_, why_ = pdos_whole(chk, repo)
    if ok_:
        try:
            repo.func(T + ".parse_pdos.parse")
        except AnalysisError:
            return      # another shape of the method: the tables decide
    sym = T + ".parse_pdos.parse"
    f = repo.func(sym)
    chk.analysed(sym)
    cfg = CFG(f, raises="await")
    its = [n for n in cfg.nodes if n.kind == "iter"]
    need(len(its) == 1, f"{sym}: entry loop not found")
    it = its[0]
    names = [unparse(e) for e in it.stmt.target.elts] if isinstance(
        it.stmt.target, ast.Tuple) else []
    need(len(names) == 3, f"{sym}: loop target shape")
    idx, sub, bits = names
    adv = [n for n in cfg.nodes if n.kind == "stmt" and isinstance(
        n.stmt, ast.AugAssign) and unparse(n.stmt.target) == "bitpos"
        and isinstance(n.stmt.op, ast.Add) and unparse(n.stmt.value) == bits]
    first = [m for m, lab in it.succ if lab == "true"]

    class Start:
        succ = [(first[0], "next")] if first else []
    ok = bool(adv) and cfg.must_pass(Start, lambda n: n in adv,
                                     targets=[it, cfg.exit])
    path = None
    if not ok and first:
        w = cfg.witness_path(Start, lambda n: n in adv,
                             targets=[it, cfg.exit])
        path = cfg.describe_path(w[1:]) if w else None
    chk.ob("R17.4", sym, "the bit position advances by the entry's size on "
           "every iteration", ok, it.stmt,
           "an entry that is skipped without advancing (a gap with index 0) "
           "shifts every later variable to a wrong offset" if not ok else
           "bitpos += bits lies on every path round the loop, gaps "
           "included", path)
    # the whole consumer, by abstract execution on entry lists (padding
    # entries, single bits, whole-byte entries of every size, misaligned
    # ones): the table it builds and the bit count it returns
    tci = repo.cls(T)
    cases = [
        [(0x6000, 1, 1), (0x6000, 2, 1), (0, 0, 6), (0x6010, 1, 16)],
        [(0x7000, 1, 8), (0, 0, 8), (0x7000, 2, 32), (0x7010, 1, 64)],
        [(0, 0, 16), (0x6000, 0x11, 16), (0x6000, 1, 1), (0, 0, 7),
         (0x6020, 1, 8)],
        [(0x6000, 1, 1), (0x6000, 2, 8)],           # misaligned byte
        [(0x6000, 1, 12)],                          # not whole bytes
        [],
    ]
    bad_ = []
    for entries in cases:
        me_ = Obj(tci, {"pdos": {}})
        want, bp, err = {}, 0, False
        for i_, s_, b_ in entries:
            if i_ != 0:
                if b_ < 8:
                    want[(i_, s_)] = ("SM", bp // 8, bp % 8)
                elif b_ % 8 or bp % 8:
                    err = True
                    break
                else:
                    want[(i_, s_)] = ("SM", bp // 8, {8: "B", 16: "H",
                                                       32: "I", 64: "Q"}[b_])
            bp += b_
        try:
            got = Evaluator(repo, f._module, tci).call(
                ("function", tci, f, {"self": me_}), [list(entries), "SM"])
            if err:
                bad_.append(f"{entries}: accepted, expected RuntimeError")
            elif got != bp or me_.fields["pdos"] != want:
                bad_.append(f"{entries}: returns {got}, table "
                            f"{me_.fields['pdos']}")
        except Raised as e:
            if not err:
                bad_.append(f"{entries}: raises {e.what[:30]}")
        except Unknown as e:
            raise AnalysisError(f"{sym}: cannot be evaluated: {e}")
    chk.ob("R17.4", sym, "entries map to (sync manager, byte, bit) resp. "
           "(sync manager, byte, struct letter of their size); padding "
           "advances the position; misaligned whole-byte entries are "
           "refused", not bad_, f, "; ".join(bad_[:2]) or f"{len(cases)} "
           f"entry lists evaluated (a stated family, DESIGN.md 4.31)")
    ev = Evaluator(repo, f._module)
    sub_ = [a for a in walk_no_nested(f) if isinstance(a, ast.Assign)
            and match(f"self.pdos[{idx}, {sub}]", a.targets[0]) is not None]
    fails = []
    for a in (sub_ if len(sub_) >= 2 else []):
        facts = path_facts(a)
        small = any(t and match(f"{bits} < 8", e) is not None
                    for e, t in facts)
        for bp in (0, 5, 8, 21, 64):
            for nb in ((1, 2, 7) if small else (8, 16, 32, 64)):
                if not small and bp % 8:
                    continue
                try:
                    v = ev.eval(a.value, {"sm": "SM", "bitpos": bp,
                                          bits: nb})
                except (Unknown, Raised) as e:
                    fails.append(str(e))
                    continue
                want = ("SM", bp // 8, bp % 8) if small else (
                    "SM", bp // 8, {8: "B", 16: "H", 32: "I", 64: "Q"}[nb])
                if v != want:
                    fails.append(f"bitpos {bp}, {nb} bits -> {v}")
    chk.ob("R17.4", sym, "entries map to (sync manager, byte, bit) resp. "
           "(sync manager, byte, struct letter of their size)", not fails,
           sub_[0] if sub_ else f, "; ".join(fails[:3]) or "folded over "
           "bit positions and sizes")
    al = [s for s in walk_no_nested(f) if isinstance(s, ast.If)
          and match(f"{bits} % 8 or bitpos % 8", s.test) is not None]
    ok = len(al) == 1 and any(isinstance(x, ast.Raise) for x in al[0].body)
    chk.ob("R17.4", sym, "whole-byte entries must be byte aligned", ok, f,
           "otherwise RuntimeError")
    pp = repo.func(T + ".parse_pdos")
    ok = bool(find("parse(parse_sdo(7186), SyncManager.OUT)", pp)) and bool(
        find("parse(parse_sdo(7187), SyncManager.IN)", pp)) and bool(
        find("parse(parse_eeprom(self.eeprom[51]), SyncManager.OUT)", pp)
    ) and bool(find("parse(parse_eeprom(self.eeprom[50]), SyncManager.IN)",
                    pp))
    chk.ob("R17.4", T + ".parse_pdos", "outputs from 0x1c12 / category 51, "
           "inputs from 0x1c13 / category 50", ok, pp,
           "RxPDO assign -> sync manager 2, TxPDO assign -> sync manager 3")
    ps = repo.func(T + ".parse_pdos.parse_sdo")
    ok = bool(find("(bits, subidx, idx) = await self.sdo_read_format('<BBH', "
                   "pdo, j)", ps, mode="stmt")) and bool(find(
        "(yield (idx, subidx, bits))", ps))
    chk.ob("R17.4", T + ".parse_pdos.parse_sdo", "a mapping entry is bit "
           "length, subindex, index (little endian)", ok, ps,
           "0xIIIISSLL read as '<BBH'")

# added rules (appended to the explanation the evidence file carries)
EXPLANATION += (" " + "Added during the build (DESIGN.md 4.31, second table): read_eeprom / _eeprom_read_one and EtherCat.eeprom_read by abstract execution against a model of the SII interface (4/8-byte width, busy periods, stale data registers, histories: re-read, retry after a lost datagram); the whole parse_pdos from EEPROM and CoE sources; apply_eeprom's process-data sizes.")
EXPLANATION += (' Added after refactoring wave 6: (R17.2) the provenance of the returned data follows assignments that put it together from values read with a final status, without a call.')
EXPLANATION += (' Added after wave 10: (R17.4) has_mailbox() needs both mailbox sync managers (6 combinations).')
