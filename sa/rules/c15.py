"""C15 - mailbox exchanges with a terminal are serialised and counted."""
import ast

from .common import *

EXPLANATION = (
    "Decided: (R15.1) lock-held call graph: every call of Terminal.mbx_send "
    "/ mbx_recv and of next_counter lies inside an `async with "
    "self.mbx_lock` region, or in a function all of whose call sites do "
    "(fixpoint over the package, scripts and examples included); nothing "
    "that holds the lock calls something that takes it; (R15.2) every "
    "region that sends also receives inside the same region; (R15.3) the "
    "counter cycle of both lock classes, folded over 0..7: 0->1, ... 6->7, "
    "7->1, returning the pre-increment value, placed in bits 4-6 of the "
    "mailbox header; (R15.4) the cross-process section of "
    "ParallelMailboxLock: the counter is read only after the byte-range "
    "lock was obtained and written back before it is released, on every "
    "exit (also when the exchange failed), same fd/offset/length 1; "
    "(R15.5) in-process exclusion of the lock class; (R15.6) tolerance of "
    "the creation window of the shared file. R15.5/R15.6 are recorded "
    "findings. Declined: interleavings as such.")
ASSUMPTIONS = [
    "POSIX record locks (fcntl.lockf) never conflict within one process",
    "asyncio tasks interleave only at awaits",
]

T = "ebpfcat.ethercat.Terminal"
L = "ebpfcat.lock."


def is_lock_with(e):
    return (dotted(e) or "").endswith(".mbx_lock")


def run(chk, repo):
    chk.doc("R15.1", "lock held at every mailbox access (call graph)")
    chk.doc("R15.2", "request and response inside one locked region")
    chk.doc("R15.3", "counter cycle")
    chk.doc("R15.4", "cross-process critical section")
    chk.doc("R15.5", "in-process exclusion")
    chk.doc("R15.6", "creation window of the lock file")
    lock_graph(chk, repo)
    counter(chk, repo)
    section_all(chk, repo)
    inprocess(chk, repo)
    creation(chk, repo)
    counter_use(chk, repo)
    descriptors(chk, repo)
    lock_keying(chk, repo)
    chk.doc("R15.11", "locks and counters are per master / per terminal")
    per_instance_rule(chk, repo, "R15.11", ["ebpfcat.ethercat.EtherCat",
                                            "ebpfcat.ethercat.Terminal",
                                            "ebpfcat.lock.MailboxLock",
                                            "ebpfcat.lock.LockFile"],
                      "terminals of the same address on two buses share "
                      "one lock and one counter")
    from . import c23
    chk.doc("R15.9", "the shared counter file lives as long as any "
                     "participant (shared with C23)")
    c23.shared_files(chk, repo, "R15.9")


def lock_keying(chk, repo):
    """R15.12: the mailbox lock of a terminal is the lock of the address
    the terminal answers at: wherever initialize() / gentle_initialize()
    set self.position, they take the lock for that very address - on every
    path, also when the object had a lock before (another address, another
    counter slice in the shared lock file)"""
    chk.doc("R15.12", "the lock is re-taken for the address in use")
    T_ = "ebpfcat.ethercat.Terminal"
    for meth in ("initialize", "gentle_initialize"):
        f = repo.func(f"{T_}.{meth}")
        chk.analysed(f"{T_}.{meth}")
        cfg = CFG(f, raises="await")
        rd = ReachingDefs(cfg)
        pos = [n for n in cfg.nodes if n.kind == "stmt" and isinstance(
            n.stmt, ast.Assign) and any(is_self_attr(t, "position")
                                        for t in ast.walk(n.stmt)
                                        if isinstance(t, ast.Attribute)
                                        and isinstance(t.ctx, ast.Store))]
        locks = [n for n in cfg.nodes if n.kind == "stmt" and match_stmt(
            "self.mbx_lock = self.ec.get_mbx_lock($a)", n.stmt) is not None]
        delegates = [n for n in cfg.nodes if n.kind == "return" and
                     n.expr is not None and find("self.initialize($*a, $**k)",
                                                 n.expr)]
        if not delegates:
            delegates = [n for n in cfg.nodes if n.kind == "return" and
                         n.expr is not None and any(
                             isinstance(c, ast.Call) and isinstance(
                                 c.func, ast.Attribute) and c.func.attr ==
                             "initialize" for c in walk_expr(n.expr))]
        need(pos, f"{T_}.{meth}: no assignment of self.position")
        ok = bool(locks)
        why = "no `self.mbx_lock = self.ec.get_mbx_lock(...)`"
        if ok:
            # every path from the entry to a normal exit takes the lock (or
            # hands over to initialize(), which does)
            stop = locks + delegates
            ok = cfg.must_pass(cfg.entry, lambda n: n in stop,
                               targets=[cfg.exit])
            why = ("a path through the method leaves the lock it had"
                   if not ok else "taken on every path")
            if ok:
                for l in locks:
                    a = match_stmt("self.mbx_lock = self.ec.get_mbx_lock($a)",
                                   l.stmt)["a"]
                    if unparse(a) not in ("self.position", "absolute"):
                        ok, why = False, f"lock taken for `{unparse(a)}`"
        path = None
        if locks and not ok and "path" in why:
            w = cfg.witness_path(cfg.entry, lambda n: n in locks + delegates,
                                 targets=[cfg.exit])
            path = cfg.describe_path(w) if w else None
        chk.ob("R15.12", f"{T_}.{meth}", "the mailbox lock is taken for the "
               "terminal's address on every path", ok, locks[0].stmt if locks
               else f, why + ("" if ok else ": two users of the terminal "
                              "then serialise on different locks and count "
                              "in different slices"), path)


def descriptors(chk, repo):
    """R15.10: POSIX record locks belong to the process and are ALL dropped
    when the process closes ANY descriptor of the file.  LockFile objects
    are pickled around, so a process can hold several for one file: the
    descriptor may only be closed by an explicit close(), never as a side
    effect of an object going away."""
    chk.doc("R15.10", "lock file descriptors are closed explicitly only")
    bad = []
    n = 0
    for ci in repo.classes.values():
        if ci.module.name != "ebpfcat.lock":
            continue
        for name, f in ci.methods.items():
            if not isinstance(f, FUNC):
                continue
            n += 1
            closes = [c for c in calls_in(f) if dotted(c.func) == "os.close"
                      or (isinstance(c.func, ast.Attribute)
                          and c.func.attr == "close"
                          and unparse(c.func.value) == "self")]
            if closes and name in ("__del__", "__exit__", "__aexit__",
                                   "__setstate__", "__getstate__",
                                   "__reduce__"):
                bad.append((closes[0], f"{ci.qualname}.{name}"))
    chk.floor("R15.10", "methods of the lock classes", n, 8)
    chk.ob("R15.10", "ebpfcat.lock", "no lock class closes its descriptor "
           "implicitly", not bad, bad[0][0] if bad else None,
           (f"{bad[0][1]} closes the descriptor: when one of several "
            f"LockFile objects of a process is collected, the byte-range "
            f"locks held through the others vanish and another process "
            f"enters a mailbox exchange that is still running") if bad else
           f"{n} methods: close() and remove() only")


def counter_use(chk, repo):
    """R15.8: a counter value is taken for exactly the message that is
    written: nothing that can fail or be cancelled lies between
    next_counter() and the mailbox write that carries it"""
    chk.doc("R15.8", "next_counter() is consumed by the write of the same "
                     "message")
    sym = "ebpfcat.ethercat.Terminal.mbx_send"
    f = repo.func(sym)
    cfg = CFG(f, raises="await")
    ncs = [n for n in cfg.nodes if n.expr is not None and n.kind != "with_exit"
           and find("$l.next_counter()", n.expr)]
    need(len(ncs) == 1, f"{sym}: expected one use of next_counter()")
    nc = ncs[0]
    wr = [n for n in cfg.nodes if n.expr is not None and find(
        "self.write(self.mbx_out_off, $*a, $**)", n.expr)]
    need(wr, f"{sym}: the mailbox write was not found")
    w = wr[0]
    between = []
    if nc is not w:
        for n in cfg.reach_edges(nc, lambda a, b, lab: a is not w):
            if n is w or n is nc or n.expr is None:
                continue
            if any(isinstance(x, ast.Await) for x in walk_expr(n.expr)):
                between.append(n)
    chk.ob("R15.8", sym, "no await between next_counter() and the mailbox "
           "write", not between, between[0].expr if between else nc.expr,
           f"`{unparse(between[0].expr)[:50]}` can fail (working counter 0) "
           f"or be cancelled after the counter was advanced: the exchange "
           f"never sends a message with that value and the next mail skips "
           f"it" if between else "the counter is taken in the argument list "
           "of the write itself")


def lock_graph(chk, repo):
    targets = {"mbx_send", "mbx_recv"}
    mods = list(repo.production_modules())
    # all call sites by attribute name (x.mbx_send(...))
    sites = {}
    for m in mods:
        for c in ast.walk(m.tree):
            if isinstance(c, ast.Call) and isinstance(c.func, ast.Attribute):
                sites.setdefault(c.func.attr, []).append(c)
    status = {}

    def site_ok(c, depth=0):
        """is this call made with the mailbox lock held?"""
        if in_with_region(c, is_lock_with) is not None:
            return True, "inside `async with mbx_lock`"
        f = repo.enclosing_function(c)
        while f is not None and isinstance(f, ast.Lambda):
            f = repo.enclosing_function(f)
        if f is None:
            return False, "module level"
        ci = repo.enclosing_class(f)
        if ci is None or not (repo.is_subclass(ci, T)):
            return False, f"in {repo.qualname_of(f)}, without the lock"
        name = f.name
        key = repo.qualname_of(f)
        if key in status:
            return status[key]
        status[key] = (True, "recursive")   # optimistic for cycles
        callers = [x for x in sites.get(name, []) if x is not c]
        if not callers or depth > 6:
            status[key] = (False, f"in {key}, which is not itself called "
                                  f"under the lock")
            return status[key]
        bad = []
        for x in callers:
            okx, why = site_ok(x, depth + 1)
            if not okx:
                bad.append(f"{repo.where(x)} ({why})")
        status[key] = (not bad, f"in {key}; called without the lock from "
                                f"{bad[0]}" if bad else
                       f"in {key}, all of whose callers hold the lock")
        return status[key]
    n = 0
    for name in sorted(targets):
        for c in sites.get(name, []):
            n += 1
            ok, why = site_ok(c)
            chk.ob("R15.1", func_qual(repo, c), f"`{unparse(c)[:45]}` with "
                   f"the mailbox lock held", ok, c, why + (
                       "" if ok else ": another task's exchange can be "
                       "interleaved with this one and the answers mixed up"))
    chk.stats["call_sites"] = n
    chk.floor("R15.1", "mbx_send/mbx_recv call sites", n, 12)
    def in_test(c):
        ci = repo.enclosing_class(c)
        f = repo.enclosing_function(c)
        while ci is None and f is not None:
            ci = repo.enclosing_class(f)
            f = repo.enclosing_function(f)
        return ci is not None and any(
            isinstance(b, str) and b.endswith("TestCase")
            for b in repo.mro(ci))
    ncs = [c for c in sites.get("next_counter", []) if not in_test(c)]
    chk.floor("R15.1", "next_counter call sites", len(ncs), 1)
    for c in ncs:
        ok, why = site_ok(c)
        chk.ob("R15.1", func_qual(repo, c), "next_counter with the lock held",
               ok, c, why)
    # non-reentrancy and R15.2
    regions = []
    for m in mods:
        for w in ast.walk(m.tree):
            if isinstance(w, ast.AsyncWith) and any(
                    is_lock_with(it.context_expr) for it in w.items):
                regions.append(w)
    chk.floor("R15.2", "locked regions", len(regions), 4)
    takers = {repo.enclosing_function(w).name for w in regions}
    for w in regions:
        sym = func_qual(repo, w)
        inner = [c for s in w.body for c in ast.walk(s) if isinstance(
            c, ast.Call) and isinstance(c.func, ast.Attribute)
            and c.func.attr in takers and dotted(c.func.value) == "self"]
        chk.ob("R15.1", sym, "no lock-taking method is called while the lock "
               "is held", not inner, w, f"calls "
               f"{[unparse(c)[:30] for c in inner]}: asyncio.Lock is not "
               f"re-entrant" if inner else "non-reentrant use")
        sends = [c for s in w.body for c in ast.walk(s) if isinstance(
            c, ast.Call) and isinstance(c.func, ast.Attribute)
            and c.func.attr == "mbx_send"]
        recvs = [c for s in w.body for c in ast.walk(s) if isinstance(
            c, ast.Call) and isinstance(c.func, ast.Attribute)
            and c.func.attr == "mbx_recv"]
        if sends:
            ok = bool(recvs) and min(r.lineno for r in recvs) >= min(
                s.lineno for s in sends)
            chk.ob("R15.2", sym, "the response is received in the region "
                   "that sent the request", ok, w,
                   f"{len(sends)} send(s), {len(recvs)} receive(s) in this "
                   f"region")


def counter(chk, repo):
    for cname in ("MailboxLock", "ParallelMailboxLock"):
        ci = repo.cls(L + cname)
        f = ci.methods.get("next_counter")
        need(f is not None, f"{cname}.next_counter vanished")
        chk.analysed(ci.qualname + ".next_counter")
        ev = Evaluator(repo, ci.module, ci)
        fails = []
        for c in range(8):
            me = Obj(ci, {"counter": c, "locked": ("hook", lambda: True)})
            try:
                r = ev.call_function(f, [me], cls=ci)
            except (Raised, Unknown) as e:
                fails.append(f"{c}: {e}")
                continue
            nxt = me.fields.get("counter")
            want = c + 1 if c < 7 else 1
            if r != c or nxt != want:
                fails.append(f"counter {c}: returns {r}, next {nxt} "
                             f"(expected {c}, {want})")
        chk.ob("R15.3", ci.qualname + ".next_counter", "cycle 0,1,..,7,1,.. "
               "returning the pre-increment value (8 rows)", not fails, f,
               "; ".join(fails[:3]) or "0->1 ... 6->7, 7->1; 0 is used once")
    ms = repo.func(T + ".mbx_send")
    ok = bool(find("type.value | self.mbx_lock.next_counter() << 4", ms))
    chk.ob("R15.3", T + ".mbx_send", "counter in bits 4-6 of the header "
           "byte", ok, ms, "type | (counter << 4)")
    mk = repo.func(L + "MailboxLock.__init__")
    ok = bool(find("self.counter = 0", mk, mode="stmt"))
    chk.ob("R15.3", L + "MailboxLock.__init__", "counting starts at 0", ok,
           mk, "first message after start carries counter 0")


def section(chk, repo):
    ci = repo.cls(L + "ParallelMailboxLock")
    en = ci.methods.get("__aenter__")
    ex = ci.methods.get("__aexit__")
    need(en is not None and ex is not None, "ParallelMailboxLock context "
                                            "methods vanished")
    chk.analysed(ci.qualname + ".__aenter__", ci.qualname + ".__aexit__")
    cfg = CFG(en, raises="call")
    def lockcalls(n, flag):
        if n.expr is None:
            return []
        return [c for c, b in find("fcntl.lockf($fd, $flags, $*rest)", n.expr)
                if flag in unparse(b["flags"])]
    locks = [n for n in cfg.nodes if lockcalls(n, "LOCK_EX")]
    reads = [n for n in cfg.nodes if n.expr is not None and find(
        "os.pread($fd, $*rest)", n.expr)]
    need(locks and reads, "ParallelMailboxLock.__aenter__: lockf/pread not "
                          "found")
    for n in locks:
        c = lockcalls(n, "LOCK_EX")[0]
        ok_ = len(c.args) == 4 and int_const(c.args[2]) == 1 and unparse(
            c.args[3]) == "self.no"
        chk.ob("R15.4", ci.qualname + ".__aenter__", "locks one byte at the "
               "terminal's offset", ok_, c, "lockf(fd, LOCK_EX, 1, self.no)")
    for n in reads:
        c = find("os.pread($fd, $*rest)", n.expr)[0][0]
        ok_ = len(c.args) == 3 and int_const(c.args[1]) == 1 and unparse(
            c.args[2]) == "self.no"
        chk.ob("R15.4", ci.qualname + ".__aenter__", "reads one byte at the "
               "terminal's offset", ok_, c, "pread(fd, 1, self.no)")
    ok = True
    for r in reads:
        # reachable from the entry without passing the lock's success edge?
        lids = {n.id for n in locks}
        reach = reach_flagged(cfg, en, cfg.entry, lambda a, b, lab: not (
            a.id in lids and lab != "exc"))
        if r in reach:
            ok = False
    chk.ob("R15.4", ci.qualname + ".__aenter__", "the counter is read only "
           "after the byte-range lock was obtained", ok, reads[0].stmt,
           "a counter read before the lock can be stale: another process "
           "completes an exchange in between and the same counter is sent "
           "twice")
    cfg2 = CFG(ex)
    wr = [n for n in cfg2.nodes if n.expr is not None and find(
        "os.pwrite($fd, bytes((self.counter,)), self.no)", n.expr)]
    def unlocks(n):
        if n.expr is None:
            return []
        return [c for c, b in find("fcntl.lockf($fd, $flags, $*rest)", n.expr)
                if "LOCK_UN" in unparse(b["flags"])]
    un = [n for n in cfg2.nodes if unlocks(n)]
    need(wr and un, "ParallelMailboxLock.__aexit__: pwrite/unlock not found")
    lock_args = [tuple(unparse(a) for a in lockcalls(n, "LOCK_EX")[0].args[2:])
                 for n in locks]
    for n in un:
        c = unlocks(n)[0]
        rng = tuple(unparse(a) for a in c.args[2:])
        chk.ob("R15.4", ci.qualname + ".__aexit__", "releases exactly the "
               "byte range it locked", all(rng == la for la in lock_args), c,
               f"locked range {lock_args}, released range {rng or '(whole file)'}"
               f": releasing more drops the locks this process holds for "
               f"*other* terminals whose exchange is still in flight (POSIX "
               f"record locks are per process), and another process then "
               f"enters and repeats their counter")
    okw = cfg2.must_pass(cfg2.entry, lambda n: n in wr, targets=[cfg2.exit])
    oku = cfg2.must_pass(cfg2.entry, lambda n: n in un, targets=[cfg2.exit])
    chk.ob("R15.4", ci.qualname + ".__aexit__", "the counter is written back "
           "on every exit", okw, wr[0].stmt,
           "also when the exchange failed: the request has already been "
           "sent with that counter, so the next message must not repeat it")
    chk.ob("R15.4", ci.qualname + ".__aexit__", "the lock is released on "
           "every exit", oku, un[0].stmt, "LOCK_UN of the same byte")
    chk.ob("R15.4", ci.qualname + ".__aexit__", "write-back precedes the "
           "release", all(cfg2.dominates(w, u) for w in wr for u in un),
           un[0].stmt, "pwrite, then LOCK_UN")
    init = ci.methods.get("__init__")
    ok = init is not None and bool(find(
        "self.no = no - self.lock_file.minimum", init, mode="stmt"))
    chk.ob("R15.4", ci.qualname + ".__init__", "one byte per terminal "
           "address", ok, init or ci.node, "offset = address - minimum")


def section_all(chk, repo):
    if section_exec(chk, repo):
        try:
            section(chk, repo)      # the same, statement by statement
        except AnalysisError as e:
            chk.notes.append(f"R15.4: statement-level rules skipped, the "
                             f"class was decided by abstract execution "
                             f"({e})")
    else:
        section(chk, repo)


class _LockFileModel:
    """the lock file as the kernel sees it: its bytes, the byte ranges this
    process holds (POSIX record locks are per process: unlocking a range
    drops it whoever of the process's tasks took it) and the ranges another
    process holds for the first `busy` attempts"""

    def __init__(self, content, foreign=(), busy=0):
        self.data = bytearray(content)
        self.held = set()
        self.foreign, self.busy = set(foreign), busy
        self.log = []
        self.slept = 0

    def _range(self, length, start):
        return set(range(start, len(self.data) if not length
                         else start + length))

    def lockf(self, fd, flags, length=0, start=0, whence=0):
        rng = self._range(length, start)
        self.log.append(("lockf", flags, length, start))
        if flags & 8:                       # LOCK_UN
            self.held -= rng
            return None
        if rng & self.foreign and self.busy > 0:
            self.busy -= 1
            if flags & 4:                   # LOCK_NB
                raise Raised("OSError: [Errno 11] temporarily unavailable")
            raise Budget("blocks in lockf while another process holds the "
                         "byte: the event loop of this process stands still")
        self.held |= rng
        return None

    def pread(self, fd, n, off):
        self.log.append(("pread", n, off, frozenset(self.held)))
        return bytes(self.data[off:off + n])

    def pwrite(self, fd, data, off):
        self.log.append(("pwrite", bytes(data), off, frozenset(self.held)))
        self.data[off:off + len(data)] = data
        return len(data)

    def funcs(self):
        def sleep(*a):
            self.slept += 1
        return {"fcntl": Obj(None, {
                    "lockf": ("hook", self.lockf), "LOCK_EX": 2,
                    "LOCK_NB": 4, "LOCK_UN": 8, "LOCK_SH": 1}),
                "os": Obj(None, {"pread": ("hook", self.pread),
                                 "pwrite": ("hook", self.pwrite)}),
                "sleep": ("hook", sleep)}


def section_exec(chk, repo):
    """ParallelMailboxLock by abstract execution against a model of the
    lock file: which byte is locked, read, written back and released, for
    one lock, for two locks of one process whose exchanges overlap, under
    contention, and for a lock that travelled to another process.  False
    when the class cannot be evaluated."""
    ci = repo.cls(L + "ParallelMailboxLock")
    lf = repo.cls(L + "LockFile")
    en, ex = ci.methods.get("__aenter__"), ci.methods.get("__aexit__")
    if en is None or ex is None:
        return False
    bad = []
    runs = 0

    def mk(model, station):
        ev = Evaluator(repo, ci.module, ci, funcs=model.funcs())
        lockfile = Obj(lf, {"fd": 9, "minimum": 1000, "maximum": 1064,
                            "filename": "/run/x/mbx"})
        return ev, ev.construct(ci, [lockfile, station], {})
    try:
        for station in (1000, 1003, 1063):
            off = station - 1000
            for busy in (0, 2):
                runs += 1
                content = bytes((i * 3 + 1) % 8 for i in range(64))
                m = _LockFileModel(content, foreign={off}, busy=busy)
                ev, lk = mk(m, station)
                tag = f"terminal {station}" + (
                    f", byte held by another process for {busy} attempts"
                    if busy else "")
                ev.call_function(en, [lk], cls=ci)
                if m.held != {off}:
                    bad.append(f"{tag}: after entering, bytes "
                               f"{sorted(m.held)} are locked, expected "
                               f"[{off}]")
                    continue
                if busy and m.slept < busy:
                    bad.append(f"{tag}: retries without yielding to the "
                               f"event loop")
                    continue
                pr = [e for e in m.log if e[0] == "pread"]
                if len(pr) != 1 or pr[0][1:3] != (1, off) or off not in \
                        pr[0][3]:
                    bad.append(f"{tag}: counter read {pr}, expected one "
                               f"byte at {off} under the lock")
                    continue
                first = ev.call(ev.getattr(lk, "next_counter"), [])
                if first != content[off]:
                    bad.append(f"{tag}: first counter {first!r}, the file "
                               f"says {content[off]}")
                    continue
                nxt = ev.getattr(lk, "counter")
                ev.call_function(ex, [lk, None, None, None], cls=ci)
                pw = [e for e in m.log if e[0] == "pwrite"]
                if len(pw) != 1 or pw[0][1:3] != (bytes((nxt,)), off) or \
                        off not in pw[0][3]:
                    bad.append(f"{tag}: write-back {pw}, expected "
                               f"{bytes((nxt,))!r} at {off} under the lock")
                elif m.held:
                    bad.append(f"{tag}: bytes {sorted(m.held)} still locked "
                               f"after leaving")
        # two terminals of one process, exchanges overlapping both ways
        for a, b in ((1003, 1007), (1007, 1003), (1000, 1063)):
            runs += 1
            m = _LockFileModel(bytes(64))
            ev, la = mk(m, a)
            lb = ev.construct(ci, [ev.getattr(la, "lock_file"), b], {})
            ev.call_function(en, [la], cls=ci)
            ev.call_function(en, [lb], cls=ci)
            ev.call_function(ex, [lb, None, None, None], cls=ci)
            if m.held != {a - 1000}:
                bad.append(f"terminals {a} and {b} of one process: leaving "
                           f"{b}'s exchange leaves bytes {sorted(m.held)} "
                           f"locked, expected [{a - 1000}] - {a}'s exchange "
                           f"is still in flight and another process can "
                           f"enter it now")
            ev.call_function(ex, [la, None, None, None], cls=ci)
        # a lock that was sent to another process
        for station in (1005, 1063):
            runs += 1
            m = _LockFileModel(bytes(64))
            ev, lk = mk(m, station)
            red = None
            for nm in ("__reduce_ex__", "__reduce__"):
                if repo.lookup(ci, nm)[1] is not None:
                    red = ev.call(ev.getattr(lk, nm), [4] if nm.endswith(
                        "ex__") else [])
                    break
            if red is None and repo.lookup(ci, "__getstate__")[1] is not \
                    None:
                # the default __reduce_ex__: a bare instance, then the
                # state
                state = ev.call(ev.getattr(lk, "__getstate__"), [])
                copy = Obj(ci, {})
                if repo.lookup(ci, "__setstate__")[1] is not None:
                    ev.call(ev.getattr(copy, "__setstate__"), [state])
                elif isinstance(state, dict):
                    copy.fields.update(state)
                else:
                    raise Unknown("__getstate__ without __setstate__")
                if ev.getattr(copy, "no") != ev.getattr(lk, "no"):
                    bad.append(f"terminal {station}: the copy of the lock "
                               f"that arrives in another process uses byte "
                               f"{ev.getattr(copy, 'no')}, the original "
                               f"byte {ev.getattr(lk, 'no')}")
                continue
            if red is None:
                continue
            if not isinstance(red, tuple) or len(red) < 2:
                raise Unknown("__reduce__ result")
            copy = ev.call(red[0], list(red[1]))
            if len(red) > 2 and red[2] is not None:
                st = repo.lookup(ci, "__setstate__")[1]
                if st is not None:
                    ev.call(ev.getattr(copy, "__setstate__"), [red[2]])
                elif isinstance(red[2], dict):
                    copy.fields.update(red[2])
            if ev.getattr(copy, "no") != ev.getattr(lk, "no"):
                bad.append(f"terminal {station}: the copy of the lock that "
                           f"arrives in another process uses byte "
                           f"{ev.getattr(copy, 'no')}, the original byte "
                           f"{ev.getattr(lk, 'no')}")
    except Budget as e:
        bad.append(f"does not end: {e}")
    except Unknown:
        return False
    except Raised as e:
        bad.append(f"raises {e.what[:60]}")
    chk.ob("R15.4", ci.qualname, f"the lock of a terminal is one byte of "
           f"the lock file at the terminal's offset: locked (yielding to "
           f"the event loop while it is taken), the counter read and "
           f"written back under it, exactly that byte released - also with "
           f"a second exchange of the same process in flight and for a "
           f"lock sent to another process ({runs} runs against a model of "
           f"the lock file, by abstract execution)", not bad, en,
           "; ".join(bad[:2]) or "lockf(fd, LOCK_EX | LOCK_NB, 1, no) ... "
           "pread ... pwrite, lockf(fd, LOCK_UN, 1, no)")
    return True


def inprocess(chk, repo):
    ci = repo.cls(L + "ParallelMailboxLock")
    en = ci.methods["__aenter__"]
    uses_async_lock = any(
        isinstance(n, ast.Call) and (dotted(n.func) or "").split(".")[-1] in (
            "Lock", "acquire") for n in ast.walk(ci.node)) or any(
        repo.is_subclass(ci, q) for q in ("asyncio.Lock", "Lock"))
    flag = any(isinstance(n, ast.Attribute) and n.attr in (
        "_locked", "locked", "_held") for n in ast.walk(en))
    ok = uses_async_lock or flag
    chk.ob("R15.5", ci.qualname + ".__aenter__", "excludes two tasks of one "
           "process", ok, en,
           "__aenter__ relies on fcntl.lockf alone; record locks never "
           "conflict within a process, so two tasks of one process both "
           "enter, share one counter attribute and interleave their "
           "exchanges" if not ok else "an in-process lock is taken as well")
    ml = repo.cls(L + "MailboxLock")
    ok = any(b == "Lock" or (isinstance(b, str) and b.endswith("Lock"))
             for b in repo.bases(ml))
    chk.ob("R15.5", ml.qualname, "the single-process lock is an asyncio.Lock",
           ok, ml.node, "MailboxLock(Lock)")


def creation(chk, repo):
    ci = repo.cls(L + "ParallelMailboxLock")
    en = ci.methods["__aenter__"]
    rd = [s for s in walk_no_nested(en) if isinstance(s, ast.Assign)
          and find("os.pread($*a)", s.value)]
    need(len(rd) == 1, "ParallelMailboxLock.__aenter__: pread assignment "
                       "not found")
    unpack = isinstance(rd[0].targets[0], ast.Tuple)
    checked = any(isinstance(n, ast.Call) and dotted(n.func) == "len"
                  for n in ast.walk(en))
    ok = not unpack or checked
    chk.ob("R15.6", ci.qualname + ".__aenter__", "a short read of the "
           "counter file is handled", ok, rd[0],
           "`self.counter, = os.pread(...)`: a participant that opens the "
           "lock file between its exclusive creation and the creator's "
           "sizing write reads b'' and fails with ValueError (the sibling "
           "FMMULock checks the length of what it read)" if not ok else
           "length checked")
    lf = repo.func(L + "LockFile.__init__")
    lfc = repo.cls(L + "LockFile")
    ok = None
    try:
        # by abstract execution: the first opener creates the file
        # exclusively and fills it with one zero byte per address, a later
        # one opens it without creating or writing
        import os as _os
        res = []
        for exists in (False, True):
            log = []

            def os_open(path, flags, *a, _e=exists, _l=log):
                _l.append(("open", path, flags))
                if flags & _os.O_CREAT and flags & _os.O_EXCL and _e:
                    raise Raised("FileExistsError: exists")
                return 9
            os_ = Obj(None, {
                "open": ("hook", os_open),
                "write": ("hook", lambda fd, d, _l=log: _l.append(
                    ("write", fd, bytes(d)))),
                "makedirs": ("hook", lambda *a, **k: None),
                "O_CREAT": _os.O_CREAT, "O_RDWR": _os.O_RDWR,
                "O_EXCL": _os.O_EXCL, "O_CLOEXEC": _os.O_CLOEXEC})
            me_ = Obj(lfc, {})
            Evaluator(repo, lfc.module, lfc, funcs={"os": os_}).call_function(
                lf, [me_, "/run/x/mbx", 1000, 1064], cls=lfc)
            res.append((log, me_.fields.get("fd")))
        (l0, fd0), (l1, fd1) = res
        excl = _os.O_CREAT | _os.O_EXCL
        ok = fd0 == 9 and fd1 == 9 and len(l0) == 2 and l0[0][0] == "open" \
            and l0[0][2] & excl == excl and l0[0][2] & _os.O_RDWR \
            and l0[1] == ("write", 9, bytes(64)) \
            and [e[0] for e in l1] == ["open", "open"] \
            and l1[0][2] & excl == excl and not l1[1][2] & _os.O_CREAT \
            and l1[1][2] & _os.O_RDWR
    except (Unknown, Raised):
        ok = None
    if ok is None:
        ok = bool(find("os.open(self.filename, os.O_CREAT | os.O_RDWR | "
                       "os.O_EXCL | os.O_CLOEXEC)", lf)) and bool(find(
            "os.write(self.fd, bytes(maximum - minimum))", lf))
    chk.ob("R15.6", L + "LockFile.__init__", "the creator (O_EXCL) sizes the "
           "file with one zero byte per address", ok, lf,
           "exclusive creation, then bytes(maximum - minimum)")
    chk.note("R15.7 (informational): terminal addresses are drawn with "
             "randint(*terminal_addr_range), inclusive, but the lock file "
             "covers minimum <= no < maximum: address 30000 fails the "
             "assertion in ParallelMailboxLock.__init__")
EXPLANATION += (" Added after wave 9: ParallelMailboxLock is decided by abstract execution against a model of the lock file (its bytes, the record locks this process holds, a byte held by another process for some attempts): one byte at the terminal's offset is locked, read, written back and released; a second exchange of the same process keeps its byte; a lock sent to another process (__reduce__) addresses the same byte. The statement-level rules remain as a second opinion where the statements are recognised.")
EXPLANATION += (' Added after wave 10: a lock copied through __getstate__/__setstate__ addresses the same byte; LockFile.__init__ by abstract execution (creator and joiner).')
