"""C04 - writing one variable never changes another."""
import ast

from .common import *
from . import ebpfshared as sh
from . import c08

EXPLANATION = (
    "Decided: the stack watermark discipline and the identity of hash-map "
    "cells. (R04.1) every piece of code that carves r10-relative storage "
    "from the `stack` watermark (LocalVar.__set_name__, Dict.__set_name__, "
    "EBPF.get_stack), folded over start values and sizes, hands out a "
    "region that lies between the new and the old watermark, aligned and "
    "disjoint from its sibling; an offset derived from a watermark that "
    "nobody lowers (the SubProgram branch of LocalVar.fmt_addr) is a "
    "finding; (R04.2) a get_stack temporary is used, and its address "
    "handed out, only inside its with block; (R04.4) hash-map cells: the "
    "variable counter is advanced before it is handed out, the map is "
    "created with that many entries, per-map bookkeeping is per instance "
    "(no mutable class attribute shared by all maps), program side and "
    "Python side address a cell by the descriptor's own count; (R04.5) "
    "save_registers parks values in free registers, not in memory. "
    "(R08.1-R08.3, shared with C08) array-map cells: one layout source, "
    "the slot reserved is the size accessed, one slot per visible name. "
    "Declined: aliasing through computed addresses (mI[r10 + expr]).")
ASSUMPTIONS = [
    "r10-relative storage is only handed out through the `stack` watermark",
]

E = "ebpfcat.ebpf."
H = "ebpfcat.hashmap."


def run(chk, repo):
    chk.doc("R04.1", "stack watermark discipline")
    chk.doc("R04.2", "temporaries live inside their with block")
    chk.doc("R04.4", "hash-map cell identity")
    chk.doc("R04.5", "save_registers keeps values in registers")
    sh.watermark_rules(chk, repo, "R04.1")
    subprogram_locals(chk, repo)
    sh.slot_escape_rule(chk, repo, "R04.2")
    hash_cells(chk, repo)
    save_regs(chk, repo)
    # array-map cells are variables too: the layout rules of C08 are
    # necessary conditions of this property as well
    chk.doc("R08.1", "array map: single source of layout")
    chk.doc("R08.2", "array map: reservation = access size")
    chk.doc("R08.3", "array map: one slot per visible variable")
    c08.layout(chk, repo)
    c08.dedup(chk, repo)


def subprogram_locals(chk, repo):
    sym = E + "LocalVar.fmt_addr"
    f = repo.func(sym)
    chk.analysed(sym)
    reads = [n for n in walk_no_nested(f) if isinstance(n, ast.Attribute)
             and n.attr == "stack" and isinstance(n.ctx, ast.Load)]
    lowers = [s for s in walk_no_nested(f) if isinstance(
        s, (ast.Assign, ast.AugAssign)) and "stack" in unparse(
            s.targets[0] if isinstance(s, ast.Assign) else s.target)]
    ok = not reads or bool(lowers)
    chk.ob("R04.1", sym, "subprogram locals are carved from the program's "
           "watermark", ok, reads[0] if reads else f,
           "the locals of a SubProgram are placed at (program.stack & -8) + "
           "their class-relative offset, below a watermark that nothing "
           "lowers: two subprograms' locals and every get_stack temporary "
           "(hash-map keys) share the same bytes" if not ok else
           "no offset is derived from an unreserved watermark")


def hash_cells(chk, repo):
    hm = repo.cls(H + "HashMap")
    gv = hm.methods.get("globalVar")
    need(gv is not None, "HashMap.globalVar vanished")
    chk.analysed(hm.qualname + ".globalVar")
    cfg = CFG(gv)
    inc = [n for n in cfg.nodes if n.kind == "stmt" and isinstance(
        n.stmt, ast.AugAssign) and unparse(n.stmt.target) == "self.count"
        and int_const(n.stmt.value) == 1]
    use = [n for n in cfg.nodes if n.expr is not None and find(
        "HashGlobalVarDesc(self.count, $*a)", n.expr)]
    ok = len(inc) == 1 and len(use) == 1 and cfg.dominates(inc[0], use[0]) \
        and inc[0] is not use[0]
    chk.ob("R04.4", hm.qualname + ".globalVar", "a fresh count per variable",
           ok, gv, "the counter is advanced before it is handed to the "
           "descriptor, so no two variables of a map share a key")
    init = hm.methods.get("init")
    ok = init is not None and bool(find(
        "create_map(MapType.HASH, 1, 8, self.count)", init))
    chk.ob("R04.4", hm.qualname + ".init", "map has one entry per variable",
           ok, init or hm.node, "max_entries = count, key 1 byte, value 8")
    # per-map bookkeeping must be per instance
    n = 0
    for ci in repo.classes.values():
        if ci.module.name not in ("ebpfcat.hashmap", "ebpfcat.arraymap"):
            continue
        for name, v in ci.attrs.items():
            mutable = isinstance(v, (ast.List, ast.Dict, ast.Set)) or (
                isinstance(v, ast.Call) and dotted(v.func) in (
                    "list", "dict", "set"))
            if not mutable:
                continue
            mutated = any(
                isinstance(c, ast.Call) and isinstance(
                    c.func, ast.Attribute) and c.func.attr in (
                        "append", "add", "extend", "update", "insert")
                and unparse(c.func.value) == f"self.{name}"
                for m in ci.methods.values() for c in ast.walk(m))
            rebound = any(assigned_values(m, f"self.{name}")
                          for nm, m in ci.methods.items()
                          if nm == "__init__")
            n += 1
            chk.ob("R04.4", ci.qualname, f"`{name}` is not a mutable class "
                   f"attribute shared by all instances",
                   not mutated or rebound, ci.attr_stmts[name],
                   f"`{name} = {unparse(v)}` in the class body is one "
                   f"object for every map; two maps then overwrite each "
                   f"other's bookkeeping (all variables get the last map's "
                   f"file descriptor)")
    vs = assigned_values(hm.methods["__init__"], "self.vars") \
        if "__init__" in hm.methods else []
    chk.ob("R04.4", hm.qualname, "the variable list is created per map",
           len(vs) == 1 and isinstance(vs[0][1], ast.List), hm.node,
           "self.vars = [] in __init__")
    # both sides address the cell by the descriptor's own count
    ga = repo.func(H + "HashGlobalVar.get_address")
    ok = bool(find("self.ebpf.append(Opcode.ST, 10, 0, stack, self.count)",
                   ga))
    chk.ob("R04.4", H + "HashGlobalVar.get_address", "program-side key is "
           "the variable's own count", ok, ga, "ST [r10+slot] = count")
    ds = repo.cls(H + "HashGlobalVarDesc")
    st = ds.methods.get("__set__")
    ok = st is not None and bool(find(
        "ebpf.append(Opcode.ST, 10, 0, stack, self.count)", st)) and bool(
            find("pack('B', self.count)", st))
    chk.ob("R04.4", ds.qualname + ".__set__", "both store paths use the "
           "descriptor's count as key", ok, st or ds.node,
           "program side and Python side")
    gt = ds.methods.get("__get__")
    ok = gt is not None and bool(find("pack('B', self.count)", gt)) and bool(
        find("HashGlobalVar(instance, self.count, self.fmt)", gt))
    chk.ob("R04.4", ds.qualname + ".__get__", "both load paths use the "
           "descriptor's count as key", ok, gt or ds.node,
           "program side and Python side")
    # init hands every variable of this map the map's fd
    ok = init is not None and any(
        isinstance(s, ast.For) and match("self.vars", s.iter) is not None
        and bool(find("getattr(ebpf, v.name).fd = fd", s, mode="stmt"))
        for s in walk_no_nested(init))
    chk.ob("R04.4", hm.qualname + ".init", "each variable gets its own "
           "map's file descriptor", ok, init or hm.node,
           "for v in self.vars: ....fd = fd")


def save_regs(chk, repo):
    sym = E + "EBPF.save_registers"
    f = repo.func(sym)
    chk.analysed(sym)
    tmp = find("exitStack.enter_context(self.get_free_register(None))", f)
    mv = find("self.append(Opcode.MOV + Opcode.LONG + Opcode.REG, $a, $b, 0,"
              " 0)", f)
    ys0 = [y for y in walk_no_nested(f) if isinstance(y, ast.Yield)]
    yl = ys0[0].lineno if ys0 else 0
    sv = [(c, b) for c, b in mv if c.lineno < yl]
    rs = [(c, b) for c, b in mv if c.lineno > yl]
    ok = len(tmp) == 1 and len(sv) == 1 and len(rs) == 1 and \
        unparse(sv[0][1]["a"]) == unparse(rs[0][1]["b"]) and \
        unparse(sv[0][1]["b"]) == unparse(rs[0][1]["a"])
    if ok:
        # the scratch register is the one obtained from get_free_register
        st = stmt_of(tmp[0][0])
        ok = isinstance(st, ast.Assign) and unparse(st.targets[0]) == \
            unparse(sv[0][1]["a"])
    chk.ob("R04.5", sym, "saved values are parked in free registers and "
           "moved back", ok, f, "64-bit register moves to and from a "
           "register obtained from get_free_register; no stack slot is "
           "involved")
    ys = [y for y in walk_no_nested(f) if isinstance(y, ast.Yield)]
    ok = len(ys) == 1 and sv and rs and sv[0][0].lineno < ys[0].lineno < \
        rs[0][0].lineno and in_with_region(
            ys[0], lambda e: match("ExitStack()", e) is not None) is not None
    chk.ob("R04.5", sym, "save before, restore after the body, scratch "
           "registers held in between", bool(ok), f,
           "the yield lies between save and restore inside the ExitStack "
           "that owns the scratch registers")
