"""C04 - writing one variable never changes another."""
import ast

from .common import *
from . import ebpfshared as sh
from . import c08

EXPLANATION = (
    "Decided: the stack watermark discipline and the identity of hash-map "
    "cells. (R04.1) every piece of code that carves r10-relative storage "
    "from the `stack` watermark (LocalVar.__set_name__, Dict.__set_name__, "
    "EBPF.get_stack), folded over start values and sizes, hands out a "
    "region that lies between the new and the old watermark, aligned and "
    "disjoint from its sibling; an offset derived from a watermark that "
    "nobody lowers (the SubProgram branch of LocalVar.fmt_addr) is a "
    "finding; (R04.2) a get_stack temporary is used, and its address "
    "handed out, only inside its with block; (R04.4) hash-map cells: the "
    "variable counter is advanced before it is handed out, the map is "
    "created with that many entries, per-map bookkeeping is per instance "
    "(no mutable class attribute shared by all maps), program side and "
    "Python side address a cell by the descriptor's own count; (R04.5) "
    "save_registers parks values in free registers, not in memory. "
    "(R08.1-R08.3, shared with C08) array-map cells: one layout source, "
    "the slot reserved is the size accessed, one slot per visible name. "
    "Declined: aliasing through computed addresses (mI[r10 + expr]).")
ASSUMPTIONS = [
    "r10-relative storage is only handed out through the `stack` watermark",
]

E = "ebpfcat.ebpf."
H = "ebpfcat.hashmap."


def run(chk, repo):
    chk.doc("R04.1", "stack watermark discipline")
    chk.doc("R04.2", "temporaries live inside their with block")
    chk.doc("R04.4", "hash-map cell identity")
    chk.doc("R04.5", "save_registers keeps values in registers")
    sh.watermark_rules(chk, repo, "R04.1")
    subprogram_locals(chk, repo)
    sh.slot_escape_rule(chk, repo, "R04.2")
    hash_cells(chk, repo)
    save_regs(chk, repo)
    chk.doc("R04.6", "bit-field stores keep the neighbours in the byte")
    bitfields(chk, repo)
    chk.doc("R04.7", "addresses are computed, never remembered")
    stateless_addresses(chk, repo)
    # array-map cells are variables too: the layout rules of C08 are
    # necessary conditions of this property as well
    chk.doc("R08.1", "array map: single source of layout")
    chk.doc("R08.2", "array map: reservation = access size")
    chk.doc("R08.3", "array map: one slot per visible variable")
    c08.layout(chk, repo)
    c08.dedup(chk, repo)


def _tree_value(t, env):
    """concrete value of a raw-term tree (sa/dsl.py) under env"""
    if isinstance(t, str):
        return env[t]
    if isinstance(t, (int, float)):
        return t
    op, *args = t
    a = [_tree_value(x, env) for x in args]
    if op == "NEG":
        return -a[0]
    f = {"ADD": lambda x, y: x + y, "SUB": lambda x, y: x - y,
         "MUL": lambda x, y: x * y, "AND": lambda x, y: x & y,
         "OR": lambda x, y: x | y, "XOR": lambda x, y: x ^ y,
         "LSH": lambda x, y: x << y, "RSH": lambda x, y: x >> y}.get(op)
    if f is None:
        raise AnalysisError(f"bit-field store: operator {op} in the value")
    return f(*a)


def bitfields(chk, repo):
    """R04.6: a store into a bit field writes the byte with every bit
    outside the field as it was.  The bit-field branch of Memory._set is
    executed abstractly for fields (pos, bits) and values - Python numbers
    that fit, that are too wide, that are negative, and run-time
    expressions - and the expression it builds for the byte is evaluated
    for every old byte"""
    from ..dsl import Ctx
    d = Ctx(repo)
    sym = E + "Memory._set"
    f = repo.func(sym)
    chk.analysed(sym)
    br = [s for s in walk_no_nested(f) if isinstance(s, ast.If) and match(
        "isinstance(self.fmt, tuple)", s.test) is not None]
    need(len(br) == 1, f"{sym}: the bit-field branch was not found")
    body = br[0].body
    bad = []
    rows = 0
    ev = d.ev
    for pos, bits in ((0, 1), (3, 1), (7, 1), (0, 4), (4, 4), (2, 3),
                      (5, 2), (1, 7)):
        field = ((1 << bits) - 1) << pos
        vals = [0, 1, (1 << bits) - 1, 1 << bits, (1 << bits) + 1, 0xff,
                -1, -2] if bits > 1 else [0, 1, True, False, 2, -1]
        vals = vals + ([("E",)] if bits > 1 else [])
        for v in vals:
            rows += 1
            me = d.memory("s", (pos, bits))
            val = d.expr("v", False, False) if isinstance(v, tuple) else v
            env = {"self": me, "value": val,
                   "exitStack": Opaque("exitStack")}
            tag = f"field (pos {pos}, {bits} bits) = " + (
                "expression v" if isinstance(v, tuple) else repr(v))
            try:
                ev.run_block(body, env)
                tree, k, probs = d.term(env["value"], {"s", "v"})
            except Raised as e:
                bad.append(f"{tag}: raises {e.what}")
                continue
            except Unknown as e:
                raise AnalysisError(f"{sym}: bit-field branch cannot be "
                                    f"evaluated for {tag}: {e}")
            if k or probs:
                bad.append(f"{tag}: {probs[0] if probs else 'scaled'}")
                continue
            if me.fields.get("fmt") != "B":
                bad.append(f"{tag}: the byte is stored with format "
                           f"{me.fields.get('fmt')!r}")
                continue
            for old in range(256):
                for vv in ((0, 1, (1 << bits) - 1, 0x55, 0xff, 1 << bits)
                           if isinstance(v, tuple) else (v,)):
                    new = _tree_value(tree, {"s": old, "v": vv}) & 0xff
                    want = (int(bool(vv)) if bits == 1 else vv)
                    if (new ^ old) & ~field & 0xff:
                        bad.append(f"{tag}: old byte {old:#04x} becomes "
                                   f"{new:#04x}, bits outside the field "
                                   f"{field:#04x} change")
                        break
                    if (new & field) != ((want << pos) & field):
                        bad.append(f"{tag}: old byte {old:#04x} becomes "
                                   f"{new:#04x}, the field does not hold "
                                   f"the value")
                        break
                else:
                    continue
                break
    chk.ob("R04.6", sym, f"a bit-field store keeps the other bits of the "
           f"byte ({rows} field/value combinations by abstract execution, "
           f"every old byte)", not bad, br[0], "; ".join(bad[:3]) or
           "new = value << pos within the field, old outside")


def stateless_addresses(chk, repo):
    """R04.7: where a variable lives is computed from the declaration and
    the program it is used in every time it is asked for: no fmt_addr in
    the package stores anything (a frame base or an offset remembered on an
    instance is stale as soon as the instance is used in another program
    or layout, and the variable then lies on top of another one)"""
    n = 0
    for ci in sorted(repo.classes.values(), key=lambda c: c.qualname):
        fa = ci.methods.get("fmt_addr")
        if fa is None or ci.module.name.endswith("_test"):
            continue
        n += 1
        stores = [st for st in walk_no_nested(fa) if isinstance(
            st, (ast.Assign, ast.AugAssign, ast.AnnAssign)) and any(
                isinstance(t, (ast.Attribute, ast.Subscript))
                for t in (st.targets if isinstance(st, ast.Assign)
                          else [st.target]))] + [
            st for st in walk_no_nested(fa) if isinstance(
                st, (ast.Global, ast.Nonlocal))]
        memo = [d for d in fa.decorator_list if unparse(d).split("(")[
            0].split(".")[-1] in ("cache", "lru_cache", "cached_property")]
        chk.ob("R04.7", ci.qualname + ".fmt_addr", "computes the address "
               "afresh, storing nothing", not stores and not memo,
               stores[0] if stores else fa,
               f"`{unparse(stores[0])[:60]}` remembers a value across calls"
               if stores else ("memoised" if memo else "no stores"))
    chk.floor("R04.7", "fmt_addr implementations", n, 5)


def subprogram_locals(chk, repo):
    sym = E + "LocalVar.fmt_addr"
    f = repo.func(sym)
    chk.analysed(sym)
    reads = [n for n in walk_no_nested(f) if isinstance(n, ast.Attribute)
             and n.attr == "stack" and isinstance(n.ctx, ast.Load)]
    lowers = [s for s in walk_no_nested(f) if isinstance(
        s, (ast.Assign, ast.AugAssign)) and "stack" in unparse(
            s.targets[0] if isinstance(s, ast.Assign) else s.target)]
    ok = not reads or bool(lowers)
    chk.ob("R04.1", sym, "subprogram locals are carved from the program's "
           "watermark", ok, reads[0] if reads else f,
           "the locals of a SubProgram are placed at (program.stack & -8) + "
           "their class-relative offset, below a watermark that nothing "
           "lowers: two subprograms' locals and every get_stack temporary "
           "(hash-map keys) share the same bytes" if not ok else
           "no offset is derived from an unreserved watermark")


def hash_cells(chk, repo):
    hm = repo.cls(H + "HashMap")
    gv = hm.methods.get("globalVar")
    need(gv is not None, "HashMap.globalVar vanished")
    chk.analysed(hm.qualname + ".globalVar")
    cfg = CFG(gv)
    inc = [n for n in cfg.nodes if n.kind == "stmt" and isinstance(
        n.stmt, ast.AugAssign) and unparse(n.stmt.target) == "self.count"
        and int_const(n.stmt.value) == 1]
    use = [n for n in cfg.nodes if n.expr is not None and find(
        "HashGlobalVarDesc(self.count, $*a)", n.expr)]
    ok = len(inc) == 1 and len(use) == 1 and cfg.dominates(inc[0], use[0]) \
        and inc[0] is not use[0]
    chk.ob("R04.4", hm.qualname + ".globalVar", "a fresh count per variable",
           ok, gv, "the counter is advanced before it is handed to the "
           "descriptor, so no two variables of a map share a key")
    init = hm.methods.get("init")
    ok = init is not None and bool(find(
        "create_map(MapType.HASH, 1, 8, self.count)", init))
    chk.ob("R04.4", hm.qualname + ".init", "map has one entry per variable",
           ok, init or hm.node, "max_entries = count, key 1 byte, value 8")
    # per-map bookkeeping must be per instance
    n = 0
    for ci in repo.classes.values():
        if ci.module.name not in ("ebpfcat.hashmap", "ebpfcat.arraymap"):
            continue
        for name, v in ci.attrs.items():
            mutable = isinstance(v, (ast.List, ast.Dict, ast.Set)) or (
                isinstance(v, ast.Call) and dotted(v.func) in (
                    "list", "dict", "set"))
            if not mutable:
                continue
            mutated = any(
                isinstance(c, ast.Call) and isinstance(
                    c.func, ast.Attribute) and c.func.attr in (
                        "append", "add", "extend", "update", "insert")
                and unparse(c.func.value) == f"self.{name}"
                for m in ci.methods.values() for c in ast.walk(m))
            rebound = any(assigned_values(m, f"self.{name}")
                          for nm, m in ci.methods.items()
                          if nm == "__init__")
            n += 1
            chk.ob("R04.4", ci.qualname, f"`{name}` is not a mutable class "
                   f"attribute shared by all instances",
                   not mutated or rebound, ci.attr_stmts[name],
                   f"`{name} = {unparse(v)}` in the class body is one "
                   f"object for every map; two maps then overwrite each "
                   f"other's bookkeeping (all variables get the last map's "
                   f"file descriptor)")
    vs = assigned_values(hm.methods["__init__"], "self.vars") \
        if "__init__" in hm.methods else []
    chk.ob("R04.4", hm.qualname, "the variable list is created per map",
           len(vs) == 1 and isinstance(vs[0][1], ast.List), hm.node,
           "self.vars = [] in __init__")
    # both sides address the cell by the descriptor's own count
    ga = repo.func(H + "HashGlobalVar.get_address")
    ok = bool(find("self.ebpf.append(Opcode.ST, 10, 0, stack, self.count)",
                   ga))
    chk.ob("R04.4", H + "HashGlobalVar.get_address", "program-side key is "
           "the variable's own count", ok, ga, "ST [r10+slot] = count")
    ds = repo.cls(H + "HashGlobalVarDesc")
    st = ds.methods.get("__set__")
    ok = st is not None and bool(find(
        "ebpf.append(Opcode.ST, 10, 0, stack, self.count)", st)) and bool(
            find("pack('B', self.count)", st))
    chk.ob("R04.4", ds.qualname + ".__set__", "both store paths use the "
           "descriptor's count as key", ok, st or ds.node,
           "program side and Python side")
    gt = ds.methods.get("__get__")
    ok = gt is not None and bool(find("pack('B', self.count)", gt)) and bool(
        find("HashGlobalVar(instance, self.count, self.fmt)", gt))
    chk.ob("R04.4", ds.qualname + ".__get__", "both load paths use the "
           "descriptor's count as key", ok, gt or ds.node,
           "program side and Python side")
    # init hands every variable of this map the map's fd
    ok = init is not None and any(
        isinstance(s, ast.For) and match("self.vars", s.iter) is not None
        and bool(find("getattr(ebpf, v.name).fd = fd", s, mode="stmt"))
        for s in walk_no_nested(init))
    chk.ob("R04.4", hm.qualname + ".init", "each variable gets its own "
           "map's file descriptor", ok, init or hm.node,
           "for v in self.vars: ....fd = fd")


def save_regs(chk, repo):
    sym = E + "EBPF.save_registers"
    f = repo.func(sym)
    chk.analysed(sym)
    tmp = find("exitStack.enter_context(self.get_free_register(None))", f)
    mv = find("self.append(Opcode.MOV + Opcode.LONG + Opcode.REG, $a, $b, 0,"
              " 0)", f)
    ys0 = [y for y in walk_no_nested(f) if isinstance(y, ast.Yield)]
    yl = ys0[0].lineno if ys0 else 0
    sv = [(c, b) for c, b in mv if c.lineno < yl]
    rs = [(c, b) for c, b in mv if c.lineno > yl]
    ok = len(tmp) == 1 and len(sv) == 1 and len(rs) == 1 and \
        unparse(sv[0][1]["a"]) == unparse(rs[0][1]["b"]) and \
        unparse(sv[0][1]["b"]) == unparse(rs[0][1]["a"])
    if ok:
        # the scratch register is the one obtained from get_free_register
        st = stmt_of(tmp[0][0])
        ok = isinstance(st, ast.Assign) and unparse(st.targets[0]) == \
            unparse(sv[0][1]["a"])
    chk.ob("R04.5", sym, "saved values are parked in free registers and "
           "moved back", ok, f, "64-bit register moves to and from a "
           "register obtained from get_free_register; no stack slot is "
           "involved")
    ys = [y for y in walk_no_nested(f) if isinstance(y, ast.Yield)]
    ok = len(ys) == 1 and sv and rs and sv[0][0].lineno < ys[0].lineno < \
        rs[0][0].lineno and in_with_region(
            ys[0], lambda e: match("ExitStack()", e) is not None) is not None
    chk.ob("R04.5", sym, "save before, restore after the body, scratch "
           "registers held in between", bool(ok), f,
           "the yield lies between save and restore inside the ExitStack "
           "that owns the scratch registers")

# added rules (appended to the explanation the evidence file carries)
EXPLANATION += (" " + 'Added during the build (DESIGN.md 4.31, second table): (R04.6) bit-field stores keep the other bits of the byte - the bit-field branch of Memory._set by abstract execution on 63 field/value combinations, the byte expression evaluated for every old byte; odd-size formats in the layout family.')
