"""C02 - fixed-point arithmetic follows the per-100000 decimal semantics.

A units-of-measure check: every value carries the exponent k of
FIXED_BASE by which its raw integer is scaled."""
import ast

from .common import *
from ..evalx import ClassRef
from ..dsl import Ctx as Dsl
from .c01 import (operand_kinds, make, kind_str, is_fixed_kind,
                  is_signed_kind, term_with_neg, r4_formats)

EXPLANATION = (
    "Decided: (R02.1) a scale-dimension check of the operator algebra. The "
    "arithmetic and comparison dunders, the two store paths (Memory._set, "
    "RegisterArray.__setitem__) are folded on abstract operands for every "
    "combination of operand kinds (fixed/integer, signed/unsigned "
    "expressions and registers, Python ints and floats); the raw value of "
    "the object that is built is expressed as tree * FIXED_BASE**k. "
    "Obligations: + - % and comparisons only combine operands of equal k; "
    "the k of the result equals its declared `fixed` flag (1 if fixed else "
    "0); `/` always yields fixed, `//` never; stores scale to the "
    "destination's format. (R02.2) wherever a Python float becomes a "
    "scaled integer the product with FIXED_BASE goes through round(), not "
    "int(): five-digit decimals times 100000 are frequently just below the "
    "integer (0.29 -> 28999.999999999996); the conversion is additionally "
    "tabulated on such decimals. (R02.3) the Python-side read divides the "
    "raw 8-byte value by FIXED_BASE for format x only. (R01.4, shared with "
    "C01) format x counts as 8 bytes / 64 bit in every size table and width "
    "predicate. Declined: exact "
    "rational results of whole expression trees and the range "
    "precondition.")
ASSUMPTIONS = [
    "which object a DSL operator builds depends only on the operand kinds",
    "IEEE-754 double arithmetic of the host Python",
]

E = "ebpfcat.ebpf."
OPS = [ast.Add, ast.Sub, ast.Mult, ast.Div, ast.FloorDiv, ast.Mod]
CMPS = [ast.Gt, ast.GtE, ast.Lt, ast.LtE, ast.NotEq, ast.Eq]
DECIMALS = [0.29, 0.57, 0.58, 1.13, 4.35, 8.2, 16.4, 0.00007, 2.5, 1.3,
            -0.29, -1.13, -8.2, 12.34567]


def run(chk, repo):
    d = Dsl(repo)
    chk.doc("R02.1", "scale-dimension check of operators, comparisons and "
                     "stores")
    chk.doc("R02.2", "exact decimal conversion (round, not truncate)")
    chk.doc("R02.3", "Python-side read of fixed-point map variables")
    algebra(chk, repo, d)
    unaries(chk, repo, d)
    comparisons(chk, repo, d)
    stores(chk, repo, d)
    rounding(chk, repo, d)
    reads(chk, repo, d)
    from . import c08
    c08.decoders(chk, repo, "R02.3")
    # a fixed-point value is a 64-bit quantity on every route (shared with
    # C01): format x is 8 bytes for the size tables, for the width a load
    # reports and for the width a store computes in
    r4_formats(chk, repo, d)


def pairs_for(d):
    exprs, regs, nums = operand_kinds(d)
    nums = [7, -7, 2.5, -2.5]
    pairs = [(a, b) for a in exprs for b in exprs]
    for a in exprs + regs:
        for n in nums:
            pairs.append((a, n))
            pairs.append((n, a))
    return pairs


def algebra(chk, repo, d):
    rows = 0
    for op in OPS:
        fails = []
        total = 0
        for ka, kb in pairs_for(d):
            a = make(d, ka, "a") if isinstance(ka, tuple) else ka
            b = make(d, kb, "b") if isinstance(kb, tuple) else kb
            numsd = {}
            if not isinstance(ka, tuple):
                numsd["a"] = ka
            if not isinstance(kb, tuple):
                numsd["b"] = kb
            total += 1
            what = f"{kind_str(ka)} {op.__name__} {kind_str(kb)}"
            try:
                o = d.binop(op, a, b)
                tree, k, probs = term_with_neg(d, o, numsd)
                fx = bool(d.flag(o, "fixed"))
            except Raised as e:
                fails.append(f"{what}: raises {e.what}")
                continue
            except Unknown as e:
                raise AnalysisError(f"R02.1: cannot fold {what}: {e}")
            fa, fb = is_fixed_kind(ka), is_fixed_kind(kb)
            if op is ast.Div:
                wantf = True
            elif op is ast.FloorDiv:
                wantf = False
            else:
                wantf = bool(fa or fb)
            if op is ast.FloorDiv and not isinstance(ka, tuple) and \
                    isinstance(ka, float) and not fb:
                # float // integer expression: the integer part of the
                # float is used (floor(floor(y)/n) == floor(y/n))
                pass
            if probs:
                fails.append(f"{what}: {probs[0]}")
            elif fx != wantf:
                fails.append(f"{what}: result flagged fixed={fx}, expected "
                             f"{wantf}")
            elif k != (1 if fx else 0):
                fails.append(f"{what}: raw value is {tree}*B^{k} but the "
                             f"result is flagged fixed={fx}")
        rows += total
        chk.ob("R02.1", E + "Expression", f"operator {op.__name__}: scale of "
               f"{total} operand-kind combinations", not fails,
               repo.cls(E + "Expression").node, "; ".join(fails[:4]) or
               "operands are brought to a common scale and the result's "
               "scale equals its fixed flag")
    chk.floor("R02.1", "operator rows folded", rows, 500)


def unaries(chk, repo, d):
    """-x and abs(x) for every operand kind, constants made from Python
    numbers included: the result carries the operand's scale, and its
    fixed flag says so.  Every class below Expression that defines the
    operator is asked (a Constant folding its own negation, say)."""
    exprs, regs, _ = operand_kinds(d)
    cc = repo.cls(E + "Constant")
    fails = []
    rows = 0
    for name, fn in (("__neg__", lambda n: -n), ("__abs__", abs)):
        cases = [(kind_str(k), make(d, k, "a"), {}) for k in exprs + regs]
        for n in (7, -7, 2.5, -2.5, 0.29):
            try:
                c = d.ev.construct(cc, [d.ebpf, n], {})
            except (Unknown, Raised) as e:
                raise AnalysisError(f"R02.1: Constant({n}): {e}")
            cases.append((f"constant {n!r}", c, {"a": n, "r": fn(n)}))
        for what, a, nums in cases:
            rows += 1
            try:
                fa = bool(d.flag(a, "fixed"))
                o = d.unary(name, a)
                tree, k, probs = d.term(o, {"a"}, nums)
                fx = bool(d.flag(o, "fixed"))
            except Raised as e:
                fails.append(f"{name} of {what}: raises {e.what}")
                continue
            except Unknown as e:
                raise AnalysisError(f"R02.1: cannot fold {name} of {what}: "
                                    f"{e}")
            if probs:
                fails.append(f"{name} of {what}: {probs[0]}")
            elif fx != fa:
                fails.append(f"{name} of {what}: result flagged fixed={fx}, "
                             f"the operand fixed={fa}")
            elif k != (1 if fx else 0):
                fails.append(f"{name} of {what}: raw value is "
                             f"{d.show((tree, k))} but the result is "
                             f"flagged fixed={fx}")
    chk.ob("R02.1", E + "Expression", f"unary minus and abs keep the "
           f"operand's scale ({rows} operand kinds)", not fails,
           repo.cls(E + "Expression").node, "; ".join(fails[:4]) or
           "scale of the result equals its fixed flag")


def comparisons(chk, repo, d):
    rows = 0
    for op in CMPS:
        fails = []
        total = 0
        for ka, kb in pairs_for(d):
            if not isinstance(ka, tuple):
                continue  # reflected comparisons are Python's job
            a = make(d, ka, "a")
            b = make(d, kb, "b") if isinstance(kb, tuple) else kb
            numsd = {} if isinstance(kb, tuple) else {"b": kb}
            total += 1
            what = f"{kind_str(ka)} {op.__name__} {kind_str(kb)}"
            try:
                c = d.compare(op, a, b)
            except Raised as e:
                fails.append(f"{what}: raises {e.what}")
                continue
            except Unknown as e:
                raise AnalysisError(f"R02.1: cannot fold {what}: {e}")
            inner = c
            if isinstance(c, Obj) and repo.is_subclass(
                    c.ci, E + "InvertComparison"):
                inner = c.fields.get("value")
            if not (isinstance(inner, Obj) and "left" in inner.fields
                    and "right" in inner.fields):
                fails.append(f"{what}: builds {c!r}")
                continue
            lt = term_with_neg(d, inner.fields["left"], numsd)
            rt = term_with_neg(d, inner.fields["right"], numsd)
            if lt[2] or rt[2]:
                fails.append(f"{what}: {(lt[2] + rt[2])[0]}")
            elif (lt[0], rt[0]) != ("a", "b"):
                fails.append(f"{what}: compares {lt[0]} with {rt[0]}")
            elif lt[1] != rt[1]:
                fails.append(f"{what}: left operand scaled by B^{lt[1]}, "
                             f"right by B^{rt[1]}")
        rows += total
        chk.ob("R02.1", E + "comparison", f"comparison {op.__name__}: "
               f"{total} operand-kind combinations", not fails,
               repo.get(E + "comparison"), "; ".join(fails[:4]) or
               "both sides are compared at the same scale, in source order")
    chk.floor("R02.1", "comparison rows folded", rows, 300)


def _with_locals(scale):
    """the scale adjustment together with the plain assignments before it
    (same block) that bind the names its tests read - `fixed = self.fmt ==
    'x'` before `if fixed and not value.fixed`"""
    holder = scale._parent
    lst = next((getattr(holder, fld) for fld in ("body", "orelse",
                                                 "finalbody")
                if scale in getattr(holder, fld, [])), None)
    if lst is None:
        return [scale]
    read = {n.id for t in ast.walk(scale) if isinstance(t, ast.If)
            for n in ast.walk(t.test) if isinstance(n, ast.Name)}
    pre = [s for s in lst[:lst.index(scale)] if isinstance(s, ast.Assign)
           and len(s.targets) == 1 and isinstance(s.targets[0], ast.Name)
           and s.targets[0].id in read and s.targets[0].id != "value"]
    return pre + [scale]


def find_scale(repo, func):
    """the statement of `func` that brings the assigned value to the
    destination's scale: the if / elif that multiplies or divides by
    FIXED_BASE, or an assignment `value = <...>.helper(...)` whose helper
    (a method of the expression classes) does that"""
    ifs = [s for s in walk_no_nested(func) if isinstance(s, ast.If)
           and "fixed" in unparse(s.test) and "FIXED_BASE" in unparse(s)]
    ifs = [s for s in ifs if not any(s in o.orelse for o in ifs)]
    if len(ifs) == 1:
        return ifs[0]
    if ifs:
        return None
    cands = []
    for st in walk_no_nested(func):
        if not (isinstance(st, ast.Assign) and len(st.targets) == 1
                and isinstance(st.targets[0], ast.Name)
                and st.targets[0].id == "value"):
            continue
        for c in ast.walk(st.value):
            if isinstance(c, ast.Call) and isinstance(c.func, ast.Attribute):
                for ci in repo.subclasses(E + "Expression"):
                    h = ci.methods.get(c.func.attr)
                    if isinstance(h, FUNC) and "FIXED_BASE" in unparse(h):
                        cands.append(st)
                        break
    cands = list(dict.fromkeys(cands))
    return cands[0] if len(cands) == 1 else None


def stores(chk, repo, d):
    ev = d.ev
    # Memory._set: the scale adjustment statement
    st = repo.func(E + "Memory._set")
    ifs = [find_scale(repo, st)]
    need(ifs[0] is not None, "Memory._set: scale adjustment not found")
    mc = repo.cls(E + "Memory")
    fails = []
    for fmt in ("x", "q", "I", "i", "Q", "<q"):
        for vf in (False, True):
            v = d.expr("v", True, vf)
            env = {"self": Obj(mc, {"fmt": fmt, "ebpf": d.ebpf}), "value": v}
            try:
                ev.run_block(_with_locals(ifs[0]), env)
                tree, k, probs = d.term(env["value"], {"v"})
            except (Raised, Unknown) as e:
                fails.append(f"fmt {fmt!r}, value fixed={vf}: {e}")
                continue
            want = 1 if fmt == "x" else 0
            if tree != "v" or k != want or probs:
                fails.append(f"fmt {fmt!r}, value fixed={vf}: stored raw is "
                             f"{tree}*B^{k}, the format needs B^{want}")
    chk.ob("R02.1", E + "Memory._set", "value is scaled to the destination "
           "format before the store", not fails, ifs[0],
           "; ".join(fails[:4]) or "12 rows: x gets a scaled value, every "
           "other format an integer")
    # RegisterArray.__setitem__
    si = repo.func(E + "RegisterArray.__setitem__")
    ifs = [find_scale(repo, si)]
    need(ifs[0] is not None, "RegisterArray.__setitem__: scale adjustment "
                             "not found")
    ra = repo.cls(E + "RegisterArray")
    fails = []
    for rf in (False, True):
        for vf in (False, True):
            v = d.expr("v", True, vf)
            env = {"self": Obj(ra, {"fixed": rf, "ebpf": d.ebpf}),
                   "value": v}
            try:
                ev.run_block(_with_locals(ifs[0]), env)
                tree, k, probs = d.term(env["value"], {"v"})
            except (Raised, Unknown) as e:
                fails.append(f"view fixed={rf}, value fixed={vf}: {e}")
                continue
            if tree != "v" or k != (1 if rf else 0) or probs:
                fails.append(f"view fixed={rf}, value fixed={vf}: raw is "
                             f"{tree}*B^{k}")
    chk.ob("R02.1", E + "RegisterArray.__setitem__", "value is scaled to the "
           "register view", not fails, ifs[0], "; ".join(fails) or "4 rows")
    # Python numbers stored directly: the constant that reaches the store is
    # the number itself at the destination's scale - a decimal constant
    # assigned to an integer destination is *dropped* to an integer by the
    # generated division like any run-time value, never rounded up while
    # the code is generated
    consts = (3.7, 0.6, -3.7, 2.5, 0.29, 7, -7, 12345.67891, 41.5)
    for sym, func, mk_self, dests in (
            (E + "Memory._set", st, lambda f: Obj(mc, {"fmt": f,
                                                      "ebpf": d.ebpf}),
             (("x", 1), ("q", 0), ("I", 0), ("i", 0))),
            (E + "RegisterArray.__setitem__", si,
             lambda f: Obj(ra, {"fixed": f, "ebpf": d.ebpf, "long": True,
                                "signed": True}),
             ((True, 1), (False, 0)))):
        scale = find_scale(repo, func)
        holder = scale._parent
        lst = next(getattr(holder, fld) for fld in ("body", "orelse",
                                                    "finalbody")
                   if scale in getattr(holder, fld, []))
        prelude = [s for s in lst[:lst.index(scale)]
                   if isinstance(s, (ast.Assign, ast.If))
                   and "value" in unparse(s)]
        fails = []
        rows = 0
        for dest, want in dests:
            for c in consts:
                rows += 1
                env = {"self": mk_self(dest), "value": c, "no": 3}
                try:
                    ev.run_block([p_ for p_ in prelude if p_ not in
                                  _with_locals(scale)]
                                 + _with_locals(scale), env)
                    tree, k, probs = d.term(env["value"], {"c"}, {"c": c})
                except (Raised, Unknown, AnalysisError) as e:
                    fails.append(f"{dest!r} = {c}: {e}")
                    continue
                if tree != "c" or k != want or probs:
                    fails.append(f"{dest!r} = {c}: the stored raw value is "
                                 f"{d.show((tree, k))}"
                                 f"{' (' + probs[0] + ')' if probs else ''}, "
                                 f"expected c*B^{want}")
                    continue
                # a constant folded while the code is generated: what is
                # left has to be the integer the division would give
                v_ = env["value"]
                if isinstance(v_, Obj) and v_.ci is not None and \
                        v_.ci.qualname == E + "Constant":
                    import math as _math
                    raw = v_.fields.get("value")
                    exact = c * d.base ** want
                    good = isinstance(raw, (int, float)) and raw == int(
                        raw) and int(raw) in (
                            _math.trunc(exact), _math.floor(exact),
                            round(exact) if want else _math.trunc(exact))
                    if not good:
                        fails.append(
                            f"{dest!r} = {c}: folded to the constant "
                            f"{raw!r}, which is not the integer the "
                            f"conversion gives ({_math.trunc(exact)}); "
                            f"whatever emits it decides the rounding")
        chk.ob("R02.1", sym, f"a Python number is stored at the "
               f"destination's scale ({rows} rows)", not fails, scale,
               "; ".join(fails[:3]) or "decimal constants reach integer "
               "destinations through the same truncating division as "
               "run-time values")
    # the x view is the fixed one
    init = repo.func(E + "EBPF.__init__")
    vals = [v for s, v in assigned_values(init, "self.x")]
    ok = len(vals) == 1 and match("RegisterArray(self, True, True, True)",
                                  vals[0]) is not None
    chk.ob("R02.1", E + "EBPF.__init__", "x registers are 64-bit signed "
           "fixed-point", ok, init, "RegisterArray(long, signed, fixed)")
    # Memory.fixed / LocalVar.fixed / descriptors
    fails = []
    for fmt in ("x", "q", "I", (3, 1), "<q"):
        m = d.memory("m", fmt)
        if bool(d.flag(m, "fixed")) != (fmt == "x"):
            fails.append(repr(fmt))
    chk.ob("R02.1", E + "Memory.fixed", "fixed iff the format is x",
           not fails, mc.node, "; ".join(fails) or "5 formats")


def rounding(chk, repo, d):
    ev = d.ev
    sites = [(E + "Constant.__init__", "self.value"),
             ("ebpfcat.arraymap.ArrayGlobalVarDesc.__set__", "value"),
             ("ebpfcat.hashmap.HashGlobalVarDesc.__set__", "value")]
    n = 0
    for sym, target in sites:
        repo.func(sym)
        chk.analysed(sym)
    # the conversions are looked for wherever they stand (a helper shared
    # by the three consumers included): every product of a Python number
    # and FIXED_BASE in the production code
    allf = []
    for fn in repo.all_functions():
        if any(isinstance(b, ast.BinOp) and isinstance(b.op, ast.Mult)
               and any((dotted(x) or "").endswith("FIXED_BASE")
                       for x in (b.left, b.right))
               for b in walk_no_nested(fn)):
            allf.append((func_qual(repo, fn.body[0]), fn))
    for sym, f in allf:
        prods = [b for b in walk_no_nested(f) if isinstance(b, ast.BinOp)
                 and isinstance(b.op, ast.Mult) and any(
                     (dotted(x) or "").endswith("FIXED_BASE")
                     for x in (b.left, b.right))]
        for p in prods:
            n += 1
            par = p._parent
            ok = isinstance(par, ast.Call) and dotted(par.func) == "round" \
                and par.args and par.args[0] is p
            why = "round() to the nearest integer"
            if not ok:
                # another spelling: decide it by folding the whole
                # conversion on decimals that are inexact in binary
                top = p
                while True:
                    q = top._parent
                    if isinstance(q, (ast.BinOp, ast.UnaryOp)) or (
                            isinstance(q, ast.Call) and q.args
                            and q.args[0] is top and (dotted(q.func) or ""
                                                      ).split(".")[-1] in (
                                "int", "round", "floor", "ceil", "trunc",
                                "float")):
                        top = q
                    else:
                        break
                mod = f._module
                free = sorted(n for n in {x.id for x in ast.walk(top)
                                          if isinstance(x, ast.Name)}
                              if n not in ("self", "cls")
                              and n not in mod.symbols
                              and n not in mod.imports
                              and n not in ("int", "round", "float"))
                bad = []
                ci = repo.enclosing_class(f)
                for v in DECIMALS + [-1e-05, -0.57, 1e-05, 123456.78901]:
                    env = {nm: v for nm in free}
                    env["self"] = Obj(ci, {})
                    if ci is not None:
                        env["cls"] = ClassRef(ci)
                    try:
                        got = Evaluator(repo, f._module).eval(top, env)
                    except (Raised, Unknown):
                        bad = None
                        break
                    if got != round(v * d.base) or isinstance(got, float) \
                            and top is not p and not float(got).is_integer():
                        bad.append(f"{v} -> {got}")
                if bad is None:
                    why = (f"the scaled value is `{unparse(par)[:60]}`: "
                           f"int() truncates, and a decimal times 100000 is "
                           f"often just below the integer (0.29 -> "
                           f"28999.999999999996)")
                elif bad:
                    why = (f"`{unparse(top)[:60]}` is not the nearest "
                           f"integer: " + ", ".join(bad[:4]))
                else:
                    ok = True
                    why = (f"`{unparse(top)[:60]}` gives the nearest integer "
                           f"on {len(DECIMALS) + 4} inexact decimals of both "
                           f"signs")
            chk.ob("R02.2", sym, f"`{unparse(p)}` is rounded", ok, p, why)
    chk.floor("R02.2", "float -> scaled integer conversions", n, 1)
    # tabulate Constant on decimals that are not exact in binary
    cc = repo.cls(E + "Constant")
    fails = []
    for v in DECIMALS:
        try:
            c = ev.construct(cc, [d.ebpf, v], {})
            raw = ev.call_function(
                repo.func(E + "Constant.calculate"), [c, 3, None]) \
                if False else None
        except (Raised, Unknown) as e:
            fails.append(f"{v}: {e}")
            continue
        val = c.fields.get("value")
        want = round(v * d.base)
        try:
            got = int(val)
        except (TypeError, ValueError):
            got = None
        if got != want or not bool(d.flag(c, "fixed")):
            fails.append(f"{v} -> {val!r} (int {got}), expected {want}")
    chk.ob("R02.2", E + "Constant.__init__", f"{len(DECIMALS)} decimals "
           f"convert to their exact per-100000 integer", not fails,
           cc.methods.get("__init__", cc.node), "; ".join(fails[:4]) or
           "Constant(v).value, as int() of it is emitted, equals "
           "round(v*100000)")


def hash_writes(chk, repo, rule):
    """HashGlobalVarDesc.__set__ on a loaded program, by abstract
    execution: a Python number assigned to an x variable reaches the kernel
    as the nearest per-100000 integer (q), other formats as the integer
    itself in q / Q; the key is the variable's number"""
    import struct as _struct
    sym = "ebpfcat.hashmap.HashGlobalVarDesc.__set__"
    f = repo.func(sym)
    chk.analysed(sym)
    dci = repo.cls("ebpfcat.hashmap.HashGlobalVarDesc")
    bad = []
    rows = [("x", v) for v in DECIMALS + [2.3, -17.9, 7, -7, 0, 41.5]] + [
        ("I", 70000), ("i", -3), ("q", -5), ("Q", (1 << 63) + 9), ("B", 200)]
    for fmt, v in rows:
        sent = []

        def update(fd, key, value, *a, _s=sent):
            _s.append((fd, bytes(key), bytes(value)))
        me = Obj(dci, {"fmt": fmt, "name": "v", "count": 7})
        inst = Obj(None, {"loaded": True, "v": Obj(None, {"fd": 5})})
        try:
            Evaluator(repo, dci.module, dci, funcs={
                "update_elem": ("hook", update)}).call_function(
                f, [me, inst, v], cls=dci)
        except Unknown as e:
            raise AnalysisError(f"{sym}: cannot be evaluated: {e}")
        except Raised as e:
            bad.append(f"{fmt!r} = {v!r}: raises {e.what[:40]}")
            continue
        raw = round(v * 100000) if fmt == "x" else v
        want = [(5, b"\x07", _struct.pack(
            "q" if fmt.islower() else "Q", raw))]
        if sent != want:
            got = _struct.unpack("q", sent[0][2])[0] if sent and len(
                sent[0][2]) == 8 else sent
            bad.append(f"{fmt!r} = {v!r}: the kernel gets {got!r}, "
                       f"expected {raw}")
    chk.ob(rule, sym, f"a Python number assigned to a hash map variable "
           f"reaches the kernel exactly: x as the nearest per-100000 "
           f"integer ({len(rows)} rows by abstract execution)", not bad, f,
           "; ".join(bad[:3]) + (": a decimal without an exact binary "
                                 "representation ends up one unit below"
                                 if bad else "") or "round(value * "
           "FIXED_BASE)")


def hash_reads(chk, repo, rule):
    """HashGlobalVarDesc.__get__ on a loaded program, by abstract
    execution: the cell the kernel hands back (8 bytes) is read as the raw
    q divided by FIXED_BASE for format x, and by the variable's own format
    otherwise; the key is the variable's number"""
    import struct as _struct
    sym = "ebpfcat.hashmap.HashGlobalVarDesc.__get__"
    f = repo.func(sym)
    chk.analysed(sym)
    dci = repo.cls("ebpfcat.hashmap.HashGlobalVarDesc")
    bad = []
    for fmt, raw in (("x", 250000), ("x", -250000), ("x", 99999), ("x", -1),
                     ("x", 1 << 40), ("I", 70000), ("i", -3), ("q", -5),
                     ("Q", (1 << 63) + 9), ("B", 200), ("h", -2)):
        cell = _struct.pack("q" if raw < 1 << 63 else "Q", raw)
        asked = []

        def lookup(fd, key, size, _c=cell, _a=asked):
            _a.append((fd, bytes(key), size))
            return bytearray(_c)
        me = Obj(dci, {"fmt": fmt, "name": "v", "count": 7})
        inst = Obj(None, {"loaded": True, "v": Obj(None, {"fd": 5})})
        try:
            got = Evaluator(repo, dci.module, dci, funcs={
                "lookup_elem": ("hook", lookup)}).call_function(
                f, [me, inst, Opaque("owner")], cls=dci)
        except (Unknown, Raised) as e:
            raise AnalysisError(f"{sym}: cannot be evaluated: {e}")
        if fmt == "x":
            want = raw / 100000
            ok = isinstance(got, float) and abs(got - want) <= 1e-12 * max(
                1, abs(want))
        else:
            want = _struct.unpack_from(fmt, cell)[0]
            ok = got == want and type(got) is int
        if not ok:
            bad.append(f"{fmt!r} cell {raw}: reads {got!r}, expected "
                       f"{want!r}")
        elif asked != [(5, b"\x07", 8)]:
            bad.append(f"{fmt!r}: looks up {asked}")
    chk.ob(rule, sym, "hash map x variable: raw q divided by FIXED_BASE; "
           "other formats by their own letter (11 cells by abstract "
           "execution)", not bad, f, "; ".join(bad[:3]) or
           "same convention as array maps")


def reads(chk, repo, d):
    sym = "ebpfcat.arraymap.ArrayGlobalVarDesc.unpack"
    f = repo.func(sym)
    chk.analysed(sym)
    # abstract execution: raw q values read back through unpack()
    import struct as _struct
    dci = repo.cls("ebpfcat.arraymap.ArrayGlobalVarDesc")
    bad = []
    for raw in (0, 1, 250000, -250000, 99999, -1, 1 << 40):
        data = bytes(16) + _struct.pack("q", raw) + bytes(8)
        me = Obj(dci, {"fmt": "x", "name": "v", "fmt_addr": (
            "hook", lambda inst: ("x", 16))})
        try:
            got = Evaluator(repo, dci.module, dci).call_function(
                f, [me, Obj(None, {}), data], cls=dci)
        except (Unknown, Raised) as e:
            raise AnalysisError(f"{sym}: cannot be evaluated: {e}")
        if not isinstance(got, float) or abs(got - raw / 100000) > 1e-12:
            bad.append(f"raw {raw}: reads {got!r}")
    chk.ob("R02.3", sym, "x is read as the 8-byte raw value divided by "
           "FIXED_BASE", not bad, f, "; ".join(bad[:3]) or "the reader "
           "undoes the scaling the writers apply (7 raw values)")
    sym = "ebpfcat.arraymap.ArrayGlobalVarDesc.__set__"
    f = repo.func(sym)
    ifs = [s for s in walk_no_nested(f) if isinstance(s, ast.If)
           and match("fmt == 'x'", s.test) is not None]
    ok = len(ifs) == 1 and bool(find("fmt = 'q'", ifs[0].body, mode="stmt"))
    chk.ob("R02.3", sym, "x is written as an 8-byte q", ok, f,
           "struct reads 'x' as a pad byte; the raw value is a q")
    hash_reads(chk, repo, "R02.3")
    hash_writes(chk, repo, "R02.2")

# added rules (appended to the explanation the evidence file carries)
EXPLANATION += (" " + "Added during the build (DESIGN.md 4.31, second table): unary minus / abs keep the operand's scale (every operand kind, constants included); who-may-decode rule for map bytes (R02.3); HashGlobalVarDesc.__get__ by abstract execution on 11 cells; conversion sites are looked for in every function of the package.")
EXPLANATION += (' Added after wave 8: a Python number folded to a Constant by the scale code must be left as the integer the conversion gives; (R02.3) who may encode map values (shared with C08).')
EXPLANATION += (' Added after wave 10: (R02.2) HashGlobalVarDesc.__set__ on a loaded program, 25 rows by abstract execution; the scale statement is also found when it lives in a method called on the value.')
