"""helpers shared by the rule modules (part of E5: callee resolution)"""
import ast
import os
import struct

from ..index import AnalysisError, FUNC, ClassInfo, unparse, parents, stmt_of
from ..match import (match, find, same, walk_no_nested, dotted, attr_chain,
                     match_stmt, find_stmt, clone)
from ..evalx import (Evaluator, Unknown, Raised, EnumVal, Flags, Obj, Opaque,
                     Budget)
from ..cfg import CFG, _walk_expr
from ..dataflow import ReachingDefs, inline_locals


def calls_in(node, nested=False):
    it = ast.walk(node) if nested else walk_no_nested(node, True)
    return [n for n in it if isinstance(n, ast.Call)]


def resolve_callee(repo, call):
    """qualified name of the called function where it can be resolved

    Name -> module function / imported symbol; ``self.m`` / ``cls.m`` ->
    method found along the MRO of the enclosing class; ``super().m`` ->
    next in MRO; ``mod.f`` -> imported module's function; attribute with a
    unique definition in the package -> that definition."""
    f = call.func
    mod = call._module
    if isinstance(f, ast.Name):
        r = repo.resolve_name(mod, f.id)
        if r is None:
            return None
        if r[0] == "class":
            return r[1].qualname
        if r[0] == "node" and isinstance(r[1], FUNC):
            return r[1]._module.name + "." + r[1].name
        if r[0] == "ext":
            return "ext:" + r[1]
        return None
    if isinstance(f, ast.Attribute):
        ci = repo.enclosing_class(call)
        if isinstance(f.value, ast.Name) and f.value.id in ("self", "cls") \
                and ci is not None:
            owner, node = repo.lookup(ci, f.attr)
            if node is not None and isinstance(node, FUNC):
                return owner.qualname + "." + f.attr
        if isinstance(f.value, ast.Call) and isinstance(f.value.func, ast.Name) \
                and f.value.func.id == "super" and ci is not None:
            mro = repo.mro(ci)
            for c in mro[1:]:
                if isinstance(c, ClassInfo) and f.attr in c.methods:
                    return c.qualname + "." + f.attr
        if isinstance(f.value, ast.Name):
            r = repo.resolve_name(mod, f.value.id)
            if r and r[0] == "module":
                rr = repo.resolve_name(r[1], f.attr)
                if rr and rr[0] == "node" and isinstance(rr[1], FUNC):
                    return r[1].name + "." + f.attr
            if r and r[0] == "ext":
                return "ext:" + r[1] + "." + f.attr
            if r and r[0] == "class":
                owner, node = repo.lookup(r[1], f.attr)
                if node is not None:
                    return owner.qualname + "." + f.attr
        # unique method name in the package
        cands = unique_method(repo, f.attr)
        if len(cands) == 1:
            return cands[0]
    return None


_um_cache = {}


def unique_method(repo, name):
    key = (id(repo), name)
    if key not in _um_cache:
        out = []
        for ci in repo.classes.values():
            if ci.module.name.endswith("_test") or \
                    ci.module.name.endswith("testdata"):
                continue
            if name in ci.methods:
                out.append(ci.qualname + "." + name)
        _um_cache[key] = out
    return _um_cache[key]


def find_calls_to(repo, qualnames, modules=None):
    """all call sites in production modules whose callee resolves to one
    of the qualified names; yields (call, callee qualname)"""
    qualnames = set(qualnames)
    out = []
    for m in modules or repo.production_modules():
        for n in ast.walk(m.tree):
            if isinstance(n, ast.Call):
                q = resolve_callee(repo, n)
                if q in qualnames:
                    out.append((n, q))
    return out


def func_qual(repo, node):
    fn = repo.enclosing_function(node)
    while fn is not None and isinstance(fn, ast.Lambda):
        fn = repo.enclosing_function(fn)
    return repo.qualname_of(fn) if fn is not None else node._module.name


def need(cond, msg):
    if not cond:
        raise AnalysisError(msg)


def one(items, what):
    items = list(items)
    if len(items) != 1:
        raise AnalysisError(f"expected exactly one {what}, found "
                            f"{len(items)}")
    return items[0]


def str_const(node):
    return node.value if isinstance(node, ast.Constant) and isinstance(
        node.value, str) else None


def int_const(node):
    return node.value if isinstance(node, ast.Constant) and isinstance(
        node.value, int) and not isinstance(node.value, bool) else None


def calcsize(fmt):
    try:
        return struct.calcsize(fmt)
    except struct.error as e:
        raise AnalysisError(f"bad struct format {fmt!r}: {e}")


def is_self_attr(node, attr=None):
    return isinstance(node, ast.Attribute) and isinstance(
        node.value, ast.Name) and node.value.id == "self" and (
            attr is None or node.attr == attr)


def assigned_values(func, target_pat):
    """all (stmt, value) of assignments in func whose (single) target
    matches the pattern"""
    out = []
    if target_pat.isidentifier():
        target_pat = "@" + target_pat      # this very name
    for n in walk_no_nested(func):
        if isinstance(n, ast.Assign):
            for t in n.targets:
                if match(target_pat, t) is not None:
                    out.append((n, n.value))
        elif isinstance(n, ast.AugAssign):
            if match(target_pat, n.target) is not None:
                out.append((n, n))
    return out


def body_without_docstring(func):
    body = func.body
    if body and isinstance(body[0], ast.Expr) and isinstance(
            body[0].value, ast.Constant) and isinstance(
                body[0].value.value, str):
        return body[1:]
    return body


def param_names(func):
    a = func.args
    return [p.arg for p in a.posonlyargs + a.args]


def in_with_region(node, predicate):
    """is `node` lexically inside the body of a with-statement one of whose
    items' context expression satisfies predicate(expr)?  returns the with
    statement or None"""
    child = node
    for p in parents(node):
        if isinstance(p, FUNC + (ast.Lambda,)):
            return None
        if isinstance(p, (ast.With, ast.AsyncWith)) and child in p.body:
            for it in p.items:
                if predicate(it.context_expr):
                    return p
        child = p
    return None

walk_expr = _walk_expr


def _decompose(test, polarity, out):
    if isinstance(test, ast.UnaryOp) and isinstance(test.op, ast.Not):
        _decompose(test.operand, not polarity, out)
    elif isinstance(test, ast.BoolOp) and isinstance(test.op, ast.And) \
            and polarity:
        for v in test.values:
            _decompose(v, True, out)
    elif isinstance(test, ast.BoolOp) and isinstance(test.op, ast.Or) \
            and not polarity:
        for v in test.values:
            _decompose(v, False, out)
    else:
        out.append((test, polarity))


def path_facts(node):
    """conditions that hold whenever `node` executes, from the enclosing
    if/elif/else, while and ternary structure (not loops' exits): a list of
    (expr, truth).  Conjunctions are split, negations normalised."""
    out = []
    child = node
    for p in parents(node):
        if isinstance(p, FUNC + (ast.Lambda,)):
            _early_exits(p, child, out)
            break
        _early_exits(p, child, out)
        if isinstance(p, ast.If):
            if any(child is s for s in p.body):
                _decompose(p.test, True, out)
            elif any(child is s for s in p.orelse):
                _decompose(p.test, False, out)
        elif isinstance(p, ast.While):
            if any(child is s for s in p.body):
                _decompose(p.test, True, out)
        elif isinstance(p, ast.IfExp):
            if child is p.body:
                _decompose(p.test, True, out)
            elif child is p.orelse:
                _decompose(p.test, False, out)
        elif isinstance(p, ast.BoolOp) and isinstance(p.op, ast.And):
            i = p.values.index(child) if child in p.values else 0
            for v in p.values[:i]:
                _decompose(v, True, out)
        child = p
    return out


def _always_leaves(stmts):
    """does the block end in return / raise / continue / break on every
    path (syntactically)?"""
    if not stmts:
        return False
    last = stmts[-1]
    if isinstance(last, (ast.Return, ast.Raise, ast.Continue, ast.Break)):
        return True
    if isinstance(last, ast.If) and last.orelse:
        return _always_leaves(last.body) and _always_leaves(last.orelse)
    return False


def _early_exits(parent, child, out):
    """`if c: ...; continue` (return, raise, break) before `child` in the
    same block: c is false whenever child runs"""
    for fld in ("body", "orelse", "finalbody"):
        lst = getattr(parent, fld, None)
        if not isinstance(lst, list) or not any(child is x for x in lst):
            continue
        for st in lst:
            if st is child:
                break
            if isinstance(st, ast.If):
                if _always_leaves(st.body) and not _always_leaves(st.orelse):
                    _decompose(st.test, False, out)
                elif st.orelse and _always_leaves(st.orelse) and not \
                        _always_leaves(st.body):
                    _decompose(st.test, True, out)


def has_fact(facts, pattern, truth):
    for e, t in facts:
        if t == truth and match(pattern, e) is not None:
            return True
    return False


# ------------------------------------------------------ override discipline
def _is_transparent_forward(func):
    """the body is (docstring +) `return [await] super().<same name>(<its own
    parameters, each once, unchanged>)`"""
    body = [s for s in func.body if not (isinstance(s, ast.Expr) and
                                         isinstance(s.value, ast.Constant))]
    if len(body) != 1 or not isinstance(body[0], (ast.Return, ast.Expr)):
        return False
    v = body[0].value
    if isinstance(v, ast.Await):
        v = v.value
    if not (isinstance(v, ast.Call) and isinstance(v.func, ast.Attribute)
            and v.func.attr == func.name and isinstance(
                v.func.value, ast.Call) and dotted(v.func.value.func)
            == "super"):
        return False
    a = func.args
    want_pos = [x.arg for x in a.posonlyargs + a.args][1:]
    got_pos = []
    for x in v.args:
        if isinstance(x, ast.Starred) and isinstance(x.value, ast.Name) \
                and a.vararg and x.value.id == a.vararg.arg:
            continue
        if not isinstance(x, ast.Name):
            return False
        got_pos.append(x.id)
    kw = {}
    for k in v.keywords:
        if k.arg is None:
            if not (isinstance(k.value, ast.Name) and a.kwarg
                    and k.value.id == a.kwarg.arg):
                return False
            continue
        if not (isinstance(k.value, ast.Name) and k.value.id == k.arg):
            return False
        kw[k.arg] = True
    rest = [p for p in want_pos if p not in got_pos]
    if got_pos != want_pos[:len(got_pos)] or any(p not in kw for p in rest):
        return False
    return all(x.arg in kw for x in a.kwonlyargs)


_OVERRIDE_CONTROL = '''
class Base:
    async def m(self, a, *args, data=None):
        return 1
class Good(Base):
    async def m(self, a, *args, data=None):
        """doc"""
        return await super().m(a, *args, data=data)
class Bad(Base):
    async def m(self, a, *args, data=None):
        kw = {}
        if data:
            kw["data"] = data
        return await super().m(a, *args, **kw)
'''


def override_rule(chk, repo, rule, base_qual, methods, why, analysed=()):
    """the behaviour the other rules establish for `base_qual.<method>` must
    not be replaced in a subclass: an override inside the package is
    accepted only when it is a transparent forwarder to super()"""
    # positive control: the recogniser tells the two shapes apart
    ctl = ast.parse(_OVERRIDE_CONTROL)
    good = ctl.body[1].body[0]
    bad = ctl.body[2].body[0]
    if not _is_transparent_forward(good) or _is_transparent_forward(bad):
        raise AnalysisError("override_rule: positive control failed")
    base = repo.cls(base_qual)
    subs = [c for c in repo.subclasses(base_qual) if c is not base
            and not c.module.name.endswith("_test")]
    n = 0
    for meth in methods:
        need(meth in base.methods or repo.lookup(base, meth)[1] is not None,
             f"{base_qual}.{meth} vanished")
        offenders = []
        for c in subs:
            f = c.methods.get(meth)
            if f is None:
                continue
            n += 1
            if f"{c.qualname}.{meth}" in analysed:
                continue        # an implementation the rules look at
            if not _is_transparent_forward(f):
                offenders.append((c, f))
        chk.ob(rule, f"{base_qual}.{meth}", f"no subclass replaces {meth}() "
               f"({len(subs)} subclasses looked at)", not offenders,
               offenders[0][1] if offenders else base.methods.get(
                   meth, base.node),
               (f"{offenders[0][0].qualname}.{meth} overrides it with code "
                f"of its own: {why}") if offenders else
               "inherited unchanged (or forwarded verbatim) everywhere")
    return n


# ------------------------------------------------- shared mutable defaults
_MUTATORS = {"append", "extend", "insert", "add", "update", "pop", "remove",
             "clear", "setdefault", "discard", "popitem", "sort"}


def _is_mutable_display(v):
    if isinstance(v, (ast.List, ast.Dict, ast.Set, ast.ListComp, ast.DictComp,
                      ast.SetComp)):
        return True
    return isinstance(v, ast.Call) and dotted(v.func) in (
        "list", "dict", "set", "defaultdict", "bytearray", "deque",
        "collections.defaultdict", "OrderedDict")


def shared_mutables(repo, ci):
    """class-level mutable containers of `ci` (own body) that methods of the
    class or its subclasses mutate in place through `self.<name>` while no
    __init__ along the way rebinds them per instance: [(name, class-level
    statement, mutating node)]"""
    out = []
    for name, v in ci.attrs.items():
        if not _is_mutable_display(v):
            continue
        classes = [c for c in repo.subclasses(ci.qualname)]
        rebound = False
        mut = None
        for c in classes:
            for mname, f in c.methods.items():
                for n in ast.walk(f):
                    if isinstance(n, (ast.Assign, ast.AnnAssign)):
                        tg = n.targets if isinstance(n, ast.Assign) \
                            else [n.target]
                        for t in tg:
                            for tt in (t.elts if isinstance(
                                    t, ast.Tuple) else [t]):
                                if unparse(tt) == f"self.{name}" and \
                                        mname in ("__init__", "__new__",
                                                  "__set_name__"):
                                    rebound = True
                    m = None
                    if isinstance(n, ast.Call) and isinstance(
                            n.func, ast.Attribute) and n.func.attr in \
                            _MUTATORS and unparse(n.func.value) == \
                            f"self.{name}":
                        m = n
                    elif isinstance(n, (ast.Assign, ast.AugAssign, ast.Delete)):
                        tg = n.targets if not isinstance(
                            n, ast.AugAssign) else [n.target]
                        for t in tg:
                            if isinstance(t, ast.Subscript) and unparse(
                                    t.value) == f"self.{name}":
                                m = n
                    if m is not None and mut is None:
                        mut = m
        if mut is not None and not rebound:
            out.append((name, ci.attr_stmts[name], mut))
    return out


def per_instance_rule(chk, repo, rule, class_quals, why):
    """state the other rules treat as belonging to one object (one packet,
    one terminal, one master) really is per instance"""
    _per_instance_control()
    for q in class_quals:
        ci = repo.cls(q)
        bad = []
        for c in repo.mro(ci):
            if isinstance(c, ClassInfo):
                bad += [(c, x) for x in shared_mutables(repo, c)]
        chk.ob(rule, q, "containers mutated through self are created per "
               "instance", not bad, bad[0][1][1] if bad else ci.node,
               (f"`{unparse(bad[0][1][1])[:50]}` in {bad[0][0].qualname} is "
                f"one object shared by every instance, and "
                f"`{unparse(bad[0][1][2])[:50]}` changes it in place: "
                f"{why}") if bad else "no class-level list/dict/set is "
               "mutated in place")


_PI_CONTROL_DONE = False


def _per_instance_control():
    """positive control for shared_mutables (its expected count on the real
    tree is zero): a synthetic class pair must be told apart"""
    global _PI_CONTROL_DONE
    if _PI_CONTROL_DONE:
        return
    import shutil
    import tempfile
    from ..index import Repo
    d = tempfile.mkdtemp(prefix="sa-control.")
    try:
        os.makedirs(os.path.join(d, "ebpfcat"))
        with open(os.path.join(d, "ebpfcat", "ctl.py"), "w") as f:
            f.write("class Shared:\n    items = []\n    n = 0\n"
                    "    def add(self, x):\n        self.items.append(x)\n"
                    "class Own:\n    items = []\n"
                    "    def __init__(self):\n        self.items = []\n"
                    "    def add(self, x):\n        self.items.append(x)\n")
        r = Repo(d)
        a = shared_mutables(r, r.cls("ebpfcat.ctl.Shared"))
        b = shared_mutables(r, r.cls("ebpfcat.ctl.Own"))
        if len(a) != 1 or b:
            raise AnalysisError("per_instance_rule: positive control failed")
    finally:
        shutil.rmtree(d, ignore_errors=True)
    _PI_CONTROL_DONE = True


# ----------------------------------------------- reachability with flags
def reach_flagged(cfg, func, start, edge_ok):
    """nodes reachable from `start` over edges accepted by edge_ok(a, b,
    label), where local variables that only ever hold True/False constants
    (loop flags like `locked`) are tracked, so that a test on such a flag
    only leaves through the edge its value allows"""
    flags = {}
    for n in ast.walk(func):
        if isinstance(n, ast.Name) and isinstance(n.ctx, ast.Store):
            flags.setdefault(n.id, True)
    for st in ast.walk(func):
        tg = []
        if isinstance(st, ast.Assign):
            tg = [(t, st.value) for t in st.targets]
        elif isinstance(st, (ast.AugAssign, ast.AnnAssign)):
            tg = [(st.target, None)]
        elif isinstance(st, (ast.For, ast.AsyncFor)):
            tg = [(st.target, None)]
        elif isinstance(st, (ast.With, ast.AsyncWith)):
            tg = [(i.optional_vars, None) for i in st.items
                  if i.optional_vars is not None]
        elif isinstance(st, ast.ExceptHandler) and st.name:
            flags[st.name] = False
        for t, v in tg:
            for x in ast.walk(t):
                if isinstance(x, ast.Name):
                    if not (isinstance(t, ast.Name) and isinstance(
                            v, ast.Constant) and isinstance(v.value, bool)):
                        flags[x.id] = False
    names = sorted(k for k, ok in flags.items() if ok)

    def step_state(node, state):
        st = node.stmt
        if node.kind == "stmt" and isinstance(st, ast.Assign) and len(
                st.targets) == 1 and isinstance(st.targets[0], ast.Name) \
                and st.targets[0].id in names:
            state = dict(state)
            state[st.targets[0].id] = st.value.value
        return state

    def allowed(node, label, state):
        if node.kind != "test" or label not in ("true", "false"):
            return True
        e = node.expr
        want = label == "true"
        if isinstance(e, ast.UnaryOp) and isinstance(e.op, ast.Not):
            e = e.operand
            want = not want
        if isinstance(e, ast.Name) and e.id in names and \
                state.get(e.id) is not None:
            return state[e.id] == want
        return True
    seen = set()
    out = set()
    init = tuple((k, None) for k in names)
    work = [(start, init)]
    while work:
        node, st_t = work.pop()
        if (node.id, st_t) in seen:
            continue
        seen.add((node.id, st_t))
        out.add(node)
        state = step_state(node, dict(st_t))
        for m, label in node.succ:
            if not edge_ok(node, m, label):
                continue
            if not allowed(node, label, state):
                continue
            work.append((m, tuple(sorted(state.items()))))
    return out


# ------------------------------------------------- hidden module-level state
_MOD_CTL = """
cache = {}
names = ["a", "b"]
def remember(k, v):
    cache[k] = v
def look(k):
    return names.index(k)
"""
_MUT_CTORS = {"dict", "list", "set", "defaultdict", "OrderedDict", "deque",
              "WeakKeyDictionary", "WeakValueDictionary", "Counter",
              "bytearray"}


def module_mutables(tree):
    """(name, definition, mutation) for module-level containers that
    functions of the module change in place or re-bind"""
    defs = {}
    for st in tree.body:
        if isinstance(st, ast.Assign) and len(st.targets) == 1 and isinstance(
                st.targets[0], ast.Name):
            v = st.value
            if isinstance(v, (ast.Dict, ast.List, ast.Set, ast.ListComp,
                              ast.DictComp, ast.SetComp)) or (
                    isinstance(v, ast.Call) and (dotted(v.func) or "").split(
                        ".")[-1] in _MUT_CTORS):
                defs[st.targets[0].id] = st
    out = []
    if not defs:
        return out
    for f in [x for x in ast.walk(tree) if isinstance(x, FUNC)]:
        local = {a.arg for a in ast.walk(f.args) if isinstance(a, ast.arg)}
        for x in ast.walk(f):
            if isinstance(x, ast.Name) and isinstance(x.ctx, ast.Store):
                local.add(x.id)
        glob = {n for x in ast.walk(f) if isinstance(x, ast.Global)
                for n in x.names}
        for x in ast.walk(f):
            nm = None
            if isinstance(x, ast.Subscript) and isinstance(
                    x.ctx, (ast.Store, ast.Del)) and isinstance(
                        x.value, ast.Name):
                nm = x.value.id
            elif isinstance(x, ast.Call) and isinstance(
                    x.func, ast.Attribute) and isinstance(
                        x.func.value, ast.Name) and x.func.attr in _MUTATORS:
                nm = x.func.value.id
            elif isinstance(x, ast.Name) and isinstance(
                    x.ctx, ast.Store) and x.id in glob:
                nm = x.id
            if nm in defs and (nm not in local or nm in glob):
                out.append((nm, defs[nm], x))
    return out


def module_state_rule(chk, repo, rule, modules, why):
    """nothing the property's code computes is remembered in a container
    at module level (a process-wide cache keyed by less than what the
    result depends on, a buffer shared by all callers): expected count on
    the real tree is zero, so a positive control runs first"""
    ctl = module_mutables(ast.parse(_MOD_CTL))
    if [c[0] for c in ctl] != ["cache"]:
        raise AnalysisError("module_state_rule: positive control failed")
    bad = []
    n = 0
    for mname in modules:
        m = repo.modules.get(mname)
        if m is None:
            continue
        n += 1
        bad += [(mname,) + t for t in module_mutables(m.tree)]
    chk.ob(rule, "ebpfcat", f"no module-level container of "
           f"{', '.join(m_.split('.')[-1] for m_ in modules)} is changed by "
           f"the module's functions", not bad, bad[0][3] if bad else None,
           (f"`{bad[0][1]}` ({repo.where(bad[0][2])}) is process-wide state "
            f"and `{unparse(bad[0][3])[:50]}` changes it: {why}") if bad else
           f"{n} module(s): no hidden process-wide state")
