"""C27 - the Valve device enforces its safe state on timeout."""
import ast

from .common import *

EXPLANATION = (
    "Decided, by extracting the decision table of Valve.update (branch "
    "guard -> attribute stores with their value sources) and its CFG: "
    "(R27.1) every path through update() stores coil; the decision is a "
    "three-way if/elif/else with no condition on the last branch (the "
    "safe-state reaction cannot be skipped, e.g. by an already set error "
    "flag); (R27.2) branches that do not set error store coil from target, "
    "and only the branch guarded by 'in position and correct' refreshes "
    "lastGood; (R27.3) the branch that sets error stores coil and target "
    "from the configured safeState (the attribute, not a literal) and is "
    "reached only when `monotonic() - lastGood < movingTime` is false; "
    "(R27.4) reset() clears error and refreshes lastGood; (R27.5) the "
    "switch variables the decision compares are read as bools on the slow "
    "path (shared with C19 R19.2), so `open != closed` compares truth "
    "values. Declined: histories.")
ASSUMPTIONS = ["monotonic() is the clock the timeout is measured with"]

V = "ebpfcat.devices.Valve"


def stores(stmts):
    out = {}
    for s in [x for st in stmts for x in ast.walk(st)]:
        if isinstance(s, ast.Assign):
            for t in s.targets:
                if is_self_attr(t):
                    out[t.attr] = s.value
    return out


def run(chk, repo):
    chk.doc("R27.1", "every path stores coil; the last branch is "
                     "unconditional")
    chk.doc("R27.2", "normal branches follow the target; only the good "
                     "branch refreshes the timer")
    chk.doc("R27.3", "the error branch applies the configured safe state")
    chk.doc("R27.4", "reset")
    chk.doc("R27.5", "switch variables read as bools")
    sym = V + ".update"
    f = repo.func(sym)
    chk.analysed(sym)
    cfg = CFG(f)
    coil = [n for n in cfg.nodes if n.kind == "stmt" and isinstance(
        n.stmt, ast.Assign) and any(is_self_attr(t, "coil")
                                    for t in n.stmt.targets)]
    ok = bool(coil) and cfg.must_pass(cfg.entry, lambda n: n in coil,
                                      targets=[cfg.exit])
    path = None
    if not ok:
        w = cfg.witness_path(cfg.entry, lambda n: n in coil,
                             targets=[cfg.exit])
        path = cfg.describe_path(w) if w else None
    chk.ob("R27.1", sym, "every path through update() stores coil", ok, f,
           "a path that leaves coil untouched keeps driving the last "
           "command; after a timeout that path must apply the safe state",
           path)
    # the decision chain
    # the timer restarts only where the switches confirm the coil
    lg = [st for st in walk_no_nested(f) if isinstance(st, ast.Assign) and any(
        is_self_attr(t, "lastGood") for t in st.targets)]
    bad = []
    for st in lg:
        facts = {(unparse(e), t) for e, t in path_facts(st)}
        if not ({("inPosition", True), ("isCorrect", True)} <= facts):
            bad.append(st)
    chk.ob("R27.2", sym, "lastGood is refreshed only when the valve is in "
           "position and correct", bool(lg) and not bad,
           bad[0] if bad else f,
           f"`{unparse(bad[0])}` restarts the timeout without the switches "
           f"confirming the position: a valve that never arrives is never "
           f"timed out as long as that statement keeps running" if bad else
           "one refresh, under `inPosition and isCorrect`")
    top = [s for s in body_without_docstring(f) if isinstance(s, ast.If)]
    if len(top) != 1:
        top = [s for s in top if match("inPosition and isCorrect", s.test)
               is not None]
    need(len(top) == 1, f"{sym}: decision chain not found")
    b1 = top[0]
    need(len(b1.orelse) == 1 and isinstance(b1.orelse[0], ast.If),
         f"{sym}: expected if / elif / else")
    b2 = b1.orelse[0]
    b3 = b2.orelse
    ok = bool(b3) and not (len(b3) == 1 and isinstance(b3[0], ast.If))
    chk.ob("R27.1", sym, "the last branch has no condition of its own", ok,
           b2, "the safe-state reaction is the plain else of the timeout "
           "test")
    s1, s2, s3 = stores(b1.body), stores(b2.body), stores(b3)
    ok = match("inPosition and isCorrect", b1.test) is not None
    chk.ob("R27.2", sym, "first branch: in position and correct", ok, b1,
           f"guard `{unparse(b1.test)}`")
    ok = set(s1) == {"lastGood", "coil"} and unparse(s1.get(
        "coil")) == "self.target" and unparse(s1.get("lastGood")) == \
        "monotonic()"
    chk.ob("R27.2", sym, "good branch: refresh the timer, follow the target",
           ok, b1, f"stores {sorted(s1)}")
    ok = match("monotonic() - self.lastGood < self.movingTime", b2.test) \
        is not None
    chk.ob("R27.3", sym, "second branch: still within the moving time", ok,
           b2, f"guard `{unparse(b2.test)}`")
    ok = set(s2) == {"coil"} and unparse(s2.get("coil")) == "self.target"
    chk.ob("R27.2", sym, "moving branch: follow the target and nothing else",
           ok, b2, f"stores {sorted(s2)}: refreshing lastGood here restarts "
           f"the timeout whenever this branch runs, so a valve that never "
           f"arrives never times out" if "lastGood" in s2 else
           f"stores {sorted(s2)}")
    ok = set(s3) == {"error", "coil", "target"} and unparse(
        s3.get("error")) == "True" and unparse(s3.get("coil")) == \
        "self.safeState" and unparse(s3.get("target")) == "self.safeState"
    chk.ob("R27.3", sym, "timeout branch: error, and coil and target go to "
           "the configured safe state", ok, b2,
           f"stores { {k: unparse(v) for k, v in s3.items()} }")
    inpos = assigned_values(f, "inPosition")
    ok = len(inpos) == 1 and match("self.openSwitch != self.closedSwitch",
                                   inpos[0][1]) is not None
    chk.ob("R27.2", sym, "in position = exactly one switch active", ok, f,
           "openSwitch != closedSwitch")
    corr = assigned_values(f, "isCorrect")
    ok = len(corr) == 1 and match(
        "(self.closedSwitch or not self.openSwitch) if self.coil == "
        "self.safeState else (self.openSwitch or not self.closedSwitch)",
        corr[0][1]) is not None
    chk.ob("R27.2", sym, "correct = the switch of the commanded side",
           ok, f, "coil == safeState -> closed side, else open side")
    vc = repo.cls(V)
    ev = Evaluator(repo, vc.module, vc)
    try:
        ss = ev.class_attr(vc, "safeState")
        mt = ev.class_attr(vc, "movingTime")
    except Unknown:
        ss = mt = None
    chk.ob("R27.3", V, "safeState and movingTime are configurable class "
           "attributes", isinstance(ss, bool) and isinstance(mt, (int,
                                                                   float)),
           vc.node, f"safeState={ss}, movingTime={mt}")
    r = repo.func(V + ".reset")
    sr = stores(r.body)
    ok = set(sr) == {"error", "lastGood"} and unparse(sr["error"]) == \
        "False" and unparse(sr["lastGood"]) == "monotonic()"
    chk.ob("R27.4", V + ".reset", "reset clears the error and restarts the "
           "timer", ok, r, f"stores {sorted(sr)}")
    rcfg = CFG(r)
    for attr in ("error", "lastGood"):
        nodes = [n for n in rcfg.nodes if n.kind == "stmt" and isinstance(
            n.stmt, ast.Assign) and any(is_self_attr(t, attr)
                                        for t in n.stmt.targets)]
        ok = bool(nodes) and rcfg.must_pass(
            rcfg.entry, lambda n: n in nodes, targets=[rcfg.exit])
        chk.ob("R27.4", V + ".reset", f"every reset() stores {attr}", ok, r,
               "unconditionally: the initial reset (no error pending) is "
               "what starts the timer - skipping it leaves lastGood at "
               "whatever it was and the first unconfirmed update times out "
               "at once")
    vc = repo.cls(V)
    chk.ob("R27.4", V, "lastGood has no class-level default", "lastGood"
           not in vc.attrs, vc.attr_stmts.get("lastGood", vc.node),
           "a default timestamp hides a missing reset(): the valve would "
           "measure its timeout from time 0")
    g = repo.func("ebpfcat.ebpfcat.PacketVar.get")
    ok = bool(find("bool(data[start] & mask)", g))
    chk.ob("R27.5", "ebpfcat.ebpfcat.PacketVar.get", "a bit variable reads "
           "as a bool", ok, g, "the valve compares `openSwitch != "
           "closedSwitch`: with raw mask values two active switches on "
           "different bits compare unequal and a contradictory reading "
           "counts as 'in position'")
