"""C27 - the Valve device enforces its safe state on timeout."""
import ast

from .common import *

EXPLANATION = (
    "Decided, by extracting the decision table of Valve.update (branch "
    "guard -> attribute stores with their value sources) and its CFG: "
    "(R27.1) every path through update() stores coil; the decision is a "
    "three-way if/elif/else with no condition on the last branch (the "
    "safe-state reaction cannot be skipped, e.g. by an already set error "
    "flag); (R27.2) branches that do not set error store coil from target, "
    "and only the branch guarded by 'in position and correct' refreshes "
    "lastGood; (R27.3) the branch that sets error stores coil and target "
    "from the configured safeState (the attribute, not a literal) and is "
    "reached only when `monotonic() - lastGood < movingTime` is false; "
    "(R27.4) reset() clears error and refreshes lastGood; (R27.5) the "
    "switch variables the decision compares are read as bools on the slow "
    "path (shared with C19 R19.2), so `open != closed` compares truth "
    "values. Declined: histories.")
ASSUMPTIONS = ["monotonic() is the clock the timeout is measured with"]

V = "ebpfcat.devices.Valve"


def stores(stmts):
    out = {}
    for s in [x for st in stmts for x in ast.walk(st)]:
        if isinstance(s, ast.Assign):
            for t in s.targets:
                if is_self_attr(t):
                    out[t.attr] = s.value
    return out


def run(chk, repo):
    chk.doc("R27.1", "every path stores coil; the last branch is "
                     "unconditional")
    chk.doc("R27.2", "normal branches follow the target; only the good "
                     "branch refreshes the timer")
    chk.doc("R27.3", "the error branch applies the configured safe state")
    chk.doc("R27.4", "reset")
    chk.doc("R27.5", "switch variables read as bools")
    sym = V + ".update"
    f = repo.func(sym)
    chk.analysed(sym)
    cfg = CFG(f)
    coil = [n for n in cfg.nodes if n.kind == "stmt" and isinstance(
        n.stmt, ast.Assign) and any(is_self_attr(t, "coil")
                                    for t in n.stmt.targets)]
    ok = bool(coil) and cfg.must_pass(cfg.entry, lambda n: n in coil,
                                      targets=[cfg.exit])
    path = None
    if not ok:
        w = cfg.witness_path(cfg.entry, lambda n: n in coil,
                             targets=[cfg.exit])
        path = cfg.describe_path(w) if w else None
    chk.ob("R27.1", sym, "every path through update() stores coil", ok, f,
           "a path that leaves coil untouched keeps driving the last "
           "command; after a timeout that path must apply the safe state",
           path)
    # ---- the decision table, extracted semantically: for every store in
    # update() the condition under which it executes is folded over all
    # switch / coil / safe-state combinations and both outcomes of the
    # timeout comparison; the shape of the if/elif/else does not matter
    rd = ReachingDefs(cfg)
    TIMEOUT = "monotonic() - self.lastGood < self.movingTime"
    sts = [n for n in cfg.nodes if n.kind == "stmt" and isinstance(
        n.stmt, ast.Assign) and any(
            is_self_attr(t, a_) for t in n.stmt.targets
            for a_ in ("coil", "target", "error", "lastGood"))]
    ev0 = Evaluator(repo, f._module)

    def runs(node, env, within):
        """does the store execute under env / timeout outcome `within`"""
        for e, t in path_facts(node.stmt):
            e2 = inline_locals(cfg, e, node, rd)
            if match(TIMEOUT, e2) is not None:
                v = within
            elif match("self.movingTime > monotonic() - self.lastGood",
                       e2) is not None:
                v = within
            else:
                try:
                    v = bool(ev0.truth(ev0.eval(e2, env)))
                except (Unknown, Raised) as ex:
                    raise AnalysisError(f"{sym}: cannot fold the condition "
                                        f"`{unparse(e2)[:60]}`: {ex}")
            if v != t:
                return False
        return True
    # further attributes the conditions read (a state flag somebody added)
    # become boolean dimensions of the table as well
    extra = set()
    for n in sts:
        for e, t in path_facts(n.stmt):
            e2 = inline_locals(cfg, e, n, rd)
            if match(TIMEOUT, e2) is not None:
                continue
            for x in ast.walk(e2):
                if isinstance(x, ast.Attribute) and isinstance(
                        x.value, ast.Name) and x.value.id == "self":
                    extra.add(x.attr)
    extra = sorted(extra - {"openSwitch", "closedSwitch", "coil",
                            "safeState"})
    need(len(extra) <= 4, f"{sym}: too many state attributes in the "
                          f"conditions: {extra}")
    rows = []
    for o in (False, True):
        for c in (False, True):
            for coil_ in (False, True):
                for safe in (False, True):
                    for within in (False, True):
                        for k in range(2 ** len(extra)):
                            rows.append((o, c, coil_, safe, within, tuple(
                                bool(k >> i & 1)
                                for i in range(len(extra)))))
    problems = {"lastGood": [], "follow": [], "safe": [], "error": [],
                "once": []}
    for o, c, coil_, safe, within, ex_ in rows:
        me = Obj(None, {"openSwitch": o, "closedSwitch": c, "coil": coil_,
                        "safeState": safe})
        me.fields.update(dict(zip(extra, ex_)))
        env = {"self": me}
        good = (o != c) and ((c or not o) if coil_ == safe
                             else (o or not c))
        tag = (f"open={int(o)} closed={int(c)} coil={int(coil_)} "
               f"safe={int(safe)} {'within' if within else 'after'} "
               f"movingTime" + "".join(f" {a_}={int(v_)}" for a_, v_
                                       in zip(extra, ex_)))
        ex = [n for n in sts if runs(n, env, within)]
        done = {}
        for n in ex:
            for t in n.stmt.targets:
                for a_ in ("coil", "target", "error", "lastGood"):
                    if is_self_attr(t, a_):
                        done.setdefault(a_, []).append(unparse(n.stmt.value))
        if len(done.get("coil", [])) != 1:
            problems["once"].append(f"{tag}: coil stored "
                                    f"{len(done.get('coil', []))} times")
        if ("lastGood" in done) != good:
            problems["lastGood"].append(
                f"{tag}: timer {'refreshed' if 'lastGood' in done else 'not refreshed'}"
                f", switches {'confirm' if good else 'do not confirm'} the "
                f"coil")
        if good or within:
            if done.get("coil") != ["self.target"] or "error" in done or \
                    "target" in done:
                problems["follow"].append(f"{tag}: stores {done}")
        else:
            if done.get("coil") != ["self.safeState"] or done.get(
                    "target") != ["self.safeState"]:
                problems["safe"].append(f"{tag}: stores {done}")
            if done.get("error") != ["True"]:
                problems["error"].append(f"{tag}: error store "
                                         f"{done.get('error')}")
    chk.ob("R27.1", sym, "coil is stored exactly once on every row of the "
           "decision table", not problems["once"], f,
           "; ".join(problems["once"][:3]) or "one store per cycle")
    chk.ob("R27.2", sym, "lastGood is refreshed exactly when the switches "
           "confirm the coil: one switch active, and it is the one of the "
           "commanded side", not problems["lastGood"], f,
           "; ".join(problems["lastGood"][:3]) + ": a refresh without "
           "confirmation restarts the timeout, so a valve that never "
           "arrives is never timed out" if problems["lastGood"] else
           "32 rows")
    chk.ob("R27.2", sym, "confirmed or still within movingTime: the coil "
           "follows the target and nothing else happens",
           not problems["follow"], f,
           "; ".join(problems["follow"][:3]) or "rows with confirmation or "
           "time left")
    chk.ob("R27.3", sym, "unconfirmed after movingTime: coil and target go "
           "to the configured safeState", not problems["safe"], f,
           "; ".join(problems["safe"][:3]) or "the attribute, not a literal")
    chk.ob("R27.3", sym, "unconfirmed after movingTime: error is set",
           not problems["error"], f, "; ".join(problems["error"][:3])
           or "error = True")
    vc = repo.cls(V)
    ev = Evaluator(repo, vc.module, vc)
    try:
        ss = ev.class_attr(vc, "safeState")
        mt = ev.class_attr(vc, "movingTime")
    except Unknown:
        ss = mt = None
    chk.ob("R27.3", V, "safeState and movingTime are configurable class "
           "attributes", isinstance(ss, bool) and isinstance(mt, (int,
                                                                   float)),
           vc.node, f"safeState={ss}, movingTime={mt}")
    r = repo.func(V + ".reset")
    sr = stores(r.body)
    ok = set(sr) == {"error", "lastGood"} and unparse(sr["error"]) == \
        "False" and unparse(sr["lastGood"]) == "monotonic()"
    chk.ob("R27.4", V + ".reset", "reset clears the error and restarts the "
           "timer", ok, r, f"stores {sorted(sr)}")
    rcfg = CFG(r)
    for attr in ("error", "lastGood"):
        nodes = [n for n in rcfg.nodes if n.kind == "stmt" and isinstance(
            n.stmt, ast.Assign) and any(is_self_attr(t, attr)
                                        for t in n.stmt.targets)]
        ok = bool(nodes) and rcfg.must_pass(
            rcfg.entry, lambda n: n in nodes, targets=[rcfg.exit])
        chk.ob("R27.4", V + ".reset", f"every reset() stores {attr}", ok, r,
               "unconditionally: the initial reset (no error pending) is "
               "what starts the timer - skipping it leaves lastGood at "
               "whatever it was and the first unconfirmed update times out "
               "at once")
    vc = repo.cls(V)
    chk.ob("R27.4", V, "lastGood has no class-level default", "lastGood"
           not in vc.attrs, vc.attr_stmts.get("lastGood", vc.node),
           "a default timestamp hides a missing reset(): the valve would "
           "measure its timeout from time 0")
    g = repo.func("ebpfcat.ebpfcat.PacketVar.get")
    ok = bool(find("bool(data[start] & mask)", g))
    chk.ob("R27.5", "ebpfcat.ebpfcat.PacketVar.get", "a bit variable reads "
           "as a bool", ok, g, "the valve compares `openSwitch != "
           "closedSwitch`: with raw mask values two active switches on "
           "different bits compare unequal and a contradictory reading "
           "counts as 'in position'")
