"""C27 - the Valve device enforces its safe state on timeout."""
import ast

from .common import *

EXPLANATION = (
    "Decided, by abstract execution (sa/evalx.py) of Valve.update and "
    "Valve.reset - helper methods included - on an abstract Valve whose "
    "attributes range over their whole finite domain: open/closed switch, "
    "coil, target, error, safeState (and any further state attribute the "
    "methods read) x elapsed time within / after movingTime: (R27.2) "
    "lastGood is refreshed exactly when the switches confirm the coil; "
    "confirmed or within movingTime the coil ends equal to the target and "
    "target/error are untouched; (R27.1/R27.3) otherwise coil and target "
    "end equal to the configured safeState (both settings tabulated) and "
    "error is set; safeState and movingTime are class attributes; (R27.4) "
    "reset() clears the error and restarts the timer whatever the state, "
    "lastGood has no class-level default; (R27.5) switch variables are "
    "read as bools and (R19.4, shared with C19) accessors read and write "
    "the group's current frame on every access. The domain is enumerated "
    "completely; the shape of the methods does not matter. Declined: "
    "histories.")
ASSUMPTIONS = ["monotonic() is the clock the timeout is measured with"]

V = "ebpfcat.devices.Valve"


def stores(stmts):
    out = {}
    for s in [x for st in stmts for x in ast.walk(st)]:
        if isinstance(s, ast.Assign):
            for t in s.targets:
                if is_self_attr(t):
                    out[t.attr] = s.value
    return out


def self_reads(repo, vc, f, seen=None):
    """attributes of self that f (and the Valve methods it calls) read"""
    seen = seen if seen is not None else set()
    out = set()
    if id(f) in seen:
        return out
    seen.add(id(f))
    for x in ast.walk(f):
        if isinstance(x, ast.Attribute) and isinstance(x.value, ast.Name) \
                and x.value.id == "self" and isinstance(x.ctx, ast.Load):
            m = vc.methods.get(x.attr)
            if m is None:
                # a method inherited from Device / SubProgram
                _, m = repo.lookup(vc, x.attr)
                if not isinstance(m, FUNC):
                    m = None
            if m is not None:
                out |= self_reads(repo, vc, m, seen)
            else:
                out.add(x.attr)
    return out


def simulate(repo, vc, f, fields, now, sym, in_cycle=True):
    """abstract execution of a Valve method on an instance with the given
    (finite-domain) field values; the clock reads `now`"""
    me = Obj(vc, fields)
    # update() runs inside a cycle, where a time stamp the sync group may
    # keep is this cycle's; reset() is called by the user at any time,
    # when whatever stamp another object keeps is from some earlier moment
    stamp = now if in_cycle else now - 1000.0
    me.fields.setdefault("sync_group", Obj(None, {"__getattr__": (
        "hook", lambda name: stamp)}))
    ev = Evaluator(repo, f._module, vc, funcs={"monotonic": lambda: now})
    try:
        ev.call_function(f, [me], cls=vc)
    except (Unknown, Raised) as ex:
        raise AnalysisError(f"{sym}: cannot be evaluated on "
                            f"{fields}: {ex}")
    return me.fields


def timer_writers(chk, repo):
    """R27.2: the time of the last confirmed position is set in two places:
    update() when the switches confirm the coil, reset() when the operator
    acknowledges an error.  A third writer - a hook that restarts the timer
    when a new target arrives, say - postpones the timeout of a valve that
    is stuck for as long as somebody keeps it busy."""
    vc = repo.cls(V)
    bad = []
    n = 0
    for ci in [vc] + [c for c in repo.subclasses(V) if c is not vc]:
        if ci.module.name.endswith("_test"):
            continue
        for name, f in ci.methods.items():
            if not isinstance(f, FUNC):
                continue
            for x in walk_no_nested(f):
                if isinstance(x, ast.Attribute) and x.attr == "lastGood" \
                        and isinstance(x.ctx, (ast.Store, ast.Del)):
                    n += 1
                    if name not in ("update", "reset"):
                        bad.append((x, f"{ci.qualname}.{name}"))
                if isinstance(x, ast.Call) and (dotted(x.func) or "") in (
                        "setattr", "object.__setattr__") and len(
                            x.args) >= 2 and str_const(x.args[1]) \
                        == "lastGood" and name not in ("update", "reset"):
                    bad.append((x, f"{ci.qualname}.{name}"))
    chk.floor("R27.2", "stores to lastGood", n, 2)
    chk.ob("R27.2", V, "the timer is set by update() and reset() only",
           not bad, bad[0][0] if bad else vc.node,
           (f"{bad[0][1]} sets lastGood: the timeout of a valve that does "
            f"not reach its position starts again without the switches "
            f"having confirmed anything") if bad else f"{n} stores")


def run(chk, repo):
    timer_writers(chk, repo)
    chk.doc("R27.1", "the coil is decided on every row of the decision "
                     "table")
    chk.doc("R27.2", "normal rows follow the target; only confirmation "
                     "refreshes the timer")
    chk.doc("R27.3", "the error rows apply the configured safe state")
    chk.doc("R27.4", "reset")
    chk.doc("R27.5", "switch variables read as bools")
    chk.doc("R27.6", "update() runs in every cycle of the slow group "
                     "(shared with C30)")
    from . import c30
    c30.devices_updated(chk, repo, "R27.6")
    from . import c19
    chk.doc("R19.4", "the coil and the switches are read from and written "
                     "to the group's current frame on every access (shared "
                     "with C19)")
    c19.closures(chk, repo)
    sym = V + ".update"
    f = repo.func(sym)
    chk.analysed(sym)
    vc = repo.cls(V)
    ev = Evaluator(repo, vc.module, vc)
    try:
        ss = ev.class_attr(vc, "safeState")
        mt = ev.class_attr(vc, "movingTime")
    except Unknown:
        ss = mt = None
    chk.ob("R27.3", V, "safeState and movingTime are configurable class "
           "attributes", isinstance(ss, bool) and isinstance(mt, (int,
                                                                   float))
           and not isinstance(mt, bool) and mt > 0,
           vc.node, f"safeState={ss}, movingTime={mt}")
    need(isinstance(mt, (int, float)) and mt > 0,
         f"{V}.movingTime is not a positive number")
    # ---- the decision table, by abstract execution of update() (the
    # evaluator of sa/evalx.py interprets the method body, helper methods
    # included, on an instance whose attributes range over their finite
    # domains; elapsed time is abstracted to {within, after} movingTime).
    # The shape of the method does not matter.
    KNOWN = {"openSwitch", "closedSwitch", "coil", "safeState", "target",
             "error", "lastGood", "movingTime"}
    inherited = {a for c in repo.mro(vc) if isinstance(c, ClassInfo)
                 and c is not vc for a in c.attrs}
    extra = sorted(a for a in self_reads(repo, vc, f) - KNOWN - inherited
                   if a not in vc.attrs or isinstance(
                       vc.attr_stmts.get(a), ast.Assign) and match(
                           "TerminalVar($*a)", vc.attr_stmts[a].value)
                   is not None or isinstance(
                       vc.attr_stmts.get(a), ast.Assign) and match(
                           "DeviceVar($*a)", vc.attr_stmts[a].value)
                   is not None)
    need(len(extra) <= 3, f"{sym}: too many state attributes are read: "
                          f"{extra}")
    T0 = 1000.0
    problems = {"lastGood": [], "follow": [], "safe": [], "error": []}
    rows = 0
    B = (False, True)
    for o in B:
        for c in B:
            for coil_ in B:
                for safe in B:
                    for tgt in B:
                        for err in B:
                            for within in B:
                                for k in range(2 ** len(extra)):
                                    ex_ = tuple(bool(k >> i & 1)
                                                for i in range(len(extra)))
                                    rows += 1
                                    now = T0 + (mt / 2 if within else mt * 2)
                                    before = {
                                        "openSwitch": o, "closedSwitch": c,
                                        "coil": coil_, "safeState": safe,
                                        "target": tgt, "error": err,
                                        "lastGood": T0}
                                    before.update(zip(extra, ex_))
                                    after = simulate(repo, vc, f,
                                                     dict(before), now, sym)
                                    good = (o != c) and (
                                        (c or not o) if coil_ == safe
                                        else (o or not c))
                                    tag = (
                                        f"open={int(o)} closed={int(c)} "
                                        f"coil={int(coil_)} safe={int(safe)}"
                                        f" target={int(tgt)} "
                                        f"error={int(err)} "
                                        f"{'within' if within else 'after'}"
                                        f" movingTime" + "".join(
                                            f" {a_}={int(v_)}" for a_, v_
                                            in zip(extra, ex_)))
                                    res = {a_: after.get(a_) for a_ in (
                                        "coil", "target", "error",
                                        "lastGood")}
                                    fresh = after.get("lastGood") == now
                                    kept = after.get("lastGood") == T0
                                    if fresh != good or not (fresh or kept):
                                        problems["lastGood"].append(
                                            f"{tag}: timer "
                                            f"{'refreshed' if fresh else 'not refreshed'}"
                                            f", switches "
                                            f"{'confirm' if good else 'do not confirm'}"
                                            f" the coil")
                                    if good or within:
                                        if after.get("coil") is not tgt or \
                                                after.get("target") is not \
                                                tgt or after.get("error") \
                                                is not err:
                                            problems["follow"].append(
                                                f"{tag}: ends with {res}")
                                    else:
                                        if after.get("coil") is not safe or \
                                                after.get("target") is not \
                                                safe:
                                            problems["safe"].append(
                                                f"{tag}: ends with {res}")
                                        if after.get("error") is not True:
                                            problems["error"].append(
                                                f"{tag}: error is "
                                                f"{after.get('error')!r}")
    chk.floor("R27.1", "decision table rows", rows, 128)
    chk.ob("R27.2", sym, "lastGood is refreshed exactly when the switches "
           "confirm the coil: one switch active, and it is the one of the "
           "commanded side", not problems["lastGood"], f,
           "; ".join(problems["lastGood"][:3]) + ": a refresh without "
           "confirmation restarts the timeout, so a valve that never "
           "arrives is never timed out" if problems["lastGood"] else
           f"{rows} rows")
    chk.ob("R27.2", sym, "confirmed or still within movingTime: the coil "
           "follows the target and nothing else happens",
           not problems["follow"], f,
           "; ".join(problems["follow"][:3]) or "rows with confirmation or "
           "time left: coil = target, target and error untouched")
    chk.ob("R27.1", sym, "unconfirmed after movingTime: coil and target go "
           "to the configured safeState", not problems["safe"], f,
           "; ".join(problems["safe"][:3]) or "the attribute, not a literal: "
           "both safe-state settings are tabulated")
    chk.ob("R27.3", sym, "unconfirmed after movingTime: error is set",
           not problems["error"], f, "; ".join(problems["error"][:3])
           or "error = True")
    r = repo.func(V + ".reset")
    chk.analysed(V + ".reset")
    bad = []
    for err in B:
        for k in range(2 ** len(extra)):
            ex_ = tuple(bool(k >> i & 1) for i in range(len(extra)))
            before = {"openSwitch": False, "closedSwitch": True,
                      "coil": False, "safeState": False, "target": False,
                      "error": err, "lastGood": T0}
            before.update(zip(extra, ex_))
            after = simulate(repo, vc, r, dict(before), T0 + 77.0,
                             V + ".reset", in_cycle=False)
            if after.get("error") is not False or after.get(
                    "lastGood") != T0 + 77.0:
                bad.append(f"error={int(err)} before: ends with error="
                           f"{after.get('error')!r}, lastGood "
                           f"{'refreshed' if after.get('lastGood') == T0 + 77.0 else 'not refreshed'}")
    chk.ob("R27.4", V + ".reset", "reset clears the error and restarts the "
           "timer, whatever the state", not bad, r, "; ".join(bad[:3]) or
           "unconditionally: the initial reset (no error pending) is what "
           "starts the timer")
    # the configuration stays where a subclass or an assignment can change
    # it: constructing a valve stores neither setting on the instance
    try:
        fresh = Evaluator(repo, vc.module, vc).construct(vc, [], {})
        shadow = [a_ for a_ in ("safeState", "movingTime")
                  if a_ in fresh.fields]
    except (Unknown, Raised) as e:
        raise AnalysisError(f"{V}: cannot be constructed abstractly: {e}")
    chk.ob("R27.3", V, "a new valve takes safeState and movingTime from its "
           "class", not shadow, vc.methods.get("__init__", vc.node),
           f"the constructor stores {shadow} on the instance: a subclass "
           f"that sets `safeState = True` is driven to the wrong side when "
           f"it times out" if shadow else "no instance attribute shadows "
           "the class attributes")
    chk.ob("R27.4", V, "lastGood has no class-level default", "lastGood"
           not in vc.attrs, vc.attr_stmts.get("lastGood", vc.node),
           "a default timestamp hides a missing reset(): the valve would "
           "measure its timeout from time 0")
    g = repo.func("ebpfcat.ebpfcat.PacketVar.get")
    ok = bool(find("bool(data[start] & mask)", g))
    chk.ob("R27.5", "ebpfcat.ebpfcat.PacketVar.get", "a bit variable reads "
           "as a bool", ok, g, "the valve compares `openSwitch != "
           "closedSwitch`: with raw mask values two active switches on "
           "different bits compare unequal and a contradictory reading "
           "counts as 'in position'")

# added rules (appended to the explanation the evidence file carries)
EXPLANATION += (" " + 'Added during the build (DESIGN.md 4.31, second table): reset() restarts the timer from the clock even when other objects hold stale time stamps; (R27.6) every path through SyncGroup.update_devices runs the devices (shared with C30).')
EXPLANATION += (' Added after wave 9: (R27.2) lastGood is stored by update() and reset() only.')
