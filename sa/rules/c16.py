"""C16 - SDO transfers carry values byte-for-byte.

Byte-for-byte equality is a value property; the protocol driver has a shape
that static rules can hold it to."""
import ast

from .common import *

EXPLANATION = (
    "Decided: (R16.1) payload/response disjointness in sdo_write: every "
    "use of the payload (the slices sent, the lengths that bound the "
    "segment cursor) is reached only by the parameter, never by a mailbox "
    "response; (R16.2) in both segment loops every iteration sends a "
    "request and receives its response, the toggle flips once per "
    "iteration; (R16.3) the upload accumulator is a list of bytes extended "
    "by whole bytes objects; (R16.4) every mailbox message fits the "
    "mailbox: 6-byte mailbox header + CoE/SDO header + bound of the data "
    "<= mbx_out_sz; (R16.5) every received mail is type-checked before it "
    "is parsed (edge-filtered reachability from each receive to each "
    "parse), the CoE service and the echoed index are checked, expedited "
    "uploads return 4 - n bytes; (R16.7) the mailbox primitives use their "
    "own direction's sync manager (no in/out mix), the header is 6 bytes. "
    "The segmented paths violate R16.1-R16.4 today: recorded findings. "
    "Declined: equality of transferred bytes; delayed or interleaved "
    "unrelated mail beyond the type check.")
ASSUMPTIONS = [
    "mailbox header 6 bytes, CoE header 2 bytes, SDO header 8 bytes "
    "(ETG.1000.6); expedited size bits (cmd >> 2) & 3 = number of unused "
    "bytes",
]

T = "ebpfcat.ethercat.Terminal"


def run(chk, repo):
    chk.doc("R16.1", "payload never replaced by a response")
    chk.doc("R16.2", "every segment is sent and answered")
    chk.doc("R16.3", "accumulator type")
    chk.doc("R16.4", "message fits the mailbox")
    chk.doc("R16.5", "responses are checked before they are used")
    chk.doc("R16.7", "mailbox primitives use their own direction")
    chk.doc("R16.9", "mailbox state is per master / per terminal, and "
                     "comes from the terminal's live configuration")
    per_instance_rule(chk, repo, "R16.9", ["ebpfcat.ethercat.EtherCat",
                                           "ebpfcat.ethercat.Terminal",
                                           "ebpfcat.lock.MailboxLock"],
                      "mailbox locks and counters of one bus are used for "
                      "another bus' terminals of the same address")
    live_geometry(chk, repo)
    taint(chk, repo)
    segments(chk, repo)
    accumulator(chk, repo)
    fits(chk, repo)
    responses(chk, repo)
    directions(chk, repo)
    addressed(chk, repo)
    no_give_up(chk, repo)
    datasize_exact(chk, repo)
    from . import c15
    chk.doc("R15.4", "the mailbox counter survives a failed exchange "
                     "(shared with C15)")
    c15.section_all(chk, repo)
    chk.doc("R15.3", "the mailbox counter cycle (shared with C15)")
    c15.counter(chk, repo)
    chk.doc("R15.1", "an exchange holds the mailbox lock from its request "
                     "to its last response (shared with C15)")
    chk.doc("R15.2", "see R15.1")
    c15.lock_graph(chk, repo)


def live_geometry(chk, repo):
    """a terminal that is joined without being re-initialised
    (gentle_initialize) is configured by somebody else: its mailbox offsets
    and sizes are what its sync-manager registers say now, not the EEPROM
    defaults"""
    sym = "ebpfcat.ethercat.Terminal.gentle_initialize"
    f = repo.func(sym)
    chk.analysed(sym)
    cfg = CFG(f, raises="await")
    rd = ReachingDefs(cfg)
    ps = [(n, c) for n in cfg.nodes if n.expr is not None
          for c, b in find("self.parse_sync_managers($d)", n.expr)]
    ok = bool(ps)
    why = "no parse_sync_managers() call"
    for n, c in ps:
        a = c.args[0]
        src = []
        if isinstance(a, ast.Name):
            for dd in rd.reaching(n, a.id):
                src.append(dd.value if isinstance(dd.value, ast.AST)
                           else None)
        else:
            src.append(a)
        for v in src:
            if isinstance(v, ast.Await):
                v = v.value
            if v is None or match("self.read(2048, data=128)", v) is None \
                    and match("self.read(2048, $*a, $**)", v) is None:
                ok = False
                why = (f"parses `{unparse(v)[:50] if v is not None else '?'}`"
                       f": the mailbox geometry of a terminal somebody else "
                       f"configured is not necessarily the EEPROM default")
    chk.ob("R16.9", sym, "the sync managers parsed are the registers read "
           "from the terminal (0x800..)", ok, ps[0][1] if ps else f,
           why if not ok else "sm = await self.read(0x800, data=0x80)")


def addressed(chk, repo):
    """R16.8: every SDO request names the entry the caller asked for: the
    index field is `index`, the subindex field is `subindex` for every
    subindex 0..255 and 1 for a complete-access request (None)"""
    chk.doc("R16.8", "requests carry the index and subindex asked for")
    n = 0
    for fn in ("sdo_read", "sdo_write"):
        sym = "ebpfcat.ethercat.Terminal." + fn
        f = repo.func(sym)
        ev = Evaluator(repo, f._module)
        for c in calls_in(f, nested=True):
            if not (isinstance(c.func, ast.Attribute) and c.func.attr
                    == "mbx_send" and len(c.args) >= 6
                    and str_const(c.args[1]) is not None
                    and str_const(c.args[1]).startswith("HBHB")):
                continue
            n += 1
            idx, sub = c.args[4], c.args[5]
            oki = isinstance(idx, ast.Name) and idx.id == "index"
            bad = []
            notnone = has_fact(path_facts(c), "subindex is not None", True)
            for v in (None, 0, 1, 2, 7, 255):
                if v is None and notnone:
                    continue
                try:
                    got = ev.eval(sub, {"subindex": v})
                except (Unknown, Raised) as e:
                    bad.append(f"subindex={v}: {e}")
                    continue
                want = 1 if v is None else v
                if got != want:
                    bad.append(f"subindex={v} -> {got}")
            chk.ob("R16.8", sym, f"request #{n} addresses index and subindex "
                   f"as given (`{unparse(sub)[:40]}`)", oki and not bad, c,
                   ("index field is `" + unparse(idx) + "`; " if not oki
                    else "") + ("; ".join(bad[:3]) + ": subindex 0 (the "
                                "number-of-entries element of every record) "
                                "is asked for as another entry, whose bytes "
                                "come back unnoticed because only the index "
                                "of the response is checked" if bad else
                                "None -> 1 (complete access), else the "
                                "subindex itself"))
    chk.floor("R16.8", "SDO requests with an address", n, 5)


def stmt_key(n):
    s = stmt_of(n)
    if isinstance(s, (ast.While, ast.If)):
        txt = ("while " if isinstance(s, ast.While) else "if ") + unparse(
            s.test)
    elif isinstance(s, (ast.AsyncWith, ast.With, ast.For)):
        txt = unparse(s).split("\n")[0]
    else:
        txt = unparse(s)
    return " ".join(txt.split())[:70]


def taint(chk, repo):
    sym = T + ".sdo_write"
    f = repo.func(sym)
    chk.analysed(sym)
    cfg = CFG(f, raises="await")
    rd = ReachingDefs(cfg)
    payload = param_names(f)[1]
    uses = []
    for n in cfg.nodes:
        if n.expr is None:
            continue
        for x in walk_expr(n.expr):
            if isinstance(x, ast.Name) and x.id == payload and isinstance(
                    x.ctx, ast.Load):
                par = x._parent
                role = None
                if isinstance(par, ast.Call) and dotted(par.func) == "len":
                    role = "length"
                elif isinstance(par, ast.Subscript) and par.value is x:
                    # slice of the payload handed to mbx_send?
                    q = par
                    while q is not None and not isinstance(q, ast.stmt):
                        if isinstance(q, ast.Call) and isinstance(
                                q.func, ast.Attribute) and \
                                q.func.attr == "mbx_send":
                            role = "sent slice"
                        q = getattr(q, "_parent", None)
                    st = stmt_of(par)
                    if role is None and isinstance(st, ast.Assign) and len(
                            st.targets) == 1 and isinstance(
                                st.targets[0], ast.Name):
                        # a local that is later passed as data=<local>
                        nm = st.targets[0].id
                        if any(isinstance(c, ast.Call) and isinstance(
                                c.func, ast.Attribute) and c.func.attr ==
                                "mbx_send" and any(
                                    kw.arg == "data" and isinstance(
                                        kw.value, ast.Name) and
                                    kw.value.id == nm for kw in c.keywords)
                                for c in ast.walk(f)):
                            role = "sent slice"
                elif isinstance(par, ast.Call) and isinstance(
                        par.func, ast.Attribute) and \
                        par.func.attr == "mbx_send":
                    role = "sent value"
                elif isinstance(par, ast.keyword):
                    role = "sent value"
                if role:
                    uses.append((n, x, role))
    chk.floor("R16.1", "uses of the payload in sdo_write", len(uses), 8)
    seen = set()
    for n, x, role in uses:
        ds = rd.reaching(n, payload)
        ok = bool(ds) and all(d.kind == "param" for d in ds)
        inst = f"{role} in `{stmt_key(x)}`"
        if inst in seen:
            continue
        seen.add(inst)
        bad = sorted({f"line-independent: `{stmt_key(d.target)}`"
                      for d in ds if d.kind != "param" and d.target
                      is not None})
        chk.ob("R16.1", sym, inst, ok, x,
               f"`{payload}` here can be the value bound by "
               f"{bad[0] if bad else '?'} - a mailbox response; the "
               f"transfer then runs over the response instead of the "
               f"payload" if not ok else "reached only by the parameter")


def segments(chk, repo):
    for meth, cursor in (("sdo_read", "retsize"), ("sdo_write", "stop")):
        sym = T + "." + meth
        f = repo.func(sym)
        chk.analysed(sym)
        cfg = CFG(f, raises="await")
        loops = [n for n in cfg.nodes if n.kind == "test" and isinstance(
            n.stmt, ast.While) and cursor in unparse(n.expr) and (
                "size" in unparse(n.expr) or "len(" in unparse(n.expr))]
        need(len(loops) == 1, f"{sym}: segment loop not found")
        lp = loops[0]
        body_ids = {id(x) for s in lp.stmt.body for x in ast.walk(s)}

        def is_send(n):
            return n.expr is not None and id(n.stmt) in body_ids and bool(
                find("self.mbx_send($*a, $**)", n.expr))

        def is_recv(n):
            return n.expr is not None and id(n.stmt) in body_ids and bool(
                find("self.mbx_recv()", n.expr))
        # every trip round the loop passes a send and then a receive
        first = [m for m, lab in lp.succ if lab == "true"]
        need(len(first) == 1, f"{sym}: loop body entry")

        class Start:
            succ = [(first[0], "next")]
        ok_s = cfg.must_pass(Start, is_send, targets=[lp, cfg.exit])
        ok_r = cfg.must_pass(Start, is_recv, targets=[lp, cfg.exit])
        if is_send(first[0]):
            ok_s = True
        chk.ob("R16.2", sym, "every iteration of the segment loop sends a "
               "request", ok_s, lp.stmt,
               "an iteration that advances the cursor without sending "
               "drops that part of the data")
        chk.ob("R16.2", sym, "every iteration of the segment loop receives "
               "the response", ok_r, lp.stmt,
               "request and response alternate")
        tg = [s for s in ast.walk(lp.stmt) if isinstance(s, ast.AugAssign)
              and unparse(s.target) == "toggle"]
        ok = len(tg) == 1 and isinstance(tg[0].op, ast.BitXor) and int_const(
            tg[0].value) == 0x10
        if ok:
            # every trip that comes back to the loop test has flipped it
            def is_flip(n):
                return n.stmt is tg[0]
            ok = cfg.must_pass(Start, is_flip, targets=[lp]) or is_flip(
                first[0])
        chk.ob("R16.2", sym, "the toggle bit flips once per iteration", ok,
               lp.stmt, "one `toggle ^= 0x10` on every path round the loop")
        t0 = [s for s, v in assigned_values(f, "toggle")
              if isinstance(s, ast.Assign)]
        ok = len(t0) == 1 and int_const(t0[0].value) == 0
        chk.ob("R16.2", sym, "the toggle starts at 0", ok, lp.stmt,
               "first segment carries toggle 0")


def accumulator(chk, repo):
    sym = T + ".sdo_read"
    f = repo.func(sym)
    inits = [s for s, v in assigned_values(f, "ret")
             if isinstance(s, ast.Assign) and isinstance(v, ast.List)]
    joins = find("b''.join(ret)", f)
    need(inits and joins, f"{sym}: accumulator not found")
    exts = [s for s in walk_no_nested(f) if isinstance(s, ast.AugAssign)
            and unparse(s.target) == "ret"]
    apps = find("ret.append($x)", f)
    chk.floor("R16.3", "extensions of the accumulator", len(exts) + len(apps),
              1)
    for s in exts:
        ok = isinstance(s.value, ast.List)
        chk.ob("R16.3", sym, f"`{' '.join(unparse(s).split())}` extends the "
               f"list by whole bytes objects", ok, s,
               "`list += bytes` appends the individual integers; the final "
               "b''.join then raises TypeError, so every segmented upload "
               "fails" if not ok else "list += [bytes]")
    coe = repo.func(T + ".coe_request")
    ok = bool(find("ret.append(data[offset:])", coe)) and bool(find(
        "b''.join(ret)", coe))
    chk.ob("R16.3", T + ".coe_request", "fragments are appended as bytes",
           ok, coe, "ret.append(data[offset:])")


def fits(chk, repo):
    """6 + calcsize(header format) + bound(len(data)) <= mbx_out_sz"""
    for meth in ("sdo_read", "sdo_write"):
        sym = T + "." + meth
        f = repo.func(sym)
        cfg = CFG(f, raises="await")
        rd = ReachingDefs(cfg)
        sends = [(n, c) for n in cfg.nodes if n.expr is not None
                 for c, b in find("self.mbx_send($*a, $**)", n.expr)]
        chk.floor("R16.4", f"mbx_send calls in {meth}", len(sends), 2)
        k = 0
        for n, c in sends:
            fmt = str_const(c.args[1]) if len(c.args) > 1 else None
            need(fmt is not None, f"{sym}: mbx_send header format")
            hdr = 6 + calcsize("<" + fmt)
            dk = [kw.value for kw in c.keywords if kw.arg == "data"]
            if not dk:
                chk.ob("R16.4", sym, f"send #{k} ({fmt}): {hdr} bytes fit "
                       f"any mailbox", True, c, "no variable part")
                k += 1
                continue
            bound = data_bound(f, cfg, rd, n, dk[0])
            ok = bound is not None and hdr + bound[0] <= 0
            chk.ob("R16.4", sym, f"send #{k} ({fmt}, data="
                   f"{unparse(dk[0])[:30]}): header + data <= mailbox", ok,
                   c, f"{hdr} header bytes + at most "
                   f"{'mbx_out_sz%+d' % bound[0] if bound else '?'} data "
                   f"bytes" + ("" if ok else ": exceeds the mailbox size "
                               "(the write then spills over the mailbox "
                               "area / is rejected by the terminal)"))
            k += 1


def data_bound(f, cfg, rd, node, e):
    """upper bound of len(e) as mbx_out_sz + c -> (c,), via the cursor
    arithmetic `stop = min(len(data), start + self.mbx_out_sz - k)`"""
    if isinstance(e, ast.Name):
        ds = rd.reaching(node, e.id)
        best = None
        for d in ds:
            if d.kind != "assign" or not isinstance(d.value, ast.AST):
                return None
            b = data_bound(f, cfg, rd, d.node, d.value)
            if b is None:
                return None
            best = b if best is None else (max(best[0], b[0]),)
        return best
    if isinstance(e, ast.BinOp) and isinstance(e.op, ast.Add):
        # data[a:b] + padding up to a constant length
        l = data_bound(f, cfg, rd, node, e.left)
        return l
    if isinstance(e, ast.Subscript) and isinstance(e.slice, ast.Slice):
        lo, hi = e.slice.lower, e.slice.upper
        if hi is None:
            return None
        hb = cursor_bound(f, cfg, rd, node, hi, lo)
        return hb
    return None


def cursor_bound(f, cfg, rd, node, hi, lo):
    """bound of hi - lo in terms of mbx_out_sz"""
    if isinstance(hi, ast.Name):
        ds = rd.reaching(node, hi.id)
        best = None
        for d in ds:
            if d.kind != "assign" or not isinstance(d.value, ast.AST):
                return None
            b = match("min(len($d), $x)", d.value)
            if b is None:
                return None
            x = b["x"]
            # x is  self.mbx_out_sz - k      (lo absent)
            #   or  <lo> + self.mbx_out_sz - k
            m1 = match("self.mbx_out_sz - $k", x)
            if m1 is not None and lo is None and int_const(m1["k"]) \
                    is not None:
                c = -int_const(m1["k"])
            else:
                m2 = match("$s + self.mbx_out_sz - $k", x)
                if m2 is not None and lo is not None and same(
                        m2["s"], lo) and int_const(m2["k"]) is not None:
                    c = -int_const(m2["k"])
                else:
                    return None
            best = (c,) if best is None else (max(best[0], c),)
        return best
    return None


def responses(chk, repo):
    n_recv = 0
    for meth in ("sdo_read", "sdo_write", "coe_request"):
        sym = T + "." + meth
        f = repo.func(sym)
        chk.analysed(sym)
        cfg = CFG(f, raises="await")
        rd = ReachingDefs(cfg)
        recvs = [n for n in cfg.nodes if n.kind == "stmt" and isinstance(
            n.stmt, ast.Assign) and find("self.mbx_recv()", n.stmt.value)
            and isinstance(n.stmt.targets[0], ast.Tuple)]
        for r in recvs:
            n_recv += 1
            tname, dname = (unparse(t) for t in r.stmt.targets[0].elts)

            def typed(a, b, lab):
                if a.kind == "test" and (
                        (match(f"{tname} is not MBXType.COE", a.expr)
                         is not None and lab == "false") or
                        (match(f"{tname} is MBXType.COE", a.expr)
                         is not None and lab == "true")):
                    return False
                if lab == "exc":
                    return False
                return True
            reach = cfg.reach_edges(r, typed)
            parses = []
            for n in reach:
                if n is r or n.expr is None:
                    continue
                cands = [b["x"] for c, b in find("unpack($fmt, $x)", n.expr)
                         ] + [b["x"] for c, b in find(
                             "unpack_from($fmt, $x, $*s)", n.expr)]
                for x in cands:
                    base = x.value if isinstance(x, ast.Subscript) else x
                    if isinstance(base, ast.Name) and base.id == dname and \
                            any(d.node is r for d in rd.reaching(n, dname)):
                        parses.append(n)
            chk.ob("R16.5", sym, f"mail received by `{stmt_key(r.stmt)}` is "
                   f"type-checked before it is parsed", not parses, r.stmt,
                   f"`{unparse(parses[0].expr)[:50]}` can parse a mail whose "
                   f"type was not established to be CoE: an unrelated mail "
                   f"(EoE, FoE...) is taken for the SDO response"
                   if parses else "every path from the receive to a parse "
                   "leaves a test `type is (not) MBXType.COE` on the CoE "
                   "side")
    chk.floor("R16.5", "mailbox receives in the SDO functions", n_recv, 5)
    # service and index checks
    for meth, nres in (("sdo_read", 2), ("sdo_write", 3)):
        sym = T + "." + meth
        f = repo.func(sym)
        svc = find("coecmd >> 12 != CoECmd.SDORES.value", f)
        chk.ob("R16.5", sym, f"the CoE service is checked to be SDO "
               f"response ({nres} receives)", len(svc) >= nres, f,
               f"{len(svc)} checks")
    f = repo.func(T + ".sdo_read")
    ok = bool(find("idx != index", f))
    chk.ob("R16.5", T + ".sdo_read", "the echoed index is checked", ok, f,
           "idx != index -> error")
    f = repo.func(T + ".sdo_write")
    ok = len(find("idx != index or subindex != subidx", f)) >= 2
    chk.ob("R16.5", T + ".sdo_write", "the echoed index and subindex are "
           "checked", ok, f, "both download paths")
    # expedited upload: 4 - n bytes
    f = repo.func(T + ".sdo_read")
    ex = [r for r in walk_no_nested(f) if isinstance(r, ast.Return)
          and any(t and match("sdocmd & 2", e) is not None
                  for e, t in path_facts(r))]
    ok = len(ex) == 1
    fails = []
    if ok:
        ev = Evaluator(repo, f._module)
        payload = bytes(range(16))
        for n in range(4):
            try:
                got = ev.eval(ex[0].value, {"data": payload,
                                            "sdocmd": 0x43 | (n << 2)})
            except (Unknown, Raised) as e:
                fails.append(str(e))
                continue
            if got != payload[6:10 - n]:
                fails.append(f"n={n}: {got!r}")
    chk.ob("R16.5", T + ".sdo_read", "expedited upload returns the 4 - n "
           "data bytes after the 6-byte header", ok and not fails,
           ex[0] if ex else f, "; ".join(fails) or "folded for n = 0..3")
    # expedited download: size bits
    f = repo.func(T + ".sdo_write")
    ok = bool(find("ODCmd.DOWN_EXP.value | (4 - len(data) << 2 & 12)", f))
    chk.ob("R16.5", T + ".sdo_write", "expedited download announces 4 - "
           "len(data) unused bytes", ok, f, "size bits in the command "
           "specifier")


def object_entries(chk, repo):
    """ObjectEntry.write / read by abstract execution: a value of a typed
    entry goes to sdo_write as exactly its little-endian struct encoding -
    whatever the entry's bit length says - and what sdo_read returns is
    decoded with the same format"""
    import struct
    oe = repo.cls("ebpfcat.ethercat.ObjectEntry")
    wr, rd = oe.methods.get("write"), oe.methods.get("read")
    if wr is None or rd is None:
        return
    chk.analysed(oe.qualname + ".write", oe.qualname + ".read")
    bad = []
    for fmt, bits, val in (("B", 1, 1), ("B", 1, 0), ("B", 7, 100),
                           ("B", 8, 200), ("h", 16, -2), ("H", 16, 65000),
                           ("i", 32, -70000), ("I", 24, 0x123456),
                           ("I", 32, 0xdeadbeef), ("q", 64, -5),
                           ("f", 32, 1.5)):
        sent = []
        raw = struct.pack("<" + fmt, val)

        def sdo_write(data, index, sub=None, _s=sent):
            _s.append((bytes(data), index, sub))

        def sdo_read(index, sub=None, _r=raw):
            return _r
        me = Obj(oe, {"terminal": Obj(None, {
            "sdo_write": ("hook", sdo_write),
            "sdo_read": ("hook", sdo_read)}),
            "index": 0x8010, "valueInfo": 3, "bitLength": bits,
            "dataType": Obj(None, {"fmt": fmt, "name": "T"})})
        try:
            Evaluator(repo, wr._module, oe).call_function(wr, [me, val],
                                                          cls=oe)
            got = Evaluator(repo, rd._module, oe).call_function(rd, [me],
                                                                cls=oe)
        except (Unknown, Raised) as e:
            raise AnalysisError(f"{oe.qualname}.write/read: cannot be "
                                f"evaluated for {fmt!r}: {e}")
        if sent != [(raw, 0x8010, 3)]:
            bad.append(f"{fmt!r} ({bits} bit) = {val!r}: sdo_write gets "
                       f"{sent}, the value is {raw.hex()}")
        elif got != val:
            bad.append(f"{fmt!r} ({bits} bit): reads {got!r} for "
                       f"{raw.hex()}")
    chk.ob("R16.8", oe.qualname, "typed entries are written and read as "
           "their little-endian struct encoding (11 types / bit lengths by "
           "abstract execution)", not bad, wr, "; ".join(bad[:2]) or
           "value -> pack('<'+fmt) -> sdo_write; sdo_read -> unpack")


def datasize_exact(chk, repo):
    """the length word of a mailbox message is computed by datasize(): the
    packed size of the formats plus the number of raw bytes, exactly (by
    abstract execution; odd lengths included - a length rounded up makes
    the terminal take a byte of stale mailbox memory for the last byte of
    the value)"""
    f = repo.func("ebpfcat.ethercat.datasize")
    chk.analysed("ebpfcat.ethercat.datasize")
    bad = []
    n = 0
    for args in ((), ("H",), ("HBHB4x",), ("HBHBI", 1, 2, 3, 4, 5),
                 ("H", 7, "B"), ("B",), ("HB",), ("3s", b"abc")):
        for data in (None, 0, 1, 2, 5, 11, 13, b"", b"x", b"xyz",
                     b"0123456789a"):
            n += 1
            want = struct.calcsize("<" + "".join(
                a for a in args if isinstance(a, str))) + (
                data if isinstance(data, int) else
                len(data) if data is not None else 0)
            try:
                got = Evaluator(repo, f._module).call_function(
                    f, [args, data])
            except (Unknown, Raised) as e:
                raise AnalysisError(f"datasize: cannot be evaluated: {e}")
            if got != want:
                bad.append(f"datasize({args!r}, {data!r}) = {got!r}, the "
                           f"message has {want} bytes")
    chk.ob("R16.4", "ebpfcat.ethercat.datasize", f"the announced length is "
           f"the number of bytes of the message ({n} cases by abstract "
           f"execution)", not bad, f, "; ".join(bad[:2]) or
           "calcsize('<' + formats) + raw bytes")


def no_give_up(chk, repo):
    """mbx_recv waits for the mail: it does not give up on its own before
    the mailbox was read.  A response that arrives after the waiting was
    abandoned stays in the mailbox - the transfer is reported as failed
    although it took place, and the stale response is what the next
    exchange finds.  (Failing because a datagram failed is something else:
    that comes from the read itself.)"""
    sym = T + ".mbx_recv"
    f = repo.func(sym)
    chk.analysed(sym)
    cfg = CFG(f, raises="none")
    reads = [n for n in cfg.nodes if n.expr is not None and any(
        isinstance(c, ast.Call) and match("self.read", c.func) is not None
        and c.args and "mbx_in_off" in unparse(c.args[0])
        for c in walk_expr(n.expr))]
    need(reads, f"{sym}: mailbox read not found")
    rids = {n.id for n in reads}
    raises = [n for n in cfg.reachable(cfg.entry, avoid=lambda m: m.id in rids)
              if isinstance(getattr(n, "stmt", None), ast.Raise)
              and n.kind != "test"]
    chk.ob("R16.5", sym, "no explicit give-up before the mailbox is read",
           not raises, raises[0].stmt if raises else f,
           (f"`{unparse(raises[0].stmt)[:60]}` is reachable before the "
            f"mailbox read: a response arriving later stays in the mailbox "
            f"and is taken for the answer to the next request") if raises
           else "the status poll ends only when mail is there")


def drain_before_send(chk, repo):
    """mbx_send: when the status read at its start shows a mail pending
    (bit 3), that mail is fetched with mbx_recv() before the new request is
    written - the answer to a request given up earlier is taken out of the
    way and cannot be mistaken for the answer to this one.  Every path from
    the true branch of the `status & 8` test to the mailbox write passes
    the mbx_recv() call."""
    sym = T + ".mbx_send"
    f = repo.func(sym)
    cfg = CFG(f, raises="await")
    def pending_edge(e):
        neg = False
        while isinstance(e, ast.UnaryOp) and isinstance(e.op, ast.Not):
            e, neg = e.operand, not neg
        b = match("$s & 8 == 0", e) or match("$s & 8 != 8", e)
        if b is not None:
            return "true" if neg else "false"
        if match("$s & 8", e) is not None or match("$s & 8 != 0", e) \
                is not None or match("$s & 8 == 8", e) is not None:
            return "false" if neg else "true"
        return None
    tests = [n for n in cfg.nodes if n.kind == "test"
             and pending_edge(n.expr) is not None]
    writes = [n for n in cfg.nodes if n.expr is not None and n.kind != "test"
              and any(isinstance(c, ast.Call) and match(
                  "self.write", c.func) is not None and c.args and match(
                      "self.mbx_out_off", c.args[0]) is not None
                  for c in walk_expr(n.expr))]
    need(tests and writes, f"{sym}: status test / mailbox write not found")

    def is_recv(n):
        return n.expr is not None and bool(find("self.mbx_recv()", n.expr))
    ok = True
    path = None
    for t in tests:
        # (the false edge of the last `if` of a loop body is the loop edge)
        other = "false" if pending_edge(t.expr) == "true" else "true"
        starts = [m for m, lab in t.succ if lab not in (other, "exc")]
        for st_ in starts:
            class S:
                succ = [(st_, "next")]
            if not cfg.must_pass(S, is_recv, targets=[writes[0]]):
                ok = False
                w = cfg.witness_path(S, is_recv, targets=[writes[0]])
                path = cfg.describe_path(w[1:]) if w else None
    chk.ob("R16.7", sym, "a mail found pending is received before the "
           "request is written", ok, tests[0].stmt, "mbx_recv() on every "
           "path from `status & 8` to the write of the mailbox: waiting for "
           "the flag to clear instead leaves the stale answer where the "
           "answer to this request is looked for", path)


def directions(chk, repo):
    drain_before_send(chk, repo)
    object_entries(chk, repo)
    for meth, own, other, status in (("mbx_send", "out", "in", 0x805),
                                     ("mbx_recv", "in", "out", 0x80D)):
        sym = T + "." + meth
        f = repo.func(sym)
        chk.analysed(sym)
        attrs = sorted({n.attr for n in walk_no_nested(f) if isinstance(
            n, ast.Attribute) and n.attr.startswith("mbx_") and n.attr
            not in ("mbx_lock", "mbx_recv", "mbx_send")})
        bad = [a for a in attrs if f"_{other}_" in a]
        chk.ob("R16.7", sym, f"uses only the {own}-mailbox attributes",
               bool(attrs) and not bad, f, f"attributes used: {attrs}" + (
                   f"; {bad} belong to the other direction: with mailboxes "
                   f"of different size the message is truncated or the "
                   f"mailbox never released" if bad else ""))
        st = find(f"self.read({status}, 'B')", f)
        chk.ob("R16.7", sym, f"polls sync manager status {status:#x}",
               len(st) == 1, f, "SM0 status 0x805 (write mailbox), SM1 "
               "status 0x80D (read mailbox)")
    f = repo.func(T + ".mbx_recv")
    ok = bool(find("self.read(self.mbx_in_off, 'HHBB', data=self.mbx_in_sz "
                   "- 6)", f)) and bool(find("data[:dlen]", f))
    chk.ob("R16.7", T + ".mbx_recv", "reads the whole in-mailbox: 6-byte "
           "header + the rest, cut to the announced length", ok, f,
           "calcsize('<HHBB') == 6; reading the last byte releases the "
           "mailbox")
    f = repo.func(T + ".mbx_send")
    ok = bool(find("self.write(self.mbx_out_off + self.mbx_out_sz - 1, "
                   "data=1)", f))
    chk.ob("R16.7", T + ".mbx_send", "writing the last byte of the out-"
           "mailbox hands the message over", ok, f, "mbx_out_off + "
           "mbx_out_sz - 1")
    ok = bool(find("datasize(args, data)", f))
    ds = repo.get("ebpfcat.ethercat.datasize")
    ok = ok and bool(find("calcsize('<' + ''.join((arg for arg in args if "
                          "isinstance(arg, str))))", ds))
    chk.ob("R16.7", T + ".mbx_send", "the length field counts the formatted "
           "fields plus the data", ok, f, "datasize(args, data)")

# added rules (appended to the explanation the evidence file carries)
EXPLANATION += (" " + "Added during the build (DESIGN.md 4.31, second table): (R16.7) in mbx_send every path from 'mail pending' to the mailbox write passes mbx_recv().")
EXPLANATION += (' Added after wave 9: (R16.5) mbx_recv has no explicit give-up before the mailbox is read; the lock-file model of C15 is shared.')
EXPLANATION += (' Added after wave 10: (R16.4) datasize() gives the exact number of bytes for 88 cases.')
